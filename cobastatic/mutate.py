"""AST-located source mutations used by positive controls and by the checker self-test.

A transform receives a *fresh* parse of one module and edits it in place; the result is
unparsed into an overlay source.  /repo is never written.  Targets are located by qualified
name + a predicate on statements, so a transform whose target disappeared raises
TargetMissing instead of silently doing nothing.
"""
import ast
import warnings
from typing import Callable, List, Optional


class TargetMissing(Exception):
    pass


def apply(model, rel: str, transform: Callable[[ast.Module], None]) -> str:
    mod = model.module(rel)
    with warnings.catch_warnings():
        warnings.simplefilter("ignore")
        tree = ast.parse(mod.src)
    transform(tree)
    ast.fix_missing_locations(tree)
    return ast.unparse(tree) + "\n"


def find_def(tree: ast.AST, qual: str) -> ast.AST:
    """definition by qualified name; of several same-named definitions in one body the LAST wins (as at run time,
    e.g. typing.overload stubs followed by the implementation)."""
    cur = tree
    for part in qual.split("."):
        nxt = None
        if isinstance(cur, (ast.Module, ast.ClassDef)):
            for n in cur.body:
                if isinstance(n, (ast.FunctionDef, ast.ClassDef, ast.AsyncFunctionDef)) and n.name == part:
                    nxt = n
        if nxt is None:
            for n in ast.walk(cur):
                if isinstance(n, (ast.FunctionDef, ast.ClassDef, ast.AsyncFunctionDef)) and n.name == part and n is not cur:
                    nxt = n
        if nxt is None:
            raise TargetMissing(f"definition {qual}")
        cur = nxt
    return cur


def _bodies(node: ast.AST):
    for field in ("body", "orelse", "finalbody"):
        b = getattr(node, field, None)
        if isinstance(b, list) and b and isinstance(b[0], ast.stmt):
            yield b
    for h in getattr(node, "handlers", []) or []:
        yield h.body


def find_stmt(root: ast.AST, pred: Callable[[ast.stmt], bool], nth: int = 0):
    """(containing list, index) of the nth statement under root satisfying pred (pre-order)."""
    hits = []

    def visit(n):
        for body in _bodies(n):
            for i, st in enumerate(body):
                if pred(st):
                    hits.append((body, i))
                visit(st)

    visit(root)
    if len(hits) <= nth:
        raise TargetMissing("statement predicate")
    return hits[nth]


def text_has(*subs: str) -> Callable[[ast.AST], bool]:
    def p(st):
        if isinstance(st, (ast.If, ast.For, ast.While, ast.With, ast.Try, ast.FunctionDef, ast.ClassDef)):
            from .model import norm_stmt
            s = norm_stmt(st, 10000)
            body = getattr(st, "body", [])
            if isinstance(st, ast.If) and len(body) == 1 and not isinstance(body[0], (ast.If, ast.For, ast.While, ast.With, ast.Try)):
                s += ": " + " ".join(ast.unparse(body[0]).split())  # one-line `if x: stmt`
        else:
            s = ast.unparse(st)
        return all(x in s for x in subs)
    return p


def simple_has(*subs: str) -> Callable[[ast.AST], bool]:
    """like text_has but matches simple (non-compound) statements only."""
    def p(st):
        if isinstance(st, (ast.If, ast.For, ast.While, ast.With, ast.Try, ast.FunctionDef, ast.ClassDef)):
            return False
        s = ast.unparse(st)
        return all(x in s for x in subs)
    return p


def delete_stmt(qual: str, pred, nth: int = 0):
    def t(tree):
        fn = find_def(tree, qual)
        body, i = find_stmt(fn, pred, nth)
        body[i] = ast.Pass()
    return t


def replace_stmt(qual: str, pred, new_src: str, nth: int = 0):
    def t(tree):
        fn = find_def(tree, qual)
        body, i = find_stmt(fn, pred, nth)
        body[i:i + 1] = ast.parse(new_src).body
    return t


def insert_before(qual: str, pred, new_src: str, nth: int = 0):
    def t(tree):
        fn = find_def(tree, qual)
        body, i = find_stmt(fn, pred, nth)
        body[i:i] = ast.parse(new_src).body
    return t


def insert_after(qual: str, pred, new_src: str, nth: int = 0):
    def t(tree):
        fn = find_def(tree, qual)
        body, i = find_stmt(fn, pred, nth)
        body[i + 1:i + 1] = ast.parse(new_src).body
    return t


def replace_expr(qual: str, old_src: str, new_src: str, nth: int = 0, count: int = 1):
    """replace the nth (and following count-1) sub-expression(s) whose unparse equals that of
    old_src inside definition `qual` ('' = whole module)."""
    old_norm = ast.unparse(ast.parse(old_src, mode="eval").body)

    def t(tree):
        root = find_def(tree, qual) if qual else tree
        hits = []

        class V(ast.NodeTransformer):
            def generic_visit(self, node):
                node = super().generic_visit(node)
                return node

            def visit(self, node):
                if isinstance(node, ast.expr):
                    try:
                        same = ast.unparse(node) == old_norm
                    except Exception:
                        same = False
                    if same:
                        hits.append(node)
                        idx = len(hits) - 1
                        if nth <= idx < nth + count:
                            return ast.parse(new_src, mode="eval").body
                        return node
                return super().visit(node)

        V().visit(root)
        if len(hits) <= nth:
            raise TargetMissing(f"expression {old_src!r} in {qual}")
    return t


def chain(*ts):
    def t(tree):
        for x in ts:
            x(tree)
    return t


def swap_stmts(qual: str, pred_a, pred_b):
    def t(tree):
        fn = find_def(tree, qual)
        ba, ia = find_stmt(fn, pred_a)
        bb, ib = find_stmt(fn, pred_b)
        ba[ia], bb[ib] = bb[ib], ba[ia]
    return t
