"""cobastatic -- repository-specific static analysis for VowpalWabbit/coba (pure stdlib)."""
