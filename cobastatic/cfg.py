"""Statement-level control-flow graph with exception, finally, with and generator-abandonment
edges (see DESIGN.md 3.2 / A.1).  Pure `ast`; nothing is executed.

Exits: RETURN (normal completion), RAISE (an exception leaves the function), ABANDON (the
generator is closed/garbage-collected while suspended at a yield: GeneratorExit).
"""
import ast
from typing import Callable, Dict, List, Optional, Tuple

from .model import walk_shallow

EXC = "Exception"          # abstract class: any exception deriving from Exception
GEN_EXIT = "GeneratorExit"  # abandonment of a suspended generator
BASE = "BaseException"      # KeyboardInterrupt & co (thorough tier only)


class Node:
    __slots__ = ("id", "kind", "ast", "line", "note")

    def __init__(self, id: int, kind: str, node: Optional[ast.AST], note: str = ""):
        self.id = id
        self.kind = kind
        self.ast = node
        self.line = getattr(node, "lineno", 0) if node is not None else 0
        self.note = note

    def __repr__(self):
        return f"N{self.id}:{self.kind}@{self.line}{'/' + self.note if self.note else ''}"


class _Loop:
    def __init__(self, cont_target: int):
        self.breaks: List[Tuple[int, str]] = []
        self.cont_target = cont_target


class _Handlers:
    def __init__(self, handlers: List[Tuple[ast.ExceptHandler, int]]):
        self.handlers = handlers


class _Finally:
    def __init__(self, body: List[ast.stmt], outer: list, owner: ast.AST, is_with: bool = False):
        self.body = body
        self.outer = outer
        self.owner = owner
        self.is_with = is_with
        self.clones: Dict[tuple, int] = {}


def contains_yield(node: ast.AST) -> bool:
    m = getattr(node, "_cy_memo", None)
    if m is None:
        m = _contains_yield(node)
        try:
            node._cy_memo = m
        except Exception:  # pragma: no cover
            pass
    return m


def _contains_yield(node: ast.AST) -> bool:
    for n in walk_shallow(node):
        if isinstance(n, ast.Lambda):
            continue
        if isinstance(n, (ast.Yield, ast.YieldFrom)):
            return True
    return False


def may_raise(node: ast.AST, no_raise_calls=()) -> bool:
    if not no_raise_calls:
        m = getattr(node, "_mr_memo", None)
        if m is None:
            m = _may_raise(node, ())
            try:
                node._mr_memo = m
            except Exception:  # pragma: no cover
                pass
        return m
    return _may_raise(node, no_raise_calls)


def _may_raise(node: ast.AST, no_raise_calls=()) -> bool:
    if isinstance(node, (ast.Raise, ast.Assert, ast.Import, ast.ImportFrom, ast.Delete)):
        return True
    for n in walk_shallow(node):
        if isinstance(n, ast.Lambda):
            continue
        if isinstance(n, ast.Call) and no_raise_calls:
            try:
                if ast.unparse(n.func) in no_raise_calls and not n.args and not n.keywords:
                    continue
            except Exception:  # pragma: no cover
                pass
        if isinstance(n, (ast.Call, ast.BinOp, ast.Await, ast.YieldFrom)):
            return True
        if isinstance(n, ast.Subscript) and isinstance(n.ctx, (ast.Load, ast.Del)):
            return True
        if isinstance(n, ast.Subscript) and isinstance(n.ctx, ast.Store):
            return True
        if isinstance(n, ast.Yield):
            return True  # gen.throw() is possible; treated as may-raise
    return False


def _handler_names(h: ast.ExceptHandler) -> List[str]:
    if h.type is None:
        return ["*"]
    ts = h.type.elts if isinstance(h.type, ast.Tuple) else [h.type]
    out = []
    for t in ts:
        if isinstance(t, ast.Name):
            out.append(t.id)
        elif isinstance(t, ast.Attribute):
            out.append(t.attr)
        else:
            out.append("?")
    return out


def handler_admits(h: ast.ExceptHandler, exc: str) -> str:
    """'yes' | 'maybe' | 'no' -- does handler `h` catch abstract exception class `exc`?"""
    names = _handler_names(h)
    if "*" in names or "BaseException" in names:
        return "yes"
    if exc == EXC:
        if "Exception" in names:
            return "yes"
        if any(n not in ("GeneratorExit", "KeyboardInterrupt", "SystemExit") for n in names):
            return "maybe"
        return "no"
    if exc == GEN_EXIT:
        return "yes" if "GeneratorExit" in names else "no"
    if exc == BASE:
        return "maybe" if any(n in ("KeyboardInterrupt", "SystemExit") for n in names) else "no"
    return "no"


class CFG:
    def __init__(self, fn: ast.AST, test_eval: Callable[[ast.AST], Optional[bool]] = None,
                 base_exceptions: bool = False, body: List[ast.stmt] = None, no_raise_calls=()):
        """no_raise_calls: callee texts (e.g. "self._stopper.stop") whose argument-less calls were shown by the caller
        (callee summary) to be unable to raise."""
        self.no_raise_calls = set(no_raise_calls)
        self.fn = fn
        self.nodes: List[Node] = []
        self.succ: Dict[int, List[Tuple[int, str]]] = {}
        self.pred: Dict[int, List[Tuple[int, str]]] = {}
        self.test_eval = test_eval
        self.base_exceptions = base_exceptions
        self.entry = self._new("entry", None).id
        self.exit_return = self._new("exit_return", None).id
        self.exit_raise = self._new("exit_raise", None).id
        self.exit_abandon = self._new("exit_abandon", None).id
        self.stmt_nodes: Dict[int, List[int]] = {}  # id(ast stmt) -> node ids (finally clones!)
        out = self._block(fn.body if body is None else body, [(self.entry, "next")], [])
        self._connect(out, self.exit_return)

    # ------------------------------------------------------------------ primitives
    def _new(self, kind: str, node: Optional[ast.AST], note: str = "") -> Node:
        n = Node(len(self.nodes), kind, node, note)
        self.nodes.append(n)
        self.succ[n.id] = []
        self.pred[n.id] = []
        if node is not None:
            self.stmt_nodes.setdefault(id(node), []).append(n.id)
        return n

    def _edge(self, a: int, b: int, label: str):
        if (b, label) not in self.succ[a]:
            self.succ[a].append((b, label))
            self.pred[b].append((a, label))

    def _connect(self, dangling: List[Tuple[int, str]], target: int):
        for a, label in dangling:
            self._edge(a, target, label)

    # ------------------------------------------------------------------ routing of jumps
    def _route(self, src: List[Tuple[int, str]], kind: tuple, frames: list):
        """kind: ('return',) ('break',) ('continue',) ('exc', E)"""
        if not src:
            return
        i = len(frames) - 1
        while i >= 0:
            fr = frames[i]
            if isinstance(fr, _Finally):
                if kind in fr.clones:
                    self._connect(src, fr.clones[kind])
                    return
                join = self._new("join", fr.owner, "finally:" + "/".join(map(str, kind)))
                fr.clones[kind] = join.id
                self._connect(src, join.id)
                if fr.is_with:
                    ex = self._new("with_exit", fr.owner, "/".join(map(str, kind)))
                    self._edge(join.id, ex.id, "next")
                    src = [(ex.id, "next")]
                else:
                    src = self._block(fr.body, [(join.id, "next")], fr.outer)
                if not src:
                    return
                # continue outwards with frames outside this try
                frames = fr.outer
                i = len(frames) - 1
                continue
            if isinstance(fr, _Loop):
                if kind[0] == "break":
                    fr.breaks.extend(src)
                    return
                if kind[0] == "continue":
                    self._connect(src, fr.cont_target)
                    return
            if isinstance(fr, _Handlers) and kind[0] == "exc":
                stop = False
                for h, hid in fr.handlers:
                    adm = handler_admits(h, kind[1])
                    if adm in ("yes", "maybe"):
                        self._connect(src, hid)
                    if adm == "yes":
                        stop = True
                        break
                if stop:
                    return
            i -= 1
        if kind[0] == "return":
            self._connect(src, self.exit_return)
        elif kind[0] == "exc":
            tgt = self.exit_abandon if kind[1] == GEN_EXIT else self.exit_raise
            self._connect(src, tgt)
        # stray break/continue outside loops: ignore

    def _raise_edges(self, nid: int, node: ast.AST, frames: list, force: bool = False):
        if force or may_raise(node, self.no_raise_calls):
            self._route([(nid, "exc")], ("exc", EXC), frames)
            if self.base_exceptions:
                self._route([(nid, "exc")], ("exc", BASE), frames)
        if contains_yield(node):
            self._route([(nid, "abandon")], ("exc", GEN_EXIT), frames)

    # ------------------------------------------------------------------ statements
    def _block(self, stmts: List[ast.stmt], preds: List[Tuple[int, str]], frames: list) -> List[Tuple[int, str]]:
        for st in stmts:
            if not preds:
                break  # unreachable code
            preds = self._stmt(st, preds, frames)
        return preds

    def _eval_test(self, test: ast.AST) -> Optional[bool]:
        if isinstance(test, ast.Constant):
            return bool(test.value)
        if self.test_eval is not None:
            return self.test_eval(test)
        return None

    def _stmt(self, st: ast.stmt, preds, frames) -> List[Tuple[int, str]]:
        if isinstance(st, ast.If):
            t = self._new("test", st.test, "if")
            t.line = st.lineno
            self._connect(preds, t.id)
            self._raise_edges(t.id, st.test, frames)
            v = self._eval_test(st.test)
            out = []
            if v is not False:
                out += self._block(st.body, [(t.id, "true")], frames)
            if v is not True:
                out += self._block(st.orelse, [(t.id, "false")], frames) if st.orelse else [(t.id, "false")]
            return out
        if isinstance(st, ast.While):
            t = self._new("test", st.test, "while")
            t.line = st.lineno
            self._connect(preds, t.id)
            self._raise_edges(t.id, st.test, frames)
            v = self._eval_test(st.test)
            loop = _Loop(t.id)
            out = []
            if v is not False:
                body_out = self._block(st.body, [(t.id, "true")], frames + [loop])
                self._connect([(a, "back" if l == "next" else l) for a, l in body_out], t.id)
            if v is not True:
                out += self._block(st.orelse, [(t.id, "false")], frames) if st.orelse else [(t.id, "false")]
            return out + loop.breaks
        if isinstance(st, (ast.For, ast.AsyncFor)):
            it = self._new("iter", st, "for")
            self._connect(preds, it.id)
            self._route([(it.id, "exc")], ("exc", EXC), frames)  # evaluating/advancing the iterable may raise
            loop = _Loop(it.id)
            body_out = self._block(st.body, [(it.id, "loop")], frames + [loop])
            self._connect([(a, "back" if l == "next" else l) for a, l in body_out], it.id)
            out = self._block(st.orelse, [(it.id, "exhausted")], frames) if st.orelse else [(it.id, "exhausted")]
            return out + loop.breaks
        if isinstance(st, (ast.With, ast.AsyncWith)):
            en = self._new("with_enter", st, "with")
            self._connect(preds, en.id)
            self._route([(en.id, "exc")], ("exc", EXC), frames)
            fin = _Finally([], frames, st, is_with=True)
            body_out = self._block(st.body, [(en.id, "next")], frames + [fin])
            if not body_out:
                return []
            ex = self._new("with_exit", st, "normal")
            self._connect(body_out, ex.id)
            return [(ex.id, "next")]
        if isinstance(st, ast.Try) or type(st).__name__ == "TryStar":
            inner = list(frames)
            fin = None
            if st.finalbody:
                fin = _Finally(st.finalbody, frames, st)
                inner = inner + [fin]
            hnodes = []
            for h in st.handlers:
                hn = self._new("handler", h, "except " + ",".join(_handler_names(h)))
                hnodes.append((h, hn.id))
            body_frames = inner + ([_Handlers(hnodes)] if hnodes else [])
            out = self._block(st.body, preds, body_frames)
            if st.orelse:
                out = self._block(st.orelse, out, inner)
            for h, hid in hnodes:
                out += self._block(h.body, [(hid, "next")], inner)
            if fin is not None and out:
                kind = ("fall",)
                join = self._new("join", st, "finally:fall")
                fin.clones[kind] = join.id
                self._connect(out, join.id)
                out = self._block(st.finalbody, [(join.id, "next")], frames)
            return out
        if isinstance(st, ast.Return):
            n = self._new("stmt", st, "return")
            self._connect(preds, n.id)
            if st.value is not None:
                self._raise_edges(n.id, st.value, frames)
            self._route([(n.id, "return")], ("return",), frames)
            return []
        if isinstance(st, ast.Raise):
            n = self._new("stmt", st, "raise")
            self._connect(preds, n.id)
            self._route([(n.id, "exc")], ("exc", EXC), frames)
            return []
        if isinstance(st, ast.Break):
            n = self._new("stmt", st, "break")
            self._connect(preds, n.id)
            self._route([(n.id, "break")], ("break",), frames)
            return []
        if isinstance(st, ast.Continue):
            n = self._new("stmt", st, "continue")
            self._connect(preds, n.id)
            self._route([(n.id, "continue")], ("continue",), frames)
            return []
        if isinstance(st, (ast.FunctionDef, ast.AsyncFunctionDef, ast.ClassDef)):
            n = self._new("stmt", st, "def")
            self._connect(preds, n.id)
            return [(n.id, "next")]
        # simple statement
        n = self._new("stmt", st)
        self._connect(preds, n.id)
        self._raise_edges(n.id, st, frames)
        return [(n.id, "next")]

    # ------------------------------------------------------------------ queries
    def reachable(self, start: int = None, skip_labels=()) -> set:
        start = self.entry if start is None else start
        seen, todo = {start}, [start]
        while todo:
            a = todo.pop()
            for b, l in self.succ[a]:
                if l in skip_labels:
                    continue
                if b not in seen:
                    seen.add(b)
                    todo.append(b)
        return seen

    def nodes_of(self, stmt: ast.AST) -> List[int]:
        return self.stmt_nodes.get(id(stmt), [])

    def path(self, src: int, dst: int, avoid=()) -> Optional[List[int]]:
        """shortest path src -> dst avoiding the node ids in `avoid` (BFS)."""
        avoid = set(avoid)
        prev = {src: None}
        todo = [src]
        while todo:
            nxt = []
            for a in todo:
                for b, _ in self.succ[a]:
                    if b in prev or b in avoid:
                        continue
                    prev[b] = a
                    if b == dst:
                        out = [b]
                        while prev[out[-1]] is not None:
                            out.append(prev[out[-1]])
                        return list(reversed(out))
                    nxt.append(b)
            todo = nxt
        return None

    def describe_path(self, path: List[int]) -> List[str]:
        out = []
        for i in path:
            n = self.nodes[i]
            out.append(f"{n.kind}@{n.line}" + (f"({n.note})" if n.note else ""))
        return out

    def dominators(self) -> Dict[int, set]:
        reach = self.reachable()
        order = sorted(reach)
        dom = {n: set(order) for n in order}
        dom[self.entry] = {self.entry}
        changed = True
        while changed:
            changed = False
            for n in order:
                if n == self.entry:
                    continue
                ps = [p for p, _ in self.pred[n] if p in reach]
                new = set.intersection(*[dom[p] for p in ps]) if ps else set()
                new = new | {n}
                if new != dom[n]:
                    dom[n] = new
                    changed = True
        return dom


def forward(cfg: CFG, init, transfer: Callable, join: Callable, equal=lambda a, b: a == b,
            start: int = None):
    """Generic forward worklist solver.
    transfer(node, state, label) -> state flowing out along an edge with `label`
    (return None to kill the edge).  Returns dict node id -> IN state."""
    start = cfg.entry if start is None else start
    IN = {start: init}
    work = [start]
    while work:
        a = work.pop()
        st = IN[a]
        node = cfg.nodes[a]
        for b, label in cfg.succ[a]:
            out = transfer(node, st, label)
            if out is None:
                continue
            if b not in IN:
                IN[b] = out
                work.append(b)
            else:
                j = join(IN[b], out)
                if not equal(j, IN[b]):
                    IN[b] = j
                    work.append(b)
    return IN
