"""Shared helpers for the rule modules: AST pattern predicates and CFG path obligations."""
import ast
from typing import Callable, Iterable, List, Optional, Set, Tuple

from .cfg import CFG, Node
from .model import walk_shallow, call_name, dotted_name, is_self_attr


def calls_in(node: ast.AST) -> Iterable[ast.Call]:
    for n in walk_shallow(node):
        if isinstance(n, ast.Call):
            yield n


def call_tail(c: ast.Call) -> Optional[str]:
    """last component of the callee: `a.b(…).evaluate(x)` -> "evaluate"."""
    if isinstance(c.func, ast.Attribute):
        return c.func.attr
    if isinstance(c.func, ast.Name):
        return c.func.id
    return None


def _call_matches(c: ast.Call, name: str) -> bool:
    d = call_name(c)
    if d is not None:
        return d == name or d.endswith("." + name)
    return "." not in name and call_tail(c) == name


def has_call(node: ast.AST, name: str) -> bool:
    """node contains a call whose dotted callee equals `name` or ends with '.'+name (also
    matches `<any expr>.name(...)` for an undotted name)."""
    return any(_call_matches(c, name) for c in calls_in(node))


def find_calls(node: ast.AST, name: str) -> List[ast.Call]:
    return [c for c in calls_in(node) if _call_matches(c, name)]


def node_ast_for_effects(n: Node) -> Optional[ast.AST]:
    """the part of a CFG node that is evaluated at the node (for compound heads only the head)."""
    if n.ast is None:
        return None
    if n.kind == "iter":
        return n.ast.iter  # type: ignore[attr-defined]
    if n.kind in ("with_enter",):
        m = ast.Module(body=[], type_ignores=[])
        return ast.Tuple(elts=[i.context_expr for i in n.ast.items], ctx=ast.Load())  # type: ignore[attr-defined]
    if n.kind in ("with_exit", "join", "handler", "entry"):
        return None
    return n.ast


def nodes_where(cfg: CFG, pred: Callable[[Node], bool]) -> List[int]:
    reach = cfg.reachable()
    return [n.id for n in cfg.nodes if n.id in reach and pred(n)]


def escape_path(cfg: CFG, start: int, via: Set[int], bad: Set[int], first_labels_skip=("exc", "abandon"),
                skip_labels=(), edge_ok=None) -> Optional[List[int]]:
    """Search a path from `start` (leaving it by an edge whose label is not in first_labels_skip)
    that reaches a node in `bad` without passing through a node in `via`.  None if no such path."""
    prev = {}
    todo = []
    for b, l in cfg.succ[start]:
        if l in first_labels_skip or l in skip_labels:
            continue
        if b in via:
            continue
        if b not in prev:
            prev[b] = start
            todo.append(b)
    seen = set(prev)
    while todo:
        a = todo.pop(0)
        if a in bad:
            path = [a]
            while path[-1] != start:
                path.append(prev[path[-1]])
            return list(reversed(path))
        for b, l in cfg.succ[a]:
            if l in skip_labels:
                continue
            if edge_ok is not None and not edge_ok(a, b, l):
                continue
            if b in via or b in seen:
                continue
            seen.add(b)
            prev[b] = a
            todo.append(b)
    return None


def reaches_without(cfg: CFG, start: int, target_pred: Callable[[Node], bool], via: Set[int],
                    skip_labels=()) -> Optional[List[int]]:
    """path entry... generic: from `start` (inclusive of its out-edges) to any node satisfying
    target_pred avoiding `via`."""
    bad = {n.id for n in cfg.nodes if target_pred(n)}
    return escape_path(cfg, start, via, bad, first_labels_skip=(), skip_labels=skip_labels)


def names_loaded(node: ast.AST) -> Set[str]:
    return {n.id for n in ast.walk(node) if isinstance(n, ast.Name) and isinstance(n.ctx, ast.Load)}


def names_stored(node: ast.AST) -> Set[str]:
    out = set()
    for n in walk_shallow(node):
        if isinstance(n, ast.Name) and isinstance(n.ctx, (ast.Store, ast.Del)):
            out.add(n.id)
    return out


def assigned_value(fn: ast.AST, name: str) -> List[ast.AST]:
    """all value expressions assigned to local `name` by simple assignments in fn."""
    out = []
    for n in walk_shallow(fn):
        if isinstance(n, ast.Assign):
            for t in n.targets:
                if isinstance(t, ast.Name) and t.id == name:
                    out.append(n.value)
    return out


def const_str(e: ast.AST) -> Optional[str]:
    return e.value if isinstance(e, ast.Constant) and isinstance(e.value, str) else None


def unparse(e: ast.AST) -> str:
    return " ".join(ast.unparse(e).split())


def kw(call: ast.Call, name: str) -> Optional[ast.AST]:
    for k in call.keywords:
        if k.arg == name:
            return k.value
    return None


def arg_or_kw(call: ast.Call, pos: int, name: str) -> Optional[ast.AST]:
    if len(call.args) > pos and not any(isinstance(a, ast.Starred) for a in call.args[:pos + 1]):
        return call.args[pos]
    return kw(call, name)


def enclosing_stmt(node: ast.AST) -> ast.AST:
    from .model import parent
    cur = node
    while cur is not None and not isinstance(cur, ast.stmt):
        cur = parent(cur)
    return cur


def control_ancestors(node: ast.AST, stop: ast.AST) -> List[Tuple[ast.AST, str]]:
    """[(compound statement, branch)] from innermost to outermost between node and `stop`;
    branch in body/orelse/finalbody/handler."""
    from .model import parent
    out = []
    cur = node
    p = parent(cur)
    while p is not None and cur is not stop:
        if isinstance(p, (ast.If, ast.For, ast.While, ast.Try, ast.With)):
            for field in ("body", "orelse", "finalbody"):
                if cur in (getattr(p, field, None) or []):
                    out.append((p, field))
        if isinstance(p, ast.ExceptHandler):
            out.append((p, "handler"))
        cur = p
        p = parent(cur)
    return out


def guards_of(node: ast.AST, stop: ast.AST) -> List[Tuple[ast.AST, bool]]:
    """[(test expr, polarity)] of the `if` statements that control `node` (within `stop`)."""
    out = []
    for comp, branch in control_ancestors(node, stop):
        if isinstance(comp, ast.If):
            if branch == "body":
                out.append((comp.test, True))
            elif branch == "orelse":
                out.append((comp.test, False))
    return out


# ---------------------------------------------------------------------- role-based name resolution
def bound_names(fn: ast.AST, pred: Callable[[ast.AST], bool]) -> List[str]:
    """local names X with an assignment `X = V` (also `X, Y = V, W` pairwise) in fn such that pred(V)."""
    out = []
    for n in walk_shallow(fn):
        if isinstance(n, ast.Assign) and len(n.targets) == 1:
            t = n.targets[0]
            pairs = []
            if isinstance(t, ast.Name):
                pairs = [(t, n.value)]
            elif isinstance(t, ast.Tuple) and isinstance(n.value, ast.Tuple) and len(t.elts) == len(n.value.elts):
                pairs = [(a, b) for a, b in zip(t.elts, n.value.elts) if isinstance(a, ast.Name)]
            for a, v in pairs:
                try:
                    if pred(v) and a.id not in out:
                        out.append(a.id)
                except Exception:
                    pass
    return out


def name_bound(fn: ast.AST, pred: Callable[[ast.AST], bool], default: str = None) -> Optional[str]:
    """the unique local bound to a value satisfying pred (default if none / ambiguous)."""
    ns = bound_names(fn, pred)
    return ns[0] if len(ns) == 1 else default


def is_call_to(v: ast.AST, *names: str) -> bool:
    return isinstance(v, ast.Call) and any(_call_matches(v, n) for n in names)


def for_target(loop: ast.For) -> str:
    return unparse(loop.target)


def alpha(e) -> str:
    """unparse with comprehension / lambda bound variables renamed positionally (_c1, _c2, ...): two expressions that differ
    only in the names of such bound variables give the same text.  Accepts an AST node or source text."""
    import copy
    if isinstance(e, str):
        e = ast.parse(e, mode="eval").body
    else:
        for n in ast.walk(e):
            pass
        e = _strip_copy(e)
    names = {}
    for n in ast.walk(e):
        if isinstance(n, ast.comprehension):
            for t in ast.walk(n.target):
                if isinstance(t, ast.Name) and t.id not in names:
                    names[t.id] = f"_c{len(names) + 1}"
        if isinstance(n, ast.Lambda):
            for a in n.args.args:
                if a.arg not in names:
                    names[a.arg] = f"_c{len(names) + 1}"
    for n in ast.walk(e):
        if isinstance(n, ast.Name) and n.id in names:
            n.id = names[n.id]
        if isinstance(n, ast.arg) and n.arg in names:
            n.arg = names[n.arg]
    return unparse(e)


def _strip_copy(node):
    from .model import _copy_without_parents
    return _copy_without_parents(node)


_STATE_MUTATORS = ("append", "extend", "update", "setdefault", "add", "insert", "pop", "popitem", "clear", "remove", "discard", "appendleft", "sort", "reverse")


def self_state_stores(fn, cls_methods=None, ignore_accumulators=True):
    """[(what, line)] ways in which `fn` stores state on `self`: attribute (or element) assignment, in-place container mutation
    of a self attribute, and the reflective forms self.__dict__ / vars(self) / setattr(self, ..).  A counter that is only ever
    `+=`-ed and never read anywhere in the class (timing/telemetry) is not state, when ignore_accumulators."""
    from .model import is_self_attr, parent
    methods = list(cls_methods) if cls_methods is not None else [fn]

    def read_somewhere(attr):
        for f in methods:
            for x in ast.walk(f):
                if isinstance(x, ast.Attribute) and is_self_attr(x, attr) and isinstance(x.ctx, ast.Load):
                    top = x
                    while isinstance(parent(top), ast.Subscript) and parent(top).value is top:
                        top = parent(top)
                    if not (isinstance(parent(top), ast.AugAssign) and parent(top).target is top):
                        return True
        return False
    out = []

    def walk_no_classes(root):
        todo = [root]
        while todo:
            n = todo.pop()
            yield n
            for ch in ast.iter_child_nodes(n):
                if isinstance(ch, ast.ClassDef):
                    continue  # a nested class has its own `self`
                todo.append(ch)
    for x in walk_no_classes(fn):
        if isinstance(x, (ast.Assign, ast.AugAssign, ast.AnnAssign)):
            tgs = x.targets if isinstance(x, ast.Assign) else [x.target]
            for t in tgs:
                for tt in (t.elts if isinstance(t, (ast.Tuple, ast.List)) else [t]):
                    b = tt
                    while isinstance(b, ast.Subscript):
                        b = b.value
                    if is_self_attr(b):
                        if ignore_accumulators and isinstance(x, ast.AugAssign) and not read_somewhere(b.attr):
                            continue
                        out.append((f"self.{b.attr}", x.lineno))
        if isinstance(x, ast.Call) and isinstance(x.func, ast.Attribute) and x.func.attr in _STATE_MUTATORS:
            b = x.func.value
            while isinstance(b, ast.Subscript):
                b = b.value
            if is_self_attr(b):
                out.append((f"self.{b.attr}.{x.func.attr}()", x.lineno))
        if isinstance(x, ast.Attribute) and x.attr == "__dict__" and isinstance(x.value, ast.Name) and x.value.id == "self":
            out.append(("self.__dict__", x.lineno))
        if isinstance(x, ast.Call) and isinstance(x.func, ast.Name) and x.func.id in ("setattr", "vars", "delattr") and x.args and isinstance(x.args[0], ast.Name) and x.args[0].id == "self":
            out.append((f"{x.func.id}(self, ..)", x.lineno))
        if isinstance(x, (ast.Global, ast.Nonlocal)):
            out.append(("global/nonlocal", x.lineno))
    return out


def all_guards(node, fn):
    """[(condition, polarity)] that hold whenever `node` is evaluated: enclosing statement guards plus the conditional
    expressions (IfExp arms, right operands of and/or) the node sits in; positive conjunctions are split."""
    from .model import parent
    out = []
    n = node
    while n is not None and n is not fn:
        p_ = parent(n)
        if isinstance(p_, ast.IfExp):
            if n is p_.body:
                out.append((p_.test, True))
            elif n is p_.orelse:
                out.append((p_.test, False))
        if isinstance(p_, ast.BoolOp) and n in p_.values:
            i = p_.values.index(n)
            for earlier in p_.values[:i]:
                out.append((earlier, isinstance(p_.op, ast.And)))
        if isinstance(p_, (ast.FunctionDef, ast.Lambda)):
            break
        if isinstance(p_, ast.stmt):
            break
        n = p_
    st = enclosing_stmt(node)
    inner = enclosing_fn = None
    from .model import enclosing_function
    enclosing_fn = enclosing_function(node) or fn
    out += list(guards_of(st, enclosing_fn))
    res = []
    for t, pol in out:
        if pol and isinstance(t, ast.BoolOp) and isinstance(t.op, ast.And):
            res += [(v, True) for v in t.values]
        elif (not pol) and isinstance(t, ast.BoolOp) and isinstance(t.op, ast.Or):
            res += [(v, False) for v in t.values]
        else:
            res.append((t, pol))
    return res


def alias_mutations(fn):
    """[(alias, attr, node)]: a local bound to exactly `self.<attr>` is the same object; item stores, mutating method calls and in-place operators on it change the attribute"""
    import ast as _ast
    MUT = {"append", "extend", "update", "pop", "clear", "setdefault", "add", "remove", "insert", "popitem", "discard", "sort", "reverse"}
    aliases, out = {}, []
    for st in _ast.walk(fn):
        if isinstance(st, _ast.Assign) and len(st.targets) == 1 and isinstance(st.targets[0], _ast.Name) and isinstance(st.value, _ast.Attribute) \
                and isinstance(st.value.value, _ast.Name) and st.value.value.id == "self":
            aliases[st.targets[0].id] = st.value.attr
    if not aliases:
        return out
    for st in _ast.walk(fn):
        tg = st.targets if isinstance(st, (_ast.Assign, _ast.Delete)) else [st.target] if isinstance(st, _ast.AugAssign) else []
        for t in tg:
            if isinstance(t, _ast.Subscript) and isinstance(t.value, _ast.Name) and t.value.id in aliases:
                out.append((t.value.id, aliases[t.value.id], st))
            if isinstance(st, _ast.AugAssign) and isinstance(t, _ast.Name) and t.id in aliases:
                out.append((t.id, aliases[t.id], st))
        if isinstance(st, _ast.Call) and isinstance(st.func, _ast.Attribute) and st.func.attr in MUT and isinstance(st.func.value, _ast.Name) and st.func.value.id in aliases:
            out.append((st.func.value.id, aliases[st.func.value.id], st))
    return out


def clone(e):
    """a private copy of an expression / statement WITHOUT the model's parent links (copy.deepcopy follows them and copies the whole module)"""
    import ast as _ast
    if isinstance(e, _ast.expr):
        return _ast.parse(_ast.unparse(e), mode="eval").body
    return _ast.parse(_ast.unparse(e)).body[0]


def canon(text: str) -> str:
    """canonical spelling of an expression / statement pattern: parsed, comparisons oriented like model._normalise_comparisons does
    for the analysed source, unparsed.  Rules write their patterns in natural orientation and compare canon(pattern) with the source."""
    from .model import _normalise_comparisons
    try:
        tree = ast.parse(text, mode="eval")
    except SyntaxError:
        tree = ast.parse(text)
    _normalise_comparisons(tree)
    return ast.unparse(tree)
