"""Check driver: `python -m cobastatic.runner C07 [--tier quick|thorough] [--replay path]`.

Exit codes: 0 held (KNOWN-FINDING lines allowed) / 1 VIOLATION / 2 ANALYSIS-ERROR.
"""
import argparse
import ast
import importlib
import json
import os
import sys
import time
import traceback
from typing import Any, Callable, Dict, List, Optional

from .model import Model, AnalysisError, norm_stmt, REPO

VERIF = os.path.dirname(os.path.dirname(os.path.abspath(__file__)))
EVIDENCE_DIR = os.path.join(VERIF, "evidence")
KNOWN_FILE = os.path.join(VERIF, "known_findings.json")

PROPERTIES = [f"C{i:02d}" for i in range(1, 21)]


class Obligation:
    __slots__ = ("rule", "construct", "stmt", "desc", "file", "line", "ok", "detail", "trivial")

    def __init__(self, rule, construct, stmt, desc, file, line, ok, detail=None, trivial=False):
        self.rule, self.construct, self.stmt, self.desc = rule, construct, stmt, desc
        self.file, self.line, self.ok, self.detail, self.trivial = file, line, ok, detail, trivial

    @property
    def key(self) -> str:
        return f"{self.rule}|{self.construct}|{self.stmt}"

    def as_dict(self):
        d = {"rule": self.rule, "construct": self.construct, "statement": self.stmt,
             "obligation": self.desc, "at": f"{self.file}:{self.line}",
             "verdict": "discharged" if self.ok else "violated"}
        if self.detail is not None:
            d["detail"] = self.detail
        return d


class Ctx:
    """Per-run collection of obligations and measured coverage."""

    def __init__(self, model: Model, prop: str, tier: str, silent: bool = False):
        self.model = model
        self.prop = prop
        self.tier = tier
        self.silent = silent
        self.obs: List[Obligation] = []
        self.functions = set()
        self.files = set()
        self.call_sites = 0
        self.configurations = 0
        self.unresolved_calls = 0
        self.info: List[str] = []
        self.assumptions: List[str] = []
        self.rules: Dict[str, str] = {}
        self.floors: List[tuple] = []

    @property
    def thorough(self) -> bool:
        return self.tier == "thorough"

    def rule(self, rid: str, text: str):
        self.rules[rid] = text

    def fn(self, rel: str, qual: str) -> ast.FunctionDef:
        f = self.model.func(rel, qual)
        self.functions.add(f"{rel}::{qual}")
        self.files.add(rel)
        return f

    def touch(self, rel: str, qual: str = None):
        self.files.add(rel)
        if qual:
            self.functions.add(f"{rel}::{qual}")

    def ob(self, rule: str, rel: str, qual: str, node: Optional[ast.AST], desc: str, ok: bool,
           detail: Any = None, stmt: str = None, trivial: bool = False, line: int = None) -> Obligation:
        if line is None:
            line = getattr(node, "lineno", 0) if node is not None else 0
        text = stmt if stmt is not None else (norm_stmt(node) if node is not None else "-")
        o = Obligation(rule, f"{rel}::{qual}", text, desc, rel, line, bool(ok), detail, trivial)
        self.obs.append(o)
        self.files.add(rel)
        if qual:
            self.functions.add(f"{rel}::{qual}")
        return o

    def floor(self, rule: str, what: str, have: int, need: int):
        """fewer matcher inputs than were confirmed by hand => the matcher no longer sees the
        code it is supposed to judge => analysis error, never a vacuous pass."""
        self.floors.append((rule, what, have, need))
        if have < need:
            raise AnalysisError(f"{rule}: instance floor not met for '{what}': found {have}, confirmed by hand {need}")

    def note(self, text: str):
        self.info.append(text)

    def assume(self, text: str):
        if text not in self.assumptions:
            self.assumptions.append(text)


def load_known() -> List[dict]:
    if not os.path.exists(KNOWN_FILE):
        return []
    with open(KNOWN_FILE) as fh:
        return json.load(fh)["findings"]


def rules_module(prop: str):
    return importlib.import_module(f"cobastatic.rules.{prop.lower()}")


def analyse(prop: str, tier: str, model: Model, silent: bool = False) -> Ctx:
    mod = rules_module(prop)
    ctx = Ctx(model, prop, tier, silent)
    mod.run(ctx)
    return ctx


def run_controls(prop: str, tier: str, model: Model, base: Ctx) -> List[dict]:
    """Positive controls: AST-located mutations of the real anchor (an overlay model; /repo is
    never modified) that the named rule must flag.  See mutate.py."""
    from . import mutate
    mod = rules_module(prop)
    results = []
    for ctl in getattr(mod, "CONTROLS", []):
        name, rel, transform, rule = ctl[:4]
        try:
            src = mutate.apply(model, rel, transform)
        except mutate.TargetMissing as e:
            already = any((not o.ok) and o.rule == rule for o in base.obs)
            if already:
                results.append({"control": name, "rule": rule, "status": "skipped: mechanism already absent (rule fires on the tree)"})
                continue
            raise AnalysisError(f"positive control '{name}' cannot locate its target ({e}) and rule {rule} is silent")
        m2 = Model(model.repo, overlay={rel: src}, base=model)
        c2 = analyse(prop, tier, m2, silent=True)
        base_bad = {o.key for o in base.obs if not o.ok}
        new_bad = [o for o in c2.obs if not o.ok and o.key not in base_bad]
        hit = [o for o in new_bad if o.rule == rule]
        if not hit:
            raise AnalysisError(f"positive control '{name}' was not flagged by rule {rule} "
                                f"(new violations: {[o.key for o in new_bad][:3]})")
        results.append({"control": name, "rule": rule, "status": "flagged", "by": hit[0].key})
    return results


def main(argv=None) -> int:
    ap = argparse.ArgumentParser()
    ap.add_argument("property")
    ap.add_argument("--tier", default=os.environ.get("VERIF_TIER") or "quick", choices=["quick", "thorough"])
    ap.add_argument("--replay", default=None)
    ap.add_argument("--repo", default=None)
    ap.add_argument("--no-evidence", action="store_true")
    ap.add_argument("--no-controls", action="store_true")
    args = ap.parse_args(argv)
    prop = args.property.upper()
    seed = int(os.environ.get("VERIF_SEED", "0") or 0)
    t0 = time.time()
    try:
        if prop not in PROPERTIES:
            raise AnalysisError(f"unknown property {prop}")
        model = Model(args.repo or REPO)
        ctx = analyse(prop, args.tier, model)
        controls = [] if args.no_controls else run_controls(prop, args.tier, model, ctx)
    except AnalysisError as e:
        print(f"ANALYSIS-ERROR property={prop} {e}")
        return 2
    except Exception:
        print(f"ANALYSIS-ERROR property={prop} internal error")
        traceback.print_exc()
        return 2

    if args.replay:
        with open(args.replay) as fh:
            rp = json.load(fh)
        hit = [o for o in ctx.obs if o.key == rp.get("key")]
        print(f"replay of {rp.get('key')}")
        for o in hit:
            print(json.dumps(o.as_dict(), indent=1))
        if not hit:
            print("obligation no longer present on the current tree")
        return 1 if any(not o.ok for o in hit) else 0

    known = [k for k in load_known() if k["property"] == prop]
    known_keys = {k["key"]: k for k in known if k.get("status") == "known"}
    bad = [o for o in ctx.obs if not o.ok]
    new = [o for o in bad if o.key not in known_keys]
    old = [o for o in bad if o.key in known_keys]

    print(f"[{prop}] tier={args.tier} files={len(ctx.files)} functions={len(ctx.functions)} "
          f"obligations={len(ctx.obs)} discharged={len(ctx.obs) - len(bad)} controls={len(controls)}")
    for rid, text in sorted(ctx.rules.items()):
        n = sum(1 for o in ctx.obs if o.rule == rid)
        print(f"  rule {rid}: {n} obligations -- {text}")
    for line in ctx.info:
        print(f"  info: {line}")
    printed = set()
    for o in old:
        if o.key in printed:
            continue
        printed.add(o.key)
        print(f"KNOWN-FINDING: property={prop} {known_keys[o.key]['what']} [{o.key}] at {o.file}:{o.line}")
    stale = [k for k in known_keys if k not in {o.key for o in bad}]
    for k in stale:
        print(f"  info: known finding no longer reproduced on this tree: {k}")

    replay_dir = os.path.join(EVIDENCE_DIR, "replay")
    if os.path.isdir(replay_dir):
        for f in os.listdir(replay_dir):
            if f.startswith(prop + "-"):
                os.remove(os.path.join(replay_dir, f))
    rc = 0
    seen = set()
    for i, o in enumerate(new):
        if o.key in seen:
            continue
        seen.add(o.key)
        rc = 1
        os.makedirs(replay_dir, exist_ok=True)
        path = os.path.join(replay_dir, f"{prop}-{len(seen)}.json")
        with open(path, "w") as fh:
            json.dump({"property": prop, "key": o.key, **o.as_dict()}, fh, indent=1)
        print(f"  {o.file}:{o.line}: [{o.rule}] {o.desc}  -- in {o.construct}: `{o.stmt}`"
              + (f"  detail: {json.dumps(o.detail)[:400]}" if o.detail is not None else ""))
        print(f"VIOLATION property={prop} replay={path}")

    if not args.no_evidence:
        write_evidence(ctx, prop, args.tier, seed, time.time() - t0, bad, old, new, controls, model)
    return rc


def write_evidence(ctx: Ctx, prop, tier, seed, wall, bad, old, new, controls, model):
    os.makedirs(EVIDENCE_DIR, exist_ok=True)
    keys = {}
    for o in ctx.obs:
        keys.setdefault(o.key, o)
    nontrivial = [o for o in keys.values() if not o.trivial]
    obs_sorted = sorted(keys.values(), key=lambda o: o.key)
    # sample: every violated obligation + a seed-rotated selection of discharged ones
    samples = [o.as_dict() for o in obs_sorted if not o.ok][:20]
    good = [o for o in obs_sorted if o.ok]
    if good:
        k = min(12, len(good))
        start = seed % len(good)
        step = max(1, len(good) // k)
        picked = [good[(start + i * step) % len(good)] for i in range(k)]
        samples += [o.as_dict() for o in picked]
    mod = rules_module(prop)
    ev = {
        "property_id": prop,
        "tier": tier,
        "seed": seed,
        "level": "other",
        "coverage": {
            "explanation": (getattr(mod, "EXPLANATION", "") + " Rules applied: "
                            + "; ".join(f"{r}: {t}" for r, t in sorted(ctx.rules.items()))),
            "obligations": len(ctx.obs),
            "discharged": len(ctx.obs) - len(bad),
            "known_findings": len({o.key for o in old}),
            "new_violations": len({o.key for o in new}),
            "evaluations": len(ctx.obs),
            "distinct_nontrivial": len(nontrivial),
            "rule": "one evaluation = one rule instance (obligation) examined on /repo's current source; "
                    "distinct = distinct stable key (rule | construct | normalised statement); non-trivial = the "
                    "instance required an actual analysis step (path search, dataflow, table comparison), "
                    "not mere existence of an anchor",
            "samples": samples,
            "per_rule": {r: {"obligations": sum(1 for o in ctx.obs if o.rule == r),
                             "violated": sum(1 for o in ctx.obs if o.rule == r and not o.ok)}
                         for r in sorted(ctx.rules)},
            "functions_analysed": sorted(ctx.functions),
            "call_sites": ctx.call_sites,
            "configurations": ctx.configurations,
            "unresolved_calls": ctx.unresolved_calls,
            "instance_floors": [{"rule": r, "what": w, "found": h, "confirmed_by_hand": n} for r, w, h, n in ctx.floors],
            "positive_controls": controls,
            "file_digests": model.digests(ctx.files),
            "info": ctx.info,
            "exhaustive": True,
        },
        "assumptions": ctx.assumptions + [
            "Python source is analysed with class-hierarchy call resolution; monkey-patching, getattr and "
            "metaclass tricks are outside the model",
            "only the clause(s) named in coverage.explanation are decided, not the behavioural property as a whole",
        ],
        "wall_s": round(wall, 3),
        "violations": len({o.key for o in new}),
    }
    with open(os.path.join(EVIDENCE_DIR, f"{prop}.json"), "w") as fh:
        json.dump(ev, fh, indent=1, sort_keys=False)


if __name__ == "__main__":
    sys.exit(main())
