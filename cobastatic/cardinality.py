"""Abstract interpretation in the *cardinality domain*.

Data values are abstracted away (`Elems(n)` = a list of n opaque elements); list lengths, integer index
arithmetic and lists of integers are tracked exactly.  Loops whose trip count is an (abstract-)integer are
unrolled.  The interpreter understands the statement/expression forms listed below and raises `Unmodelled`
for anything else, so a verdict is only ever produced for code it can follow completely.

Nothing of the analysed program is imported or executed: the interpreter walks the AST.
"""
import ast
import itertools


class Unmodelled(Exception):
    pass


class Opaque:
    """one data value whose content is not tracked; `is_str` is the only attribute the analysed code may test"""
    def __init__(self, is_str=False):
        self.is_str = is_str

    def __repr__(self):
        return "<?>"


class Elems:
    """a list of n opaque elements"""
    def __init__(self, n, is_str=False):
        self.n = max(0, int(n))
        self.is_str = is_str

    def __repr__(self):
        return f"Elems({self.n})"


class Iter:
    """a one-shot iterator over n opaque elements; islice()/next()/list() consume it"""
    def __init__(self, n, is_str=False):
        self.n = max(0, int(n))
        self.is_str = is_str

    def take(self, k=None):
        got = self.n if k is None else max(0, min(self.n, k))
        self.n -= got
        return got

    def __repr__(self):
        return f"Iter({self.n})"


class _Lazy:
    """islice(it, k) not yet consumed"""
    def __init__(self, it, k):
        self.it, self.k = it, k


class _Return(Exception):
    def __init__(self, v):
        self.v = v


def length(v):
    if isinstance(v, Elems):
        return v.n
    if isinstance(v, (_Lazy, Iter)):
        return len(iterate(v))
    if isinstance(v, (list, tuple)):
        return len(v)
    raise Unmodelled(f"len of {type(v).__name__}")


def iterate(v):
    if isinstance(v, Elems):
        return [Opaque(v.is_str) for _ in range(v.n)]
    if isinstance(v, (list, tuple, range)):
        return list(v)
    if isinstance(v, _Zip):
        return [tuple(t) for t in zip(*[iterate(a) for a in v.args])]
    if isinstance(v, Iter):
        return [Opaque(v.is_str) for _ in range(v.take())]
    if isinstance(v, _Lazy):
        return [Opaque(v.it.is_str) for _ in range(v.it.take(v.k))]
    raise Unmodelled(f"iteration over {type(v).__name__}")


class _Zip:
    def __init__(self, args):
        self.args = args


class CardEval:
    def __init__(self, env, max_steps=200000):
        self.env = dict(env)
        self.yields = []
        self.steps = 0
        self.max_steps = max_steps

    # ------------------------------------------------------------------ expressions
    def ev(self, e, env=None):
        env = self.env if env is None else env
        self.steps += 1
        if self.steps > self.max_steps:
            raise Unmodelled("step budget exhausted")
        if isinstance(e, ast.Constant):
            if isinstance(e.value, (int, bool)) or e.value is None:
                return e.value
            if isinstance(e.value, str):
                return Opaque(True)
            if isinstance(e.value, float):
                return Opaque(False)
            raise Unmodelled("constant")
        if isinstance(e, ast.Name):
            if e.id in env:
                return env[e.id]
            raise Unmodelled(f"unbound name {e.id}")
        if isinstance(e, ast.Attribute):
            key = ast.unparse(e)
            if key in env:
                return env[key]
            raise Unmodelled(f"unbound attribute {key}")
        if isinstance(e, ast.BoolOp):
            is_or = isinstance(e.op, ast.Or)
            v = None
            for x in e.values:
                r = self.ev_isinstance(x, env)
                v = r if r is not None else self.ev(x, env)
                if self.truth(v) == is_or:
                    return v
            return v
        if isinstance(e, (ast.List, ast.Tuple)):
            out = [self.ev(x, env) for x in e.elts]
            return out
        if isinstance(e, ast.BinOp):
            a, b = self.ev(e.left, env), self.ev(e.right, env)
            if isinstance(a, bool) or isinstance(b, bool):
                raise Unmodelled("bool arithmetic")
            if isinstance(a, int) and isinstance(b, int):
                if isinstance(e.op, ast.Add):
                    return a + b
                if isinstance(e.op, ast.Sub):
                    return a - b
                if isinstance(e.op, ast.Mult):
                    return a * b
                if isinstance(e.op, ast.FloorDiv) and b != 0:
                    return a // b
                if isinstance(e.op, ast.Mod) and b != 0:
                    return a % b
                raise Unmodelled("int op")
            if isinstance(e.op, ast.Mult) and isinstance(a, list) and isinstance(b, int):
                return a * b
            if isinstance(e.op, ast.Mult) and isinstance(b, list) and isinstance(a, int):
                return b * a
            if isinstance(e.op, ast.Add) and isinstance(a, list) and isinstance(b, list):
                return a + b
            if isinstance(e.op, ast.Add) and isinstance(a, Elems) and isinstance(b, Elems):
                return Elems(a.n + b.n, a.is_str)
            if isinstance(a, Opaque) or isinstance(b, Opaque):
                if isinstance(a, (Opaque, int)) and isinstance(b, (Opaque, int)):
                    return Opaque(getattr(a, "is_str", False) or getattr(b, "is_str", False))  # product / concatenation of data values
            raise Unmodelled("binop operands")
        if isinstance(e, ast.UnaryOp):
            v = self.ev(e.operand, env)
            if isinstance(e.op, ast.Not):
                return not self.truth(v)
            if isinstance(e.op, ast.USub) and isinstance(v, int):
                return -v
            raise Unmodelled("unary")
        if isinstance(e, ast.IfExp):
            return self.ev(e.body if self.test(e.test, env) else e.orelse, env)
        if isinstance(e, ast.Compare) and len(e.ops) == 1:
            a, b = self.ev(e.left, env), self.ev(e.comparators[0], env)
            if isinstance(a, int) and isinstance(b, int):
                op = e.ops[0]
                return {ast.Eq: a == b, ast.NotEq: a != b, ast.Lt: a < b, ast.LtE: a <= b, ast.Gt: a > b, ast.GtE: a >= b}.get(type(op), None) \
                    if type(op) in (ast.Eq, ast.NotEq, ast.Lt, ast.LtE, ast.Gt, ast.GtE) else self._unm("compare op")
            if isinstance(e.ops[0], (ast.Eq, ast.NotEq)) and isinstance(b, list) and not b and isinstance(a, (list, Elems)):
                return (length(a) == 0) == isinstance(e.ops[0], ast.Eq)
            if isinstance(e.ops[0], (ast.Is, ast.IsNot)) and b is None:
                return (a is None) == isinstance(e.ops[0], ast.Is)
            raise Unmodelled("compare operands")
        if isinstance(e, ast.Subscript):
            base = self.ev(e.value, env)
            if isinstance(e.slice, ast.Slice):
                lo = self.ev(e.slice.lower, env) if e.slice.lower is not None else None
                hi = self.ev(e.slice.upper, env) if e.slice.upper is not None else None
                st = self.ev(e.slice.step, env) if e.slice.step is not None else None
                if not all(x is None or (isinstance(x, int) and not isinstance(x, bool)) for x in (lo, hi, st)):
                    raise Unmodelled("slice bound")
                if isinstance(base, Elems):
                    return Elems(len(range(base.n)[slice(lo, hi, st)]), base.is_str)
                if isinstance(base, list):
                    return base[slice(lo, hi, st)]
                raise Unmodelled("slice base")
            i = self.ev(e.slice, env)
            if isinstance(i, int) and not isinstance(i, bool):
                if isinstance(base, Elems):
                    if -base.n <= i < base.n:
                        return Opaque(base.is_str)
                    raise Unmodelled("index out of range")
                if isinstance(base, (list, tuple)):
                    if -len(base) <= i < len(base):
                        return base[i]
                    raise Unmodelled("index out of range")
            raise Unmodelled("subscript")
        if isinstance(e, ast.ListComp):
            return self.comp(e, env)
        if isinstance(e, ast.Call):
            f = e.func
            name = f.id if isinstance(f, ast.Name) else None
            if e.keywords:
                raise Unmodelled("keyword call")
            args = [self.ev(a, env) for a in e.args]
            if name == "len" and len(args) == 1:
                return length(args[0])
            if name == "range" and 1 <= len(args) <= 3 and all(isinstance(a, int) for a in args):
                return list(range(*args))
            if name == "zip":
                return _Zip(args)
            if name == "list" and len(args) == 1:
                v = args[0]
                if isinstance(v, (Iter, _Lazy)):
                    items = iterate(v)
                    return Elems(len(items), bool(items) and items[0].is_str)
                return v if isinstance(v, Elems) else iterate(v)
            if name == "iter" and len(args) == 1:
                v = args[0]
                if isinstance(v, Iter):
                    return v
                return Iter(length(v), getattr(v, "is_str", False))
            if name == "islice" and len(args) >= 2 and isinstance(args[0], Elems):
                args[0] = Iter(args[0].n, args[0].is_str)   # islice over a re-iterable: a fresh pass
            if name == "islice" and len(args) == 2 and isinstance(args[0], Iter) and (args[1] is None or (isinstance(args[1], int) and not isinstance(args[1], bool))):
                if args[1] is not None and args[1] < 0:
                    raise Unmodelled("negative islice stop")
                return _Lazy(args[0], args[1])
            if name == "islice" and len(args) in (3, 4) and isinstance(args[0], Iter) and all(a is None or (isinstance(a, int) and not isinstance(a, bool)) for a in args[1:]):
                start, stop = args[1], args[2]
                step = args[3] if len(args) == 4 else None
                if any(a is not None and a < 0 for a in (start, stop)) or (step is not None and step <= 0):
                    raise Unmodelled("islice bounds")
                got = len(range(args[0].n)[slice(start, stop, step)])
                args[0].n = 0 if stop is None else max(0, args[0].n - stop)   # what islice leaves unconsumed
                return Elems(got, args[0].is_str)
            if name == "accumulate" and len(args) == 1 and isinstance(args[0], list) and all(isinstance(x, int) for x in args[0]):
                return list(itertools.accumulate(args[0]))
            if name == "isinstance" and len(args) == 0:
                raise Unmodelled("isinstance")
            if name in ("max", "min") and all(isinstance(a, int) for a in args) and len(args) >= 2:
                return max(args) if name == "max" else min(args)
            if name == "sum" and len(args) == 1 and isinstance(args[0], list) and all(isinstance(x, int) for x in args[0]):
                return sum(args[0])
            raise Unmodelled(f"call {ast.unparse(f)}")
        raise Unmodelled(type(e).__name__)

    def _unm(self, what):
        raise Unmodelled(what)

    def ev_isinstance(self, e, env):
        """isinstance(<data value>, str) is the only type test understood"""
        if isinstance(e, ast.Call) and isinstance(e.func, ast.Name) and e.func.id == "isinstance" and len(e.args) == 2 and ast.unparse(e.args[1]) == "str":
            v = self.ev(e.args[0], env)
            if isinstance(v, Opaque):
                return v.is_str
            if isinstance(v, int):
                return False
        return None

    def truth(self, v):
        if isinstance(v, bool):
            return v
        if isinstance(v, int):
            return v != 0
        if v is None:
            return False
        if isinstance(v, (list, Elems)):
            return length(v) > 0
        raise Unmodelled("truth of opaque value")

    def test(self, e, env):
        r = self.ev_isinstance(e, env)
        if r is not None:
            return r
        if isinstance(e, ast.UnaryOp) and isinstance(e.op, ast.Not):
            return not self.test(e.operand, env)
        return self.truth(self.ev(e, env))

    def comp(self, e, env):
        """a list comprehension: only its length (and int content, if the element is an int) is computed"""
        out = []

        def rec(i, env):
            if i == len(e.generators):
                out.append(self.ev(e.elt, env))
                return
            g = e.generators[i]
            for item in iterate(self.ev(g.iter, env)):
                env2 = dict(env)
                self.bind(g.target, item, env2)
                if all(self.test(c, env2) for c in g.ifs):
                    rec(i + 1, env2)
        rec(0, env)
        if not out:
            return []
        if all(isinstance(x, int) and not isinstance(x, bool) for x in out):
            return out
        if all(isinstance(x, Opaque) for x in out):
            return Elems(len(out), any(x.is_str for x in out))
        return out

    def bind(self, t, v, env):
        if isinstance(t, ast.Name):
            env[t.id] = v
        elif isinstance(t, (ast.Tuple, ast.List)) and isinstance(v, (tuple, list)) and len(v) == len(t.elts):
            for a, b in zip(t.elts, v):
                self.bind(a, b, env)
        else:
            raise Unmodelled("binding target")

    # ------------------------------------------------------------------ statements
    def run(self, body):
        try:
            self.block(body)
        except _Return as r:
            return r.v
        return None

    def block(self, body):
        for st in body:
            self.stmt(st)

    def stmt(self, st):
        env = self.env
        if isinstance(st, ast.Expr):
            v = st.value
            if isinstance(v, ast.Constant):
                return
            if isinstance(v, ast.Yield):
                self.yields.append(self.ev(v.value, env) if v.value is not None else None)
                return
            if isinstance(v, ast.YieldFrom):
                self.yields.extend(iterate(self.ev(v.value, env)))
                return
            if isinstance(v, ast.Call) and isinstance(v.func, ast.Attribute) and v.func.attr == "append" and isinstance(v.func.value, ast.Name) and len(v.args) == 1:
                tgt = env.get(v.func.value.id)
                if isinstance(tgt, list):
                    tgt.append(self.ev(v.args[0], env))
                    return
            raise Unmodelled("expression statement")
        if isinstance(st, ast.Assign) and len(st.targets) == 1:
            self.bind(st.targets[0], self.ev(st.value, env), env)
            return
        if isinstance(st, ast.If):
            self.block(st.body if self.test(st.test, env) else st.orelse)
            return
        if isinstance(st, ast.For) and not st.orelse:
            for item in iterate(self.ev(st.iter, env)):
                self.bind(st.target, item, env)
                self.block(st.body)
            return
        if isinstance(st, ast.While) and not st.orelse:
            k = 0
            while self.test(st.test, env):
                k += 1
                if k > 10000:
                    raise Unmodelled("loop bound")
                self.block(st.body)
            return
        if isinstance(st, ast.Return):
            raise _Return(self.ev(st.value, env) if st.value is not None else None)
        if isinstance(st, ast.Pass):
            return
        raise Unmodelled(type(st).__name__)
