"""Dataflow instances over cobastatic.cfg.CFG: reaching definitions and definite assignment."""
import ast
from typing import Dict, FrozenSet, Iterable, Optional, Set

from .cfg import CFG, Node, forward
from .model import walk_shallow

PARAM = -1  # pseudo definition site: function parameter / value on entry


def stored_names(n: Node) -> Set[str]:
    """local names (re)bound when node `n` completes normally (memoised on the AST node)."""
    a = n.ast
    if a is not None:
        memo = getattr(a, "_stored_memo", None)
        if memo is not None and n.kind in memo:
            return memo[n.kind]
    out = _stored_names(n)
    if a is not None:
        try:
            if getattr(a, "_stored_memo", None) is None:
                a._stored_memo = {}
            a._stored_memo[n.kind] = out
        except Exception:  # pragma: no cover
            pass
    return out


def _stored_names(n: Node) -> Set[str]:
    a = n.ast
    out: Set[str] = set()
    if a is None:
        return out
    if n.kind == "iter":
        for x in ast.walk(a.target):  # type: ignore[attr-defined]
            if isinstance(x, ast.Name):
                out.add(x.id)
        return out
    if n.kind == "with_enter":
        for it in a.items:  # type: ignore[attr-defined]
            if it.optional_vars is not None:
                for x in ast.walk(it.optional_vars):
                    if isinstance(x, ast.Name):
                        out.add(x.id)
        return out
    if n.kind == "handler":
        if a.name:  # type: ignore[attr-defined]
            out.add(a.name)  # type: ignore[attr-defined]
        return out
    if n.kind in ("with_exit", "join", "test"):
        # walrus in tests
        if n.kind == "test":
            for x in walk_shallow(a):
                if isinstance(x, ast.NamedExpr) and isinstance(x.target, ast.Name):
                    out.add(x.target.id)
        return out
    if isinstance(a, (ast.FunctionDef, ast.ClassDef, ast.AsyncFunctionDef)):
        return {a.name}
    if isinstance(a, (ast.Import, ast.ImportFrom)):
        for al in a.names:
            out.add((al.asname or al.name).split(".")[0])
        return out
    comp_targets = set()
    for x in walk_shallow(a):
        if isinstance(x, ast.comprehension):
            for t in ast.walk(x.target):
                if isinstance(t, ast.Name):
                    comp_targets.add(id(t))
    for x in walk_shallow(a):
        if isinstance(x, ast.Name) and isinstance(x.ctx, ast.Store) and id(x) not in comp_targets:
            out.add(x.id)
        if isinstance(x, ast.NamedExpr) and isinstance(x.target, ast.Name):
            out.add(x.target.id)
    return out


def deleted_names(n: Node) -> Set[str]:
    a = n.ast
    if n.kind == "stmt" and isinstance(a, ast.Delete):
        return {t.id for t in a.targets if isinstance(t, ast.Name)}
    return set()


def reaching_defs(cfg: CFG, params: Iterable[str] = ()) -> Dict[int, Dict[str, FrozenSet[int]]]:
    """IN[node][name] = set of node ids whose definition of `name` may reach node (PARAM = entry value)."""
    init = {p: frozenset([PARAM]) for p in params}

    def transfer(n: Node, st, label):
        if label in ("exc", "abandon"):
            return st  # the node did not complete: its bindings did not happen
        names = stored_names(n)
        if n.kind == "iter" and label == "exhausted":
            names = set()
        if not names:
            return st
        out = dict(st)
        for nm in names:
            out[nm] = frozenset([n.id])
        return out

    def join(a, b):
        if a is b:
            return a
        out = dict(a)
        for k, v in b.items():
            out[k] = out.get(k, frozenset()) | v
        # names defined on only one side keep their partial set (may-analysis)
        return out

    return forward(cfg, init, transfer, join)


def definitely_assigned(cfg: CFG, params: Iterable[str] = ()) -> Dict[int, FrozenSet[str]]:
    """IN[node] = names assigned on *every* path from entry to node (must-analysis)."""
    init = frozenset(params)

    def transfer(n: Node, st, label):
        if label in ("exc", "abandon"):
            return st
        names = stored_names(n)
        if n.kind == "iter" and label == "exhausted":
            names = set()
        dels = deleted_names(n)
        if not names and not dels:
            return st
        return frozenset((st | names) - dels)

    return forward(cfg, init, transfer, lambda a, b: a & b)


def loaded_names(n: Node) -> Set[str]:
    """local names read when the node is evaluated (heads only for compound nodes)."""
    a = n.ast
    if a is None or n.kind in ("with_exit", "join", "handler"):
        return set()
    if n.kind == "iter":
        a = a.iter  # type: ignore[attr-defined]
    elif n.kind == "with_enter":
        out = set()
        for it in n.ast.items:  # type: ignore[attr-defined]
            out |= loaded_names_expr(it.context_expr)
        return out
    if isinstance(a, (ast.FunctionDef, ast.ClassDef, ast.AsyncFunctionDef)):
        return set()
    return loaded_names_expr(a)


def loaded_names_expr(a: ast.AST) -> Set[str]:
    out = set()
    bound_inner: Set[str] = set()
    for x in ast.walk(a):
        if isinstance(x, ast.comprehension):
            for t in ast.walk(x.target):
                if isinstance(t, ast.Name):
                    bound_inner.add(t.id)
        if isinstance(x, ast.Lambda):
            for arg in x.args.args + x.args.kwonlyargs:
                bound_inner.add(arg.arg)
    for x in ast.walk(a):
        if isinstance(x, ast.Name) and isinstance(x.ctx, ast.Load) and x.id not in bound_inner:
            out.add(x.id)
    return out
