"""C05 -- random streams are a pure function of the seed and honour their range contracts
(DESIGN.md 5/C05).  Range contracts are decided under REAL arithmetic (floating-point rounding
of min+(max-min)*u near max is a runtime quantity and is not decided).
"""
import ast

from ..absint import Sym, Itv
from ..model import walk_shallow, call_name, is_self_attr, dotted_name, parent, ancestors, enclosing_function, AnalysisError, qualname
from ..util import (has_call, find_calls, assigned_value, const_str, unparse, kw, arg_or_kw, enclosing_stmt,
                    guards_of, call_tail, control_ancestors, name_bound, bound_names, canon)
from .. import mutate as M

TECHNIQUE = "static analysis: interval abstract interpretation (open/closed bounds) of the generator's index and scaling arithmetic, structural permutation/swap rules, seed-truthiness scan over the package"

EXPLANATION = ("Effect analysis of coba/random.py (CobaRandom touches only its own three fields, no module state, pure "
               "imports; _randu/_randg/_random are accessed nowhere else; stdlib random is imported nowhere), guard analysis "
               "of the time source, and interval abstract interpretation (symbolic end points with open/closed bits) of "
               "every consumer of the uniform stream: random/randoms in [min,max), randint/randints in [a,b], choice index "
               "in [0,len-1], shuffle index in [i,n-1] with swap-only stores, strict cumulative comparison in weighted "
               "choice, choicew returning seq[i],weights[i] for one i, log argument excluding 0 in gauss.")
EXPLANATION += ' R5: no seed is tested for truthiness (seed 0 is honoured).'
EXPLANATION += " R3's weighted-choice rule accepts a strict linear scan or a right bisection; the interval evaluator models `u or c` (u in [0,1), c > 0) as excluding 0."

RND = "coba/random.py"
PURE_IMPORT_MODULES = {"math", "itertools", "operator", "typing", "time", "bisect", "functools", "collections", "numbers", "abc", "heapq", "struct"}


def run(ctx):
    seed_truthiness(ctx, "C05.R5")
    r1_effects(ctx)
    r2_time_guard(ctx)
    r3_intervals(ctx)
    r3_reservoir_index(ctx)
    r4_consumers(ctx)
    r6_generator_ownership(ctx)
    r7_pickled_seed(ctx)


def r7_pickled_seed(ctx, rule="C05.R7"):
    """'the same stream regardless of the process it runs in': a generator that travels to another process is rebuilt by CobaRandom(<args of __reduce__>)."""
    ctx.rule(rule, "a pickled / deep-copied CobaRandom is rebuilt from the seed it was given: __reduce__ hands the constructor `self._seed` itself (no arithmetic on it), and "
                   "__init__ binds self._seed exactly once to the (normalised) seed the stream is started from")
    red = ctx.fn(RND, "CobaRandom.__reduce__")
    init = ctx.fn(RND, "CobaRandom.__init__")
    rets = [r.value for r in walk_shallow(red) if isinstance(r, ast.Return) and isinstance(r.value, ast.Tuple) and len(r.value.elts) >= 2]
    ctx.floor(rule, "returns of CobaRandom.__reduce__", len(rets), 1)
    binds = [st for st in walk_shallow(init) if isinstance(st, ast.Assign) and any(is_self_attr(t, "_seed") for t in st.targets)]
    SEEDP = init.args.args[1].arg
    starts = [c for c in ast.walk(init) if isinstance(c, ast.Call) and call_tail(c) == "_next_uniform"]
    same = len(binds) == 1 and isinstance(binds[0].value, ast.Name) and binds[0].value.id == SEEDP and bool(starts) and all(any(isinstance(a, ast.Name) and a.id == SEEDP for a in c.args) for c in starts)
    ctx.ob(rule, RND, "CobaRandom.__init__", binds[0] if binds else init, "self._seed is the seed the uniform stream is started from", same, stmt="seed kept")
    for v in rets:
        args = v.elts[1]
        ok = isinstance(args, ast.Tuple) and len(args.elts) >= 1 and is_self_attr(args.elts[0], "_seed")
        ctx.ob(rule, RND, "CobaRandom.__reduce__", v, "the constructor argument on unpickling is self._seed, untouched", ok, detail={"args": unparse(args)})


# ------------------------------------------------------------------------------------------ R1
def r1_effects(ctx):
    ctx.rule("C05.R1", "CobaRandom methods read/write only self._seed/_randu/_randg, parameters and locals; no global "
                       "statement, no module-level mutable state, imports from a pure allow-list; the generator fields and "
                       "the module instance are accessed only inside random.py; stdlib random is imported nowhere")
    mod = ctx.model.module(RND)
    cls = ctx.model.cls(RND, "CobaRandom")
    own = {"_seed", "_randu", "_randg"}
    module_names = {t.id for st in mod.tree.body if isinstance(st, ast.Assign) for t in st.targets if isinstance(t, ast.Name)}
    imported = {}
    for st in mod.tree.body:
        if isinstance(st, ast.Import):
            for a in st.names:
                imported[a.asname or a.name] = a.name
        if isinstance(st, ast.ImportFrom):
            for a in st.names:
                imported[a.asname or a.name] = st.module
    for nm, src in sorted(imported.items()):
        ctx.ob("C05.R1", RND, "", None, f"import {nm} comes from a side-effect-free stdlib module", (src or "").split(".")[0] in PURE_IMPORT_MODULES,
               stmt=f"import {nm} from {src}")
    n = 0
    for mname, fn in cls.methods.items():
        qual = "CobaRandom." + mname
        ctx.touch(RND, qual)
        params = {a.arg for a in fn.args.args + fn.args.kwonlyargs}
        for x in walk_shallow(fn):
            if isinstance(x, (ast.Global, ast.Nonlocal)):
                n += 1
                ctx.ob("C05.R1", RND, qual, x, "no global/nonlocal state in a generator method", False)
            if isinstance(x, ast.Attribute) and is_self_attr(x):
                n += 1
                ok = x.attr in own or x.attr in cls.methods
                ctx.ob("C05.R1", RND, qual, x, "only the generator's own fields are touched", ok, stmt=f"self.{x.attr}", trivial=True)
            if isinstance(x, ast.Name) and isinstance(x.ctx, ast.Load) and x.id in module_names:
                n += 1
                ctx.ob("C05.R1", RND, qual, x, "module-level state is not read by generator methods", False, stmt=f"reads module variable {x.id}")
            if isinstance(x, ast.Call) and call_name(x) in ("hash", "id", "os.getpid", "getpid", "os.urandom", "urandom", "uuid.uuid4", "uuid4", "object") \
                    and not mname.startswith("__h"):
                n += 1
                ctx.ob("C05.R1", RND, qual, x, f"no process-dependent source ({call_name(x)}) feeds the generator (str hashes are salted per process)", False)
            if isinstance(x, ast.Attribute) and isinstance(x.value, ast.Name) and x.value.id == "CobaRandom" and isinstance(x.ctx, ast.Store):
                n += 1
                ctx.ob("C05.R1", RND, qual, x, "no class-level state is written", False)
    for k, v in cls.class_attrs.items():
        ctx.ob("C05.R1", RND, "CobaRandom", v, "CobaRandom has no class-level mutable attribute", isinstance(v, ast.Constant), stmt=f"class attr {k}")
    ctx.floor("C05.R1", "self-field accesses in CobaRandom", n, 10)
    # package-wide who-may-access
    hits = 0
    for rel, m in sorted(ctx.model.modules.items()):
        for x in ast.walk(m.tree):
            if isinstance(x, ast.Attribute) and x.attr in ("_randu", "_randg") and rel != RND:
                hits += 1
                ctx.ob("C05.R1", rel, "", x, "generator internals are accessed only inside coba/random.py", False, stmt=f"{unparse(x)}")
            if isinstance(x, ast.Attribute) and x.attr == "_random" and rel != RND and (dotted_name(x) or "").endswith("random._random"):
                hits += 1
                ctx.ob("C05.R1", rel, "", x, "the module-level generator instance is private to coba/random.py", False, stmt=unparse(x))
            if isinstance(x, ast.Import) and any(a.name == "random" for a in x.names):
                hits += 1
                ctx.ob("C05.R1", rel, "", x, "Python's random module is not imported", False, stmt="import random")
            if isinstance(x, ast.ImportFrom) and x.module == "random" and x.level == 0:
                hits += 1
                ctx.ob("C05.R1", rel, "", x, "Python's random module is not imported", False, stmt="from random import ...")
            if isinstance(x, ast.ImportFrom) and x.module in ("coba.random",) and any(a.name == "_random" for a in x.names):
                hits += 1
                ctx.ob("C05.R1", rel, "", x, "the module-level generator instance is private to coba/random.py", False, stmt="imports _random")
    ctx.ob("C05.R1", RND, "", None, "package-wide who-may-access scan of _randu/_randg/_random/stdlib random", hits == 0,
           stmt=f"scan {len(ctx.model.modules)} modules")
    # module functions delegate to the module instance only
    for (rel, qual), fn in sorted(ctx.model.functions.items()):
        if rel == RND and "." not in qual and qual.startswith("_"):
            touches = [y for y in ast.walk(fn) if isinstance(y, ast.Name) and y.id in ("_random",)] + [y for y in ast.walk(fn) if isinstance(y, ast.Attribute) and y.attr in ("_randu", "_randg")] + \
                      [y for y in ast.walk(fn) if isinstance(y, (ast.Global, ast.Nonlocal))]
            ctx.ob("C05.R1", RND, qual, fn, "private module helper is a pure function (reads no generator, declares no global)", not touches, stmt=f"def {qual}")
            continue
        if rel == RND and "." not in qual and qual != "seed":
            rets = [x for x in walk_shallow(fn) if isinstance(x, ast.Return)]
            ok = len(rets) == 1 and isinstance(rets[0].value, ast.Call) and unparse(rets[0].value.func) == f"_random.{qual}"
            ctx.ob("C05.R1", RND, qual, fn, "module function delegates to the separate module-level instance", ok, stmt=f"def {qual}")


# ------------------------------------------------------------------------------------------ R2
def r2_time_guard(ctx, rule="C05.R2"):
    ctx.rule(rule, "in CobaRandom.__init__ the clock is consulted only when the seed `is None` (not for other falsy seeds "
                       "such as '' or 0.0)")
    fn = ctx.fn(RND, "CobaRandom.__init__")
    calls = [c for c in walk_shallow(fn) if isinstance(c, ast.Call) and (call_name(c) or "").startswith("time.")]
    ctx.floor(rule, "clock reads in CobaRandom.__init__", len(calls), 1)
    for c in calls:
        ok = False
        for a in ancestors(c):
            if isinstance(a, ast.IfExp):
                t = unparse(a.test)
                if t in ("seed is None",) and c in list(ast.walk(a.body)):
                    ok = True
                if t in ("seed is not None",) and c in list(ast.walk(a.orelse)):
                    ok = True
            if a is fn:
                break
        for t, pol in guards_of(enclosing_stmt(c), fn):
            if (unparse(t) == "seed is None" and pol) or (unparse(t) == "seed is not None" and not pol):
                ok = True
        ctx.ob(rule, RND, "CobaRandom.__init__", c, "time source is reachable only for seed is None", ok,
               detail={"context": unparse(enclosing_stmt(c))[:140]})


# ------------------------------------------------------------------------------------------ R3
U = lambda: Itv(0, 1, False, True)  # the uniform source: [0,1)


class Unproved(Exception):
    """the abstract evaluator cannot establish a range: the obligation stays undischarged (reported)."""


class Abs:
    """abstract evaluation of arithmetic over one uniform draw with symbolic parameters."""

    def __init__(self, env, positive, nonneg):
        self.env = dict(env)       # name -> Itv
        self.positive = positive   # list of Sym known > 0
        self.nonneg = nonneg       # list of Sym known >= 0

    def pos(self, s: Sym) -> bool:
        if s.is_const():
            return s.c > 0
        for p in self.positive:
            d = s - p
            if d.is_const() and d.c >= 0:
                return True
        for p in self.nonneg:
            d = s - p
            if d.is_const() and d.c > 0:
                return True
        return False

    def ge0(self, s: Sym) -> bool:
        if s.is_const():
            return s.c >= 0
        for p in self.positive + self.nonneg:
            d = s - p
            if d.is_const() and d.c >= 0:
                return True
        return False

    def ev(self, e) -> Itv:
        if isinstance(e, ast.Constant) and isinstance(e.value, (int, float)):
            return Itv(e.value, e.value, integer=isinstance(e.value, int))
        if isinstance(e, ast.Name):
            if e.id in self.env:
                return self.env[e.id]
            fn = getattr(self, "fn", None)
            if fn is not None:
                ds = assigned_value(fn, e.id)
                if len(ds) == 1:
                    return self.ev(ds[0])
            raise Unproved(f"unknown name {e.id}")
        if isinstance(e, ast.IfExp) and isinstance(e.test, ast.BoolOp) and isinstance(e.test.op, ast.Or) and len(e.test.values) == 2:
            # `v if v < B or <contract-excluded case> else w`: when the second disjunct contradicts the assumed contract (e.g. `max <= min` under max > min)
            # the conditional is `v if v < B else w`
            first, second = e.test.values
            if isinstance(second, ast.Compare) and len(second.ops) == 1 and isinstance(second.ops[0], (ast.LtE, ast.GtE)):
                lo_e, hi_e = (second.left, second.comparators[0]) if isinstance(second.ops[0], ast.LtE) else (second.comparators[0], second.left)   # lo_e <= hi_e
                a_, b_ = self.ev(lo_e), self.ev(hi_e)
                if a_.lo == a_.hi and b_.lo == b_.hi and self.pos(a_.lo - b_.lo):   # contract says lo_e > hi_e: the disjunct is false
                    return self.ev(ast.IfExp(test=first, body=e.body, orelse=e.orelse))
            raise Unproved(f"conditional not modelled: {unparse(e)}")
        if isinstance(e, ast.IfExp) and isinstance(e.test, ast.Compare) and len(e.test.ops) == 1 and (
                (isinstance(e.test.ops[0], ast.Lt) and unparse(e.test.left) == unparse(e.body)) or
                (isinstance(e.test.ops[0], ast.Gt) and unparse(e.test.comparators[0]) == unparse(e.body))):
            # `v if v < B else w` (or `B > v`): the first arm is v cut off (open) at B; the result is the hull of both arms when they share their end points
            bound_e = e.test.comparators[0] if isinstance(e.test.ops[0], ast.Lt) else e.test.left
            v, bnd, w = self.ev(e.body), self.ev(bound_e), self.ev(e.orelse)
            if bnd.lo == bnd.hi:
                dh = v.hi - bnd.hi
                cut = Itv(v.lo, bnd.hi, v.lo_open, True, v.integer) if (dh.is_const() and dh.c >= 0) else v
                if cut.lo == w.lo and cut.hi == w.hi:
                    return Itv(cut.lo, cut.hi, cut.lo_open and w.lo_open, cut.hi_open and w.hi_open, False)
            raise Unproved(f"conditional not modelled: {unparse(e)}")
        if isinstance(e, ast.Call):
            nm = call_name(e)
            if nm == "next" and e.args and unparse(e.args[0]) == "self._randu":
                return U()
            if nm in ("floor", "math.floor", "int") and len(e.args) == 1:
                v = self.ev(e.args[0])
                if not self.ge0(v.lo):
                    raise Unproved("floor/int of a possibly negative value")
                return v.floor_int()
            if nm in ("float",) and len(e.args) == 1:
                return self.ev(e.args[0])
            if nm == "_next_below" and len(e.args) == 1:
                # the largest float below b: with the contract a < b (a the lower bound in the environment) it lies in [a, b)
                b_ = self.ev(e.args[0])
                lows = [v for k, v in self.env.items() if k == "min"]
                if b_.lo == b_.hi and lows and lows[0].lo == lows[0].hi and self.pos(b_.lo - lows[0].lo):
                    return Itv(lows[0].lo, b_.hi, False, True, False)
                raise Unproved("_next_below of a bound not known to exceed the lower bound")
            if nm in ("math.nextafter", "nextafter") and len(e.args) == 2:
                # nextafter(b, a) with a < b: the largest float below b -- inside [a, b)
                b_, a_ = self.ev(e.args[0]), self.ev(e.args[1])
                if a_.lo == a_.hi and b_.lo == b_.hi and self.pos(b_.lo - a_.lo):
                    return Itv(a_.lo, b_.hi, False, True, False)
                raise Unproved("nextafter towards a bound not known to be smaller")
            if nm == "len" and len(e.args) == 1:
                key = f"len({unparse(e.args[0])})"
                if key in self.env:
                    return self.env[key]
        if isinstance(e, ast.BinOp):
            l, r = self.ev(e.left), self.ev(e.right)
            if isinstance(e.op, ast.Add):
                return self.add(l, r)
            if isinstance(e.op, ast.Sub):
                return self.add(l, self.neg(r))
            if isinstance(e.op, ast.Mult):
                return self.mul(l, r)
        if isinstance(e, ast.UnaryOp) and isinstance(e.op, ast.USub):
            return self.neg(self.ev(e.operand))
        if isinstance(e, ast.BinOp) and isinstance(e.op, ast.Pow) and isinstance(e.left, ast.Constant) and isinstance(e.right, (ast.Constant, ast.UnaryOp)):
            try:
                v = float(eval(compile(ast.Expression(e), "<const>", "eval"), {"__builtins__": {}}))  # a literal constant power such as 2**-31
                return Itv(v, v)
            except Exception:
                pass
        if isinstance(e, ast.BoolOp) and isinstance(e.op, ast.Or) and len(e.values) == 2:
            # `x or c`: x when x != 0, else c.  For x in [0, h) and a constant 0 < c < h the value lies in (0, h): zero is excluded.
            x, c = self.ev(e.values[0]), self.ev(e.values[1])
            if x.lo.is_const() and x.lo.c == 0 and not x.lo_open and c.lo.is_const() and c.hi.is_const() and c.lo.c == c.hi.c and c.lo.c > 0 \
                    and x.hi.is_const() and c.hi.c < x.hi.c:
                return Itv(x.lo, x.hi, True, x.hi_open, False)
            raise Unproved(f"`or` default not modelled: {unparse(e)}")
        raise Unproved(f"expression form not modelled: {unparse(e)}")

    @staticmethod
    def neg(a: Itv) -> Itv:
        return Itv(-a.hi, -a.lo, a.hi_open, a.lo_open, a.integer)

    @staticmethod
    def add(a: Itv, b: Itv) -> Itv:
        return Itv(a.lo + b.lo, a.hi + b.hi, a.lo_open or b.lo_open, a.hi_open or b.hi_open, a.integer and b.integer)

    def mul(self, a: Itv, b: Itv) -> Itv:
        # point * interval with constant end points, point symbol known positive
        for p, q in ((a, b), (b, a)):
            if p.lo == p.hi and q.lo.is_const() and q.hi.is_const():
                if self.pos(p.lo):
                    return q.scale_pos_sym(p.lo)
                if p.lo.is_const() and p.lo.c == 0:
                    return Itv(0, 0)
        raise Unproved("product whose sign cannot be established")

    def check(self, expr, lo: Sym, hi: Sym, hi_open=False):
        try:
            return self.within(self.ev(expr), lo, hi, hi_open)
        except Unproved as e:
            return False, f"range not established: {e}"

    def within(self, v: Itv, lo: Sym, hi: Sym, hi_open=False) -> (bool, str):
        dlo = v.lo - lo
        dhi = hi - v.hi
        ok_lo = dlo.is_const() and dlo.c >= 0
        if dhi.is_const():
            ok_hi = dhi.c > 0 or (dhi.c == 0 and (v.hi_open or not hi_open))
        else:
            ok_hi = False
        return ok_lo and ok_hi, f"value in {v}, contract {'[' }{lo}, {hi}{')' if hi_open else ']'}"


def _ret(fn, arm=None):
    rets = [x for x in walk_shallow(fn) if isinstance(x, ast.Return) and x.value is not None and enclosing_function(x) is fn]
    return rets


def choicew_pairs(ctx, rule):
    """choicew hands out a member together with the weight at the SAME sampled index (not a weight looked up by equality)."""
    fn = ctx.fn(RND, "CobaRandom.choicew")
    rets = _ret(fn)
    ctx.floor(rule, "choicew returns", len(rets), 2)
    for r in rets:
        t = unparse(r.value)
        if "weights[" in t:
            IX = name_bound(fn, lambda v: unparse(v) == "self.choice(range(len(seq)), weights)", "i")
            iv = assigned_value(fn, IX)
            ok = t == f"(seq[{IX}], weights[{IX}])" and len(iv) == 1
            ctx.ob(rule, RND, "CobaRandom.choicew", r, "weighted choicew returns seq[i], weights[i] for the one sampled index i", ok)
        else:
            ok = t == "(self.choice(seq), 1 / len(seq))"
            ctx.ob(rule, RND, "CobaRandom.choicew", r, "unweighted choicew returns a member and 1/len(seq)", ok)


def weighted_choice(ctx, rule):
    """CobaRandom.choice with weights: the item returned is the first one whose cumulative weight strictly exceeds U*tot (U in [0,1)).
    Accepted searches: the linear scan with a strict `<`, or a right-bisection of the cumulative weights.  `<=` / bisect_left select an item of
    weight zero when U*tot lands exactly on a cumulative weight (in particular U == 0 with a zero-weight first item)."""
    fn = ctx.fn(RND, "CobaRandom.choice")
    TOT = name_bound(fn, lambda v: unparse(v) == "sum(weights)", "tot")
    x_txt = (f"next(self._randu) * {TOT}", f"{TOT} * next(self._randu)")
    found = 0
    maps = [c for c in walk_shallow(fn) if isinstance(c, ast.Call) and call_name(c) == "map" and len(c.args) == 2
            and isinstance(c.args[1], ast.Call) and call_name(c.args[1]) == "accumulate"]
    for c in maps:
        found += 1
        f = c.args[0]
        # the predicate applied to each cumulative weight c_k must be  U*tot < c_k  through the full comparison protocol:
        #   partial(lt, U*tot)   or   lambda c: U*tot < c   (a bound float.__lt__ answers NotImplemented -- truthy -- for Fraction/Decimal weights)
        how, strict, shape = unparse(f), False, False
        if isinstance(f, ast.Call) and call_name(f) in ("partial", "functools.partial") and len(f.args) == 2 and not f.keywords:
            op = unparse(f.args[0])
            strict = op in ("lt", "operator.lt")
            shape = unparse(f.args[1]) in x_txt
        elif isinstance(f, ast.Lambda) and len(f.args.args) == 1 and isinstance(f.body, ast.Compare) and len(f.body.ops) == 1:
            a, (b,) = f.body.left, f.body.comparators
            v = f.args.args[0].arg
            strict = (isinstance(f.body.ops[0], ast.Lt) and unparse(a) in x_txt and unparse(b) == v) or (isinstance(f.body.ops[0], ast.Gt) and unparse(b) in x_txt and unparse(a) == v)
            shape = strict
        elif isinstance(f, ast.Attribute) and f.attr.startswith("__"):
            how += "  (bound dunder: NotImplemented is truthy)"
        ok_shape = shape and unparse(c.args[1]) == "accumulate(weights)"
        ctx.ob(rule, RND, "CobaRandom.choice", c,
               "weighted choice uses U*tot < cum_k (strict, through the full comparison protocol): with U closed at 0 a zero-weight prefix is never selected, and a hit exists because U*tot < tot",
               ok_shape and strict, detail={"comparison": how, "U": "[0,1) closed at 0"})
        p = parent(c)
        ok_first = isinstance(p, ast.Call) and call_name(p) == "compress" and unparse(p.args[0]) == "seq" and isinstance(parent(p), ast.Call) and call_name(parent(p)) == "next"
        ctx.ob(rule, RND, "CobaRandom.choice", c, "the first index passing the comparison is returned (next(compress(seq, ...)))", ok_first, stmt="first hit:" + unparse(c)[:80])
    for c in [c for c in walk_shallow(fn) if isinstance(c, ast.Call) and (call_name(c) or "").split(".")[-1] in ("bisect", "bisect_left", "bisect_right")]:
        found += 1
        right = (call_name(c) or "").split(".")[-1] in ("bisect", "bisect_right")
        ok_args = len(c.args) >= 2 and "accumulate(weights)" in unparse(c.args[0]) and unparse(c.args[1]) in x_txt
        ctx.ob(rule, RND, "CobaRandom.choice", c, "a bisection of the cumulative weights is a RIGHT bisection of U*tot (first index whose cumulative weight is strictly greater)",
               right and ok_args, detail={"search": unparse(c)[:100]}, stmt="cumulative-weight bisection")
    if not found:
        ctx.ob(rule, RND, "CobaRandom.choice", fn, "the weighted search is one of the forms the rule understands (strict linear scan / right bisection)", None, stmt="weighted search form")
    tots = assigned_value(fn, TOT)
    ctx.ob(rule, RND, "CobaRandom.choice", fn, "tot is sum(weights) and a zero total is rejected",
           len(tots) == 1 and unparse(tots[0]) == "sum(weights)" and any(isinstance(x, ast.If) and unparse(x.test) == f"{TOT} == 0" and any(isinstance(y, ast.Raise) for y in x.body) for x in walk_shallow(fn)),
           stmt="tot")


def uniform_source(ctx, rule):
    """the uniform stream lies in [0,1): LCG state masked to [0,m-1] and divided by m."""
    sym = Sym.var
    # --- the uniform source
    nu = ctx.fn(RND, "CobaRandom._next_uniform")
    init = ctx.fn(RND, "CobaRandom.__init__")
    calls = [c for c in walk_shallow(init) if isinstance(c, ast.Call) and call_tail(c) == "_next_uniform"]
    ctx.floor(rule, "_next_uniform call sites", len(calls), 1)
    params = [a.arg for a in nu.args.args[1:]]
    for c in calls:
        m_arg = c.args[params.index("m")] if "m" in params and len(c.args) > params.index("m") else None
        ok = False
        if m_arg is not None:
            try:
                mv = eval(compile(ast.Expression(m_arg), "<const>", "eval"), {"__builtins__": {}})  # constant folding of a literal expression
                ok = isinstance(mv, int) and mv > 0 and (mv & (mv - 1)) == 0
            except Exception:
                ok = False
        ctx.ob(rule, RND, "CobaRandom.__init__", c, "modulus m is a literal power of two (so `& (m-1)` is `mod m`)", ok,
               detail={"m": unparse(m_arg) if m_arg is not None else None})
    M1 = name_bound(nu, lambda v: unparse(v) == "m - 1", "m_1")
    masks = assigned_value(nu, M1)
    upd = [x for x in walk_shallow(nu) if isinstance(x, ast.Assign) and unparse(x.targets[0]) == "s"]
    ys = [y for y in walk_shallow(nu) if isinstance(y, ast.Yield)]
    ok_mask = len(masks) == 1 and unparse(masks[0]) == "m - 1"
    ok_upd = len(upd) == 1 and isinstance(upd[0].value, ast.BinOp) and isinstance(upd[0].value.op, ast.BitAnd) \
        and unparse(upd[0].value.right) in (M1, "m - 1") and unparse(upd[0].value.left) in ("a * s + c", "c + a * s", "s * a + c")
    ok_y = len(ys) == 1 and unparse(ys[0].value) == "s / m"
    ctx.ob(rule, RND, "CobaRandom._next_uniform", upd[0] if upd else nu,
           "state update is (a*s+c) & (m-1): s in [0, m-1]", ok_mask and ok_upd, stmt="lcg update")
    ctx.ob(rule, RND, "CobaRandom._next_uniform", ys[0] if ys else nu, "yielded uniform is s/m in [0, (m-1)/m] subset of [0,1)", ok_y, stmt="uniform = s/m")
    # both streams are per-instance generators created in __init__
    st = [x for x in walk_shallow(init) if isinstance(x, ast.Assign) and any(is_self_attr(t, "_randu") for t in x.targets)]
    ctx.ob(rule, RND, "CobaRandom.__init__", st[0] if st else init, "self._randu is this instance's own _next_uniform generator seeded with the seed",
           len(st) == 1 and call_tail(st[0].value) == "_next_uniform" and unparse(st[0].value.args[1]) == "seed", stmt="self._randu store")



def r3_intervals(ctx):
    ctx.rule("C05.R3", "interval abstract interpretation of every consumer of the uniform stream (real arithmetic): "
                       "uniform in [0,1); random/randoms in [min,max); randint/randints in [a,b]; choice index in [0,len-1]; "
                       "shuffle index j in [i,n-1] and swap-only stores; weighted choice compares strictly; choicew pairs "
                       "seq[i] with weights[i]; log argument in gauss excludes 0")
    ctx.assume("C05.R3 is decided over the reals: floating-point rounding at interval end points is not modelled")
    ctx.assume("C05.R3 contracts assumed from the documented signatures: max > min, b >= a (integers), len(seq) >= 1, n >= 2 inside shuffle's loop, tot > 0, weights >= 0")
    sym = Sym.var
    uniform_source(ctx, "C05.R3")
    # --- random
    fn = ctx.fn(RND, "CobaRandom.random")
    A = Abs({"min": Itv(sym("min"), sym("min")), "max": Itv(sym("max"), sym("max"))}, positive=[sym("max") - sym("min")], nonneg=[])
    A.fn = fn
    for r in _ret(fn):
        ok, d = A.check(r.value, sym("min"), sym("max"), hi_open=True)
        ctx.ob("C05.R3", RND, "CobaRandom.random", r, "random() in [min,max)", ok, detail=d)
        # floating point: the rounded sum is compared with max before it is returned (the interval argument above is over the reals)
        v = r.value
        t0 = v.test.values[0] if isinstance(v, ast.IfExp) and isinstance(v.test, ast.BoolOp) and isinstance(v.test.op, ast.Or) else (v.test if isinstance(v, ast.IfExp) else None)
        extra = v.test.values[1:] if isinstance(v, ast.IfExp) and isinstance(v.test, ast.BoolOp) and isinstance(v.test.op, ast.Or) else []
        guarded = isinstance(v, ast.IfExp) and isinstance(t0, ast.Compare) and len(t0.ops) == 1 and canon(unparse(t0)) == canon(f"{unparse(v.body)} < max") \
            and all(canon(unparse(x_)) in (canon("max <= min"), canon("min >= max")) for x_ in extra) \
            and unparse(v.orelse) in ("math.nextafter(max, min)", "nextafter(max, min)", "_next_below(max)")
        ctx.ob("C05.R3", RND, "CobaRandom.random", r, "rounding guard: a rounded sum that reaches max is replaced by the largest float below max", guarded, stmt="random() rounding guard")
    # the predecessor helper: the float below x is one step in the BIT PATTERN -- down for positive x, up (in magnitude) for negative x; a multiplicative
    # shortcut x*(1-2**-53) moves towards zero, i.e. ABOVE a negative max
    if ctx.model.has_func(RND, "_next_below"):
        nb = ctx.fn(RND, "_next_below")
        X = nb.args.args[0].arg
        packs = [c for c in ast.walk(nb) if isinstance(c, ast.Call) and (call_name(c) or "").endswith(("pack", "unpack"))]
        steps = [e for e in ast.walk(nb) if isinstance(e, ast.IfExp) and isinstance(e.body, ast.BinOp) and isinstance(e.orelse, ast.BinOp)
                 and isinstance(e.body.op, ast.Sub) and isinstance(e.orelse.op, ast.Add) and unparse(e.body.right) == "1" and unparse(e.orelse.right) == "1"
                 and canon(unparse(e.test)) in (canon(f"{X} > 0"),)]
        via_nextafter = [c for c in ast.walk(nb) if isinstance(c, ast.Call) and (call_name(c) or "").endswith("nextafter")]
        zero = any(isinstance(t, ast.If) and canon(unparse(t.test)) == canon(f"{X} == 0") for t in ast.walk(nb))
        muls = [b for b in ast.walk(nb) if isinstance(b, ast.BinOp) and isinstance(b.op, ast.Mult)]
        ok_nb = (bool(via_nextafter) or (len(packs) >= 4 and len(steps) == 1 and zero)) and not muls
        ctx.ob("C05.R3", RND, "_next_below", nb, "the float below x is found by stepping the bit pattern (down for x > 0, up for x < 0, zero handled), not by scaling x", ok_nb,
               detail={"pack/unpack calls": len(packs), "sign-aware step": len(steps), "products": [unparse(m_) for m_ in muls]}, stmt="_next_below bit step")
    # --- randoms: element = min + diff*U through the conditional maps
    fn = ctx.fn(RND, "CobaRandom.randoms")
    ok, d = _randoms_shape(fn)
    ctx.ob("C05.R3", RND, "CobaRandom.randoms", fn, "randoms() elements are min + (max-min)*U in [min,max) on all four branch combinations", ok, detail=d, stmt="randoms element")
    # --- randint
    fn = ctx.fn(RND, "CobaRandom.randint")
    A = Abs({"a": Itv(sym("a"), sym("a"), integer=True), "b": Itv(sym("b"), sym("b"), integer=True)}, positive=[], nonneg=[sym("b") - sym("a")])
    for r in _ret(fn):
        ok, d = A.check(r.value, sym("a"), sym("b"))
        ctx.ob("C05.R3", RND, "CobaRandom.randint", r, "randint() in [a,b]", ok, detail=d)
    # --- randints (b is rebound to b+1 first)
    fn = ctx.fn(RND, "CobaRandom.randints")
    # `b = b + 1` is folded to `b += 1` at parse time (model._fold_numeric_increments); both spellings are accepted here
    rebind = [s for s in fn.body if (isinstance(s, ast.Assign) and unparse(s.targets[0]) == "b") or (isinstance(s, ast.AugAssign) and unparse(s.target) == "b")]
    plus1 = len(rebind) == 1 and ((isinstance(rebind[0], ast.Assign) and unparse(rebind[0].value) in ("b + 1", "1 + b"))
                                 or (isinstance(rebind[0], ast.AugAssign) and isinstance(rebind[0].op, ast.Add) and unparse(rebind[0].value) == "1"))
    b1 = sym("b") + 1 if plus1 else sym("b")
    comps = [x for x in walk_shallow(fn) if isinstance(x, ast.ListComp)]
    ctx.floor("C05.R3", "randints comprehensions", len(comps), 1)
    for comp in comps:
        g = comp.generators[0]
        stream_ok = unparse(g.iter) == "islice(self._randu, n)"
        arm_a0 = any(unparse(t) == "a == 0" and pol for t, pol in guards_of(enclosing_stmt(comp), fn))
        a_itv = Itv(0, 0, integer=True) if arm_a0 else Itv(sym("a"), sym("a"), integer=True)
        a_sym = Sym(0) if arm_a0 else sym("a")
        env = {"a": a_itv, "b": Itv(b1, b1, integer=True), g.target.id: U()}
        for nm in sorted({x.id for x in ast.walk(comp.elt) if isinstance(x, ast.Name)} - set(env)):
            vals = assigned_value(fn, nm)
            if len(vals) == 1:
                try:
                    env[nm] = Abs(env, [], [sym("b") - a_sym]).ev(vals[0])
                except Unproved:
                    pass
        A = Abs(env, positive=[], nonneg=[sym("b") - a_sym])
        ok, d = A.check(comp.elt, a_sym, sym("b"))
        ctx.ob("C05.R3", RND, "CobaRandom.randints", comp, "randints() elements in [a,b]" + (" (a == 0 arm)" if arm_a0 else ""), ok and stream_ok, detail=d)
    # --- choice (unweighted index)
    fn = ctx.fn(RND, "CobaRandom.choice")
    subs = [x for x in walk_shallow(fn) if isinstance(x, ast.Subscript) and unparse(x.value) == "seq" and isinstance(parent(x), ast.Return)
            and "weights" not in unparse(x.slice)]  # a weighted search written as seq[bisect(...)] is the business of weighted_choice()
    ctx.floor("C05.R3", "unweighted choice index", len(subs), 1)
    A = Abs({"len(seq)": Itv(sym("len"), sym("len"), integer=True)}, positive=[sym("len")], nonneg=[])
    for s in subs:
        ok, d = A.check(s.slice, Sym(0), sym("len") - 1)
        ctx.ob("C05.R3", RND, "CobaRandom.choice", s, "unweighted choice index in [0,len-1]", ok, detail=d)
    weighted_choice(ctx, "C05.R3")
    choicew_pairs(ctx, "C05.R3")
    # --- shuffle
    fn = ctx.fn(RND, "CobaRandom.shuffle")
    loops = [x for x in walk_shallow(fn) if isinstance(x, ast.For)]
    ctx.floor("C05.R3", "shuffle loop", len(loops), 1)
    LST = name_bound(fn, lambda v: isinstance(v, ast.IfExp) and "items" in unparse(v), "l")
    NN = name_bound(fn, lambda v: unparse(v) == f"len({LST})", "n")
    for lp in loops:
        ok, d = _shuffle_index(lp, NN)
        ctx.ob("C05.R3", RND, "CobaRandom.shuffle", lp, "shuffle index j = i + floor((n-i)*U) lies in [i, n-1] for i in 0..n-2", ok, detail=d)
        stores = [s for s in lp.body]
        ok_swap = len(stores) == 1 and _is_swap(stores[0])
        if ok_swap and isinstance(lp.target, ast.Tuple) and len(lp.target.elts) == 2:
            idx = {unparse(stores[0].targets[0].elts[0].slice), unparse(stores[0].targets[0].elts[1].slice)}
            ok_swap = idx == {unparse(lp.target.elts[0]), unparse(lp.target.elts[1])} and unparse(stores[0].targets[0].elts[0].value) == LST
        ctx.ob("C05.R3", RND, "CobaRandom.shuffle", stores[0] if stores else lp, "every store into the list is a two-element swap (the result is a permutation)", ok_swap)
    other = [x for x in walk_shallow(fn) if isinstance(x, (ast.Assign, ast.AugAssign)) and any(isinstance(t, ast.Subscript) for t in
             (x.targets if isinstance(x, ast.Assign) else [x.target])) and not any(x in lp.body for lp in loops)]
    muts = [x for x in walk_shallow(fn) if isinstance(x, ast.Call) and isinstance(x.func, ast.Attribute) and x.func.attr in
            ("append", "pop", "insert", "remove", "extend", "clear") and unparse(x.func.value) == LST]
    ctx.ob("C05.R3", RND, "CobaRandom.shuffle", fn, "no other write adds, drops or overwrites an element", not other and not muts, stmt="no other list writes")
    srets = [r for r in walk_shallow(fn) if isinstance(r, ast.Return)]
    ctx.ob("C05.R3", RND, "CobaRandom.shuffle", srets[0] if srets else fn, "every return (including the short-input early return) hands back the shuffled list itself",
           bool(srets) and all(r.value is not None and unparse(r.value) == LST for r in srets), detail={"returns": [unparse(r.value) if r.value is not None else None for r in srets]},
           stmt="shuffle returns the list")
    lv = assigned_value(fn, LST)
    ctx.ob("C05.R3", RND, "CobaRandom.shuffle", fn, "the shuffled list is the input (inplace) or list(items)",
           len(lv) == 1 and unparse(lv[0]) == "items if inplace else list(items)", stmt="l := items|list(items)")
    # --- gauss: log argument must exclude 0
    fn = ctx.fn(RND, "CobaRandom._next_gaussian")
    LOGS = set(bound_names(fn, lambda v: unparse(v) == "math.log")) | {"math.log", "log"}
    SQRTS = set(bound_names(fn, lambda v: unparse(v) == "math.sqrt")) | {"math.sqrt", "sqrt"}
    logs = [c for c in walk_shallow(fn) if isinstance(c, ast.Call) and call_name(c) in LOGS]
    ctx.floor("C05.R3", "log calls in _next_gaussian", len(logs), 1)
    for c in logs:
        A = Abs({}, [], [])
        try:
            v = A.ev(c.args[0])
            ok = (v.lo.is_const() and (v.lo.c > 0 or (v.lo.c == 0 and v.lo_open)))
            d = f"argument in {v}"
        except Unproved as e:
            ok, d = False, f"range not established: {e}"
        ctx.ob("C05.R3", RND, "CobaRandom._next_gaussian", c, "argument of log excludes 0 (gauss is finite for every generator state)", ok, detail=d)
    sq = [c for c in walk_shallow(fn) if isinstance(c, ast.Call) and call_name(c) in SQRTS]
    for c in sq:
        a0 = c.args[0]
        ok = isinstance(a0, ast.BinOp) and isinstance(a0.op, ast.Mult) and unparse(a0.left) == "-2" and isinstance(a0.right, ast.Call) and call_name(a0.right) in LOGS
        ctx.ob("C05.R3", RND, "CobaRandom._next_gaussian", c, "sqrt argument is -2*log(u) with u <= 1, i.e. non-negative", ok)


def _is_swap(st):
    """x[a], x[b] = x[b], x[a] on one list"""
    if not (isinstance(st, ast.Assign) and len(st.targets) == 1 and isinstance(st.targets[0], ast.Tuple) and isinstance(st.value, ast.Tuple)):
        return False
    t, v = st.targets[0].elts, st.value.elts
    if len(t) != 2 or len(v) != 2 or not all(isinstance(x, ast.Subscript) for x in t + v):
        return False
    base = unparse(t[0].value)
    if any(unparse(x.value) != base for x in t + v):
        return False
    return unparse(t[0].slice) == unparse(v[1].slice) and unparse(t[1].slice) == unparse(v[0].slice) and unparse(t[0].slice) != unparse(t[1].slice)


def r3_reservoir_index(ctx):
    """pipes.Reservoir replaces reservoir[int(r3*count)] with r3 a uniform in [0,1): the index must lie in [0, count-1]
    where the reservoir holds exactly `count` items in that branch."""
    PF = "coba/pipes/filters.py"
    fn = ctx.fn(PF, "Reservoir.filter")
    sym = Sym.var
    stores = [x for x in ast.walk(fn) if isinstance(x, ast.Assign) and isinstance(x.targets[0], ast.Subscript)
              and any(isinstance(c, ast.Call) and call_name(c) in ("int", "floor", "math.floor") for c in ast.walk(x.targets[0].slice))]
    ctx.floor("C05.R3", "reservoir replacement sites", len(stores), 1)
    for st in stores:
        idx = st.targets[0].slice
        lp = next((a for a in ancestors(st) if isinstance(a, ast.For)), None)
        uni = unparse(lp.target.elts[-1]) if lp is not None and isinstance(lp.target, ast.Tuple) else None
        CNT = name_bound(fn, lambda v: unparse(v) == "self._count or 1", "count")
        env = {CNT: Itv(sym("count"), sym("count"), integer=True)}
        if uni:
            env[uni] = U()
        A = Abs(env, positive=[sym("count")], nonneg=[])
        ok, d = A.check(idx, Sym(0), sym("count") - 1)
        # the uniforms come from rng.randoms(...) (range [0,1) by the randoms obligation above) and the reservoir has `count` slots
        src_ok = lp is not None and "batched_randoms_forever" in unparse(lp.iter) and "rng.randoms(" in unparse(fn)
        size_ok = any(isinstance(x, ast.If) and unparse(x.test) == "len(reservoir) < self._count" for x in ast.walk(fn)) or \
            any(isinstance(x, ast.If) and "< self._count" in unparse(x.test) for x in ast.walk(fn))
        ctx.ob("C05.R3", PF, "Reservoir.filter", st, "the replaced reservoir slot int(u*count) lies in [0, count-1] for u in [0,1)", ok and src_ok and size_ok,
               detail={"index": d, "uniform_from_randoms": src_ok, "reservoir_full_in_this_branch": size_ok})


def _randoms_shape(fn):
    """out = self._randu; if diff != 1: out = map(diff.__mul__, out); if min != 0: out = map(min.__add__, out); out = list(islice(out, n));
    if min != 0: out = [v if v < max else nextafter(max, min) for v in out]; return out.
    Each skipped map is the identity under its guard, so the element is min + diff*U (reals: [min,max)); the last stage is the rounding guard."""
    d = {}
    DIFF = name_bound(fn, lambda v: unparse(v) == "max - min", "diff")
    OUT = name_bound(fn, lambda v: unparse(v) == "self._randu", "out")
    diff = assigned_value(fn, DIFF)
    d["diff"] = [unparse(v) for v in diff]
    ok = len(diff) == 1 and unparse(diff[0]) == "max - min"
    outs = sorted([x for x in walk_shallow(fn) if isinstance(x, ast.Assign) and unparse(x.targets[0]) == OUT], key=lambda x: x.lineno)
    stages = []
    for o in outs:
        g = [(unparse(t), p) for t, p in guards_of(o, fn)]
        v = o.value
        kind = None
        if unparse(v) == "self._randu" and not g:
            kind = "source"
        elif unparse(v) == f"map({DIFF}.__mul__, {OUT})" and g == [(f"{DIFF} != 1", True)]:
            kind = "scale"
        elif unparse(v) == f"map(min.__add__, {OUT})" and g == [("min != 0", True)]:
            kind = "shift"
        elif unparse(v) in (f"list(islice({OUT}, n)) if n is not None else {OUT}", f"list(islice({OUT}, n))") and not g:
            kind = "materialise"
        elif isinstance(v, ast.ListComp) and unparse(v.generators[0].iter) == OUT and isinstance(v.elt, ast.IfExp) and isinstance(v.generators[0].target, ast.Name):
            e, x = v.elt, v.generators[0].target.id
            below = assigned_value(fn, e.orelse.id) if isinstance(e.orelse, ast.Name) else [e.orelse]
            if unparse(e.body) == x and canon(unparse(e.test)) == canon(f"{x} < max") and len(below) == 1 and unparse(below[0]) in ("math.nextafter(max, min)", "nextafter(max, min)", "_next_below(max)") \
                    and g and all(p and {canon(unparse(cj)) for cj in (ast.parse(t, mode="eval").body.values if isinstance(ast.parse(t, mode="eval").body, ast.BoolOp) and isinstance(ast.parse(t, mode="eval").body.op, ast.And) else [ast.parse(t, mode="eval").body])}
                                  <= {canon("min != 0"), canon("n is not None"), canon("min < max")} for t, p in g) and any(canon("min != 0") in canon(t) for t, p in g):
                # the guard may only skip the pass where the shift stage was skipped too (min == 0) or nothing was materialised: any further narrowing
                # (e.g. by the width of the range) leaves rounded sums equal to max un-clamped
                kind = "round-guard"
        stages.append((kind, unparse(v)[:70], g))
    d["stages"] = stages
    ok = ok and [k for k, *_ in stages] == ["source", "scale", "shift", "materialise", "round-guard"]
    # float(min): the bound dunders min.__add__ / diff.__mul__ are float methods applied to the generator's floats (never NotImplemented)
    mins = [x for x in walk_shallow(fn) if isinstance(x, ast.Assign) and unparse(x.targets[0]) == "min"]
    d["min"] = [unparse(x.value) for x in mins]
    ok = ok and len(mins) == 1 and unparse(mins[0].value) == "float(min)" and mins[0].lineno < diff[0].lineno if diff else False
    rets = [unparse(r.value) for r in walk_shallow(fn) if isinstance(r, ast.Return) and r.value is not None]
    d["return"] = rets
    ok = ok and rets == [OUT]
    # interval: min + (max-min)*[0,1) = [min, max) over the reals; a rounded sum equal to max is replaced by the float below max
    return ok, d


def _shuffle_index(lp, NN="n"):
    """for i,j in enumerate(map(add, range(n), map(floor, map(mul, range(n,1,-1), self._randu)))):
    element k of range(n) is k, of range(n,1,-1) is n-k (k = 0..n-2), so j = k + floor((n-k)*U)."""
    it = lp.iter
    d = {"iter": unparse(it)}
    if not (isinstance(it, ast.Call) and call_name(it) == "enumerate" and len(it.args) == 1):
        return False, d
    m1 = it.args[0]
    if not (isinstance(m1, ast.Call) and call_name(m1) == "map" and len(m1.args) == 3 and unparse(m1.args[0]) == "add" and unparse(m1.args[1]) == f"range({NN})"):
        return False, d
    m2 = m1.args[2]
    if not (isinstance(m2, ast.Call) and call_name(m2) == "map" and len(m2.args) == 2 and unparse(m2.args[0]) == "floor"):
        return False, d
    m3 = m2.args[1]
    if not (isinstance(m3, ast.Call) and call_name(m3) == "map" and len(m3.args) == 3 and unparse(m3.args[0]) == "mul" and unparse(m3.args[2]) == "self._randu"):
        return False, d
    rng = m3.args[1]
    if not (isinstance(rng, ast.Call) and call_name(rng) == "range" and len(rng.args) == 3):
        return False, d
    start, stop, step = [unparse(a) for a in rng.args]
    d["multiplier_range"] = (start, stop, step)
    # element k (k = 0, 1, ...) of range(start, stop, -1) with start == n is n-k and exists while n-k > stop
    if not (start == NN and step == "-1"):
        return False, d
    try:
        stop_v = int(stop)
    except ValueError:
        return False, d
    sym = Sym.var
    k, n = sym("i"), sym("n")
    # pairs exist for n-k >= stop+1; multiplier (n-k) >= stop+1
    A = Abs({}, positive=[], nonneg=[n - k - (stop_v + 1)])
    mult = Itv(n - k, n - k, integer=True)
    if not A.pos(n - k):
        d["why"] = "multiplier (n-i) not provably positive"
        return False, d
    prod = A.mul(mult, U())          # [0, n-k)
    fl = prod.floor_int()            # [0, n-k-1]
    j = A.add(Itv(k, k, integer=True), fl)  # [k, n-1]
    ok, txt = A.within(j, k, n - 1)
    d["j"] = txt
    # the last swapped position must be n-2 (i runs to n-2): stop must be 1 so that all positions but the last are drawn
    d["i_range"] = f"0..n-{stop_v + 1}"
    ok = ok and stop_v == 1
    ok = ok and isinstance(lp.target, ast.Tuple) and len(lp.target.elts) == 2
    if ok:
        # the swap in the loop body must use exactly (index of enumerate, drawn position)
        ti, tj = unparse(lp.target.elts[0]), unparse(lp.target.elts[1])
        d["targets"] = (ti, tj)
    return ok, d


# ------------------------------------------------------------------------------------------ R4
def r4_consumers(ctx, rule="C05.R4"):
    ctx.rule(rule, "consumers of a PMF draw report the probability component of the SAME choicew call that produced the action")
    sites = [("coba/safety.py", "SafeLearner._parse_pred"), ("coba/learners/utilities.py", "PMFPredictor.predict"),
             ("coba/learners/utilities.py", "PMFInfoPredictor.predict"), ("coba/learners/bandit.py", "RandomLearner.predict")]
    n = 0
    for rel, qual in sites:
        fn = ctx.fn(rel, qual)
        # a member drawn with the weightless `choice(seq, weights)` has lost its position: reporting `weights[seq.index(member)]` gives the weight of the FIRST equal
        # member (equal actions at several positions with different weights) -- the probability has to come from the draw itself (choicew) or from the drawn position
        drawn = set()
        for st_ in walk_shallow(fn):
            if isinstance(st_, ast.Assign) and isinstance(st_.value, ast.Call) and call_tail(st_.value) in ("choice", "choicew"):
                for t_ in st_.targets:
                    drawn |= {x.id for x in ([t_] if isinstance(t_, ast.Name) else t_.elts[:1] if isinstance(t_, ast.Tuple) else []) if isinstance(x, ast.Name)}
                if call_tail(st_.value) == "choice" and len(st_.value.args) + len(st_.value.keywords) >= 2:
                    n += 1
        for sub_ in walk_shallow(fn):
            if isinstance(sub_, ast.Subscript) and isinstance(sub_.slice, ast.Call) and call_tail(sub_.slice) == "index" and sub_.slice.args \
                    and isinstance(sub_.slice.args[0], ast.Name) and sub_.slice.args[0].id in drawn:
                ctx.ob(rule, rel, qual, sub_, "the reported probability is not looked up by the drawn member's VALUE (equal members at several positions share the first one's weight)", False,
                       detail={"lookup": unparse(sub_)})
        for c in walk_shallow(fn):
            is_direct = isinstance(c, ast.Call) and call_tail(c) == "choicew"
            is_mapped = isinstance(c, ast.Call) and call_name(c) == "map" and c.args and isinstance(c.args[0], ast.Attribute) and c.args[0].attr == "choicew"
            if not (is_direct or is_mapped):
                continue
            n += 1
            ctx.call_sites += 1
            st = enclosing_stmt(c)
            ok = False
            how = ""
            if isinstance(st, ast.Return):
                v = st.value
                # return rng.choicew(...)   or   return *rng.choicew(...), info
                if v is c:
                    ok, how = True, "returned whole"
                elif isinstance(v, ast.Tuple) and isinstance(v.elts[0], ast.Starred) and v.elts[0].value is c:
                    ok, how = True, "star-expanded first in the returned tuple"
            elif isinstance(st, ast.Assign) and len(st.targets) == 1 and isinstance(st.targets[0], ast.Tuple) and len(st.targets[0].elts) == 2:
                names = [unparse(t) for t in st.targets[0].elts]
                if is_direct and st.value is c:
                    ok, how = True, f"unpacked into {names}"
                elif is_mapped:
                    # A, P = list(map(list, zip(*map(rng.choicew, actions, pred))))
                    ok = unparse(st.value).startswith("list(map(list, zip(*map(") and st.value.args[0].args[1].args[0].value is c
                    how = f"transposed into {names}"
                # the unpacked pair must be what is returned
                rets = [r for r in walk_shallow(fn) if isinstance(r, ast.Return) and r.value is not None and st.lineno < r.lineno]
                nxt = min(rets, key=lambda r: r.lineno) if rets else None
                if nxt is None or not unparse(nxt.value).startswith("(" + ", ".join(names)):
                    ok = False
                    how += " but the next return does not return this pair"
            ctx.ob(rule, rel, qual, c, "action and reported probability come from one choicew call", ok, detail={"how": how})
    ctx.floor(rule, "weighted draw sites in the PMF consumers", n, 6)


def _seedish(e):
    if isinstance(e, ast.Name):
        return e.id.lower().endswith("seed")
    if isinstance(e, ast.Attribute):
        return e.attr.lower().endswith("seed")
    return False


def seed_truthiness(ctx, rule, prefixes=("coba/",)):
    """An explicit seed is honoured for every value, 0 included: no seed-valued expression is tested for truthiness
    (`seed or default`, `x if seed else y`, `if not seed:`) -- absence is tested with `is None`."""
    ctx.rule(rule, "no seed-valued expression (name/attribute ending in 'seed') is tested for truthiness: `seed or default` / `if seed` would "
                   "discard the legal seed 0; absence is tested with `is None`")
    n_none = 0
    for rel, mod in sorted(ctx.model.modules.items()):
        if rel.startswith("coba/tests") or not rel.startswith(tuple(prefixes)):
            continue
        for x in ast.walk(mod.tree):
            bad = []
            if isinstance(x, ast.BoolOp):
                vs = x.values[:-1] if isinstance(x.op, ast.Or) else x.values
                bad = [v for v in vs if _seedish(v)]
            elif isinstance(x, (ast.IfExp, ast.If, ast.While)):
                t = x.test
                if isinstance(t, ast.UnaryOp) and isinstance(t.op, ast.Not):
                    t = t.operand
                if _seedish(t):
                    bad = [t]
            elif isinstance(x, ast.Compare) and _seedish(x.left) and len(x.ops) == 1 and isinstance(x.ops[0], (ast.Is, ast.IsNot)) \
                    and isinstance(x.comparators[0], ast.Constant) and x.comparators[0].value is None:
                n_none += 1
            for v in bad:
                qual = qualname(v)
                ctx.ob(rule, rel, qual, x, "a seed is not tested for truthiness (seed 0 is a legal explicit seed)", False,
                       detail={"expression": unparse(x)[:120]})
    ctx.note(f"{rule} examined {n_none} `seed is [not] None` tests; 0 truthiness tests expected")
    ctx.floor(rule, "`seed is None` style tests in the package (non-vacuity)", n_none, 5)

def r6_generator_ownership(ctx, rule="C05.R6"):
    """'regardless of any other generator instance': two holders never draw from one stream -- an attribute that holds a CobaRandom
    is only ever bound to a generator constructed on the spot (or to None), never to a generator taken from another object."""
    ctx.rule(rule, "generator ownership: in every class, an attribute that is somewhere bound to CobaRandom(...) is bound only to freshly constructed "
                   "generators or None (never to a generator owned by another object: the two holders' streams would depend on each other's calls)")
    n = 0

    def fresh(v):
        if isinstance(v, ast.Constant) and v.value is None:
            return True
        if isinstance(v, ast.Call) and (call_name(v) or "").split(".")[-1] == "CobaRandom":
            return True
        if isinstance(v, ast.IfExp):
            return fresh(v.body) and fresh(v.orelse)
        return False
    for c in ctx.model.classes:
        if c.rel.startswith("coba/tests"):
            continue
        stores = []
        for name, fn in c.methods.items():
            for st in ast.walk(fn):
                if isinstance(st, ast.Assign):
                    for t in st.targets:
                        if is_self_attr(t):
                            stores.append((name, t.attr, st))
        gens = {a for _, a, st in stores if any(isinstance(x, ast.Call) and (call_name(x) or "").split(".")[-1] == "CobaRandom" for x in ast.walk(st.value))
                and (fresh(st.value) or isinstance(st.value, (ast.IfExp, ast.BoolOp)))}
        for name, a, st in stores:
            if a in gens:
                n += 1
                ctx.ob(rule, c.rel, f"{c.name}.{name}", st, f"self.{a} is bound to a generator constructed here (or None)", fresh(st.value))
    ctx.floor(rule, "stores to generator-holding attributes", n, 5)


CONTROLS = [
    ("pickled generators keep the low 20 bits of the seed", RND, M.replace_expr("CobaRandom.__reduce__", "(self._seed,)", "(self._seed % 2 ** 20,)"), "C05.R7"),
    ("PMFPredictor reports the weight of the first equal action", "coba/learners/utilities.py", M.replace_stmt("PMFPredictor.predict", lambda st: isinstance(st, ast.Return),
        "pmf = self._pmfcall(context, actions)\naction = self._pmfrng.choice(actions, pmf)\nreturn (action, pmf[actions.index(action)])"), "C05.R4"),
    ("float predecessor by scaling", RND, M.replace_stmt("_next_below", lambda st: isinstance(st, ast.Return) and "unpack" in ast.unparse(st), "return x * (1 - 2 ** (-53))"), "C05.R3"),
    ("randoms clamps only very narrow ranges", RND, M.replace_expr("CobaRandom.randoms", "min != 0 and n is not None and (min < max)", "min != 0 and n is not None and (min < max) and diff < abs(max) * 2 ** (-30)"), "C05.R3"),
    ("weighted choice through the bound float.__lt__", RND, M.replace_expr("CobaRandom.choice", "partial(lt, next(self._randu) * tot)", "(next(self._randu) * tot).__lt__"), "C05.R3"),
    ("re-wrapping carries on with the inner wrapper's generator", "coba/safety.py", M.replace_expr("SafeLearner.__init__", "CobaRandom(seed)", "learner._rng if isinstance(learner, SafeLearner) else CobaRandom(seed)"), "C05.R6"),
    ("shuffle early return of the input", RND, M.replace_stmt("CobaRandom.shuffle", M.text_has("if n < 2"), "if n < 2:\n    return items"), "C05.R3"),
    ("reservoir index off by one", "coba/pipes/filters.py", M.replace_expr("Reservoir.filter", "int(r3 * count)", "int(r3 * count) + 1"), "C05.R3"),
    ("module state in method", RND, M.replace_expr("CobaRandom.random", "next(self._randu)", "next(_random._randu)"), "C05.R1"),
    ("randint b-a+2", RND, M.replace_expr("CobaRandom.randint", "b - a + 1", "b - a + 2"), "C05.R3"),
    ("choice index +1", RND, M.replace_expr("CobaRandom.choice", "int(len(seq) * next(self._randu))", "int(len(seq) * next(self._randu)) + 1"), "C05.R3"),
    ("shuffle range to 0", RND, M.replace_expr("CobaRandom.shuffle", "range(n, 1, -1)", "range(n, 0, -1)"), "C05.R3"),
    ("choicew mismatched weight", RND, M.replace_expr("CobaRandom.choicew", "(seq[i], weights[i])", "(seq[i], weights[0])"), "C05.R3"),
    ("random without the rounding guard", RND, M.replace_stmt("CobaRandom.random", lambda st: isinstance(st, ast.Return), "return value"), "C05.R3"),
    ("randoms without the rounding guard", RND, M.delete_stmt("CobaRandom.randoms", lambda st: isinstance(st, ast.If) and "_next_below" in ast.unparse(st)), "C05.R3"),
    ("random scaled by max-min+1 and not cut off", RND, M.chain(M.replace_expr("CobaRandom.random", "max - min", "max - min + 1"), M.replace_stmt("CobaRandom.random", lambda st: isinstance(st, ast.Return), "return value")), "C05.R3"),
    ("second draw for prob", "coba/learners/utilities.py", M.replace_expr("PMFPredictor.predict",
        "self._pmfrng.choicew(actions, self._pmfcall(context, actions))",
        "(self._pmfrng.choicew(actions, self._pmfcall(context, actions))[0], self._pmfrng.choicew(actions, self._pmfcall(context, actions))[1])"), "C05.R4"),
]
