"""C17 -- indexed table queries (DESIGN.md 5/C17).

Decided: the three operator tables agree, each operator's bisect arm is the range form of its scan
predicate on a sorted column, row multiplicity of 'in', the sortedness invariant under insert,
table order of a selection.  Not decided: View/SliceView composition arithmetic.
"""
import ast
import re

from ..model import walk_shallow, call_name, is_self_attr, dotted_name, parent, ancestors, enclosing_function, rename_copy
from ..util import canon, all_guards
from ..util import (has_call, find_calls, assigned_value, const_str, unparse, kw, arg_or_kw, enclosing_stmt,
                    guards_of, call_tail, control_ancestors)
from .. import mutate as M

TECHNIQUE = 'static analysis: per-operator equivalence of bisect ranges and scan predicate in a symbolic LO/HI/BL/BR range algebra, multiplicity and order rules, CFG must-pass cache invalidation after row-adding statements, loop-carried state rule'

EXPLANATION = ("Table-agreement rules over Table.where/_compare/insert/index: the Literal of where(), the {op: value} unpack list and "
               "the comparison arms of _compare name the same operators; per operator the bisect arm, normalised to "
               "LO/HI/BL(x)/BR(x), is the range form of the scan predicate for a sorted column; the 'in' ranges are taken over "
               "distinct sorted values; any method that appends rows while index columns are set re-sorts or clears the index; "
               "selections are built from ascending ranges or sorted.")
EXPLANATION += ' R6: row-adding statements invalidate the cached index ranges on every path; R7: no per-keyword decision is carried into the next keyword.'
EXPLANATION += ' R2 also: the bisect shortcut tests the range first; R8: groupby walks the ranges of its level; R9: Missing defines all four order comparisons, copy() storage (known finding).'

RES = "coba/results/core.py"
# operator -> (normalised bisect ranges, scan comparison)
EXPECT = {
    "<": ("[(lo, BL(arg))]", "c < arg"),
    "<=": ("[(lo, BR(arg))]", "c <= arg"),
    ">=": ("[(BL(arg), hi)]", "c >= arg"),
    ">": ("[(BR(arg), hi)]", "c > arg"),
    "=": ("[(BL(arg), BR(arg))]", "c == arg"),
    "!=": ("[(lo, BL(arg)), (BR(arg), hi)]", "c != arg"),
}


def _roles_compare(fn):
    m = {}
    for x in ast.walk(fn):
        if isinstance(x, ast.comprehension):
            it = unparse(x.iter)
            if it.startswith("enumerate(col, lo)") and isinstance(x.target, ast.Tuple) and len(x.target.elts) == 2:
                m.setdefault(unparse(x.target.elts[0]), "i")
                m.setdefault(unparse(x.target.elts[1]), "c")
            elif it.startswith("sorted(") and isinstance(x.target, ast.Name):
                m.setdefault(x.target.id, "v")
            elif it.startswith("zip(") and isinstance(x.target, ast.Tuple) and len(x.target.elts) == 2:
                m.setdefault(unparse(x.target.elts[0]), "v0")
                m.setdefault(unparse(x.target.elts[1]), "v1")
        if isinstance(x, ast.Assign) and isinstance(x.targets[0], ast.Tuple) and len(x.targets[0].elts) == 2 and "arg.items()" in unparse(x.value):
            m.setdefault(unparse(x.targets[0].elts[0]), "key")
            m.setdefault(unparse(x.targets[0].elts[1]), "value")
    return m


def _roles_where(fn):
    from ..util import bound_names
    m = {}
    for n in bound_names(fn, lambda v: isinstance(v, ast.List) and not v.elts):
        m[n] = "selection"
    for x in walk_shallow(fn):
        if isinstance(x, ast.For) and isinstance(x.target, ast.Tuple) and len(x.target.elts) == 2:
            a, b = unparse(x.target.elts[0]), unparse(x.target.elts[1])
            it = unparse(x.iter)
            if it == "kwargs.items()":
                m[a], m[b] = "kw", "arg"
            elif it.startswith("self._lohis["):
                m[a], m[b] = "lo", "hi"
            elif it.startswith("self._compare("):
                m[a], m[b] = "l", "h"
    return m


def _roles_index(fn):
    from ..util import bound_names
    m = {}
    for n in bound_names(fn, lambda v: unparse(v) == "list(range(len(self)))"):
        m[n] = "indexes"
    for n in bound_names(fn, lambda v: unparse(v) == "[(0, len(self))]"):
        m[n] = "lohis"
    for x in walk_shallow(fn):
        if isinstance(x, ast.For):
            if isinstance(x.target, ast.Name) and unparse(x.iter).startswith(("indx", "self._data.keys()")):
                m[x.target.id] = "col"
            if isinstance(x.target, ast.Tuple) and len(x.target.elts) == 2 and not unparse(x.iter).startswith("self."):
                m[unparse(x.target.elts[0])], m[unparse(x.target.elts[1])] = "lo", "hi"
    return m


def run(ctx):
    cmpf = ctx.fn(RES, "Table._compare")
    where = ctx.fn(RES, "Table.where")
    cmpf = rename_copy(cmpf, _roles_compare(cmpf))
    where = rename_copy(where, _roles_where(where))
    arms = _arms(cmpf)
    r1_operator_sets(ctx, cmpf, where, arms)
    r2_bisect_scan(ctx, cmpf, arms)
    r3_multiplicity(ctx, cmpf, where, arms)
    r4_index_invariant(ctx)
    r5_order(ctx, where, arms)
    r6_cache_invalidation(ctx)
    r7_per_keyword_state(ctx)
    r8_groupby_level(ctx)
    r9_missing_and_copy(ctx)
    r10_orderable_arguments(ctx, cmpf)
    r11_view_composition(ctx)
    r12_missing_hash(ctx)
    index_then_insert(ctx, "C17.R13")
    r14_declared_index_order(ctx)
    r15_row_order_is_column_order(ctx)
    groupby_and_union_order(ctx, "C17.R16")
    r17_first_cell_needs_a_cell(ctx, cmpf)


def _arms(fn):
    """operator -> If node for `if comparison == OP ...`"""
    out = {}
    for x in fn.body:
        if isinstance(x, ast.If):
            for c in ast.walk(x.test):
                if isinstance(c, ast.Compare) and unparse(c.left) == "comparison" and isinstance(c.ops[0], ast.Eq) and const_str(c.comparators[0]):
                    out[const_str(c.comparators[0])] = x
    return out


def r1_operator_sets(ctx, cmpf, where, arms):
    ctx.rule("C17.R1", "the operators accepted by where() (Literal), unpacked from {op: value} and implemented by _compare are the same set")
    lit = set()
    for a in where.args.args:
        if a.arg == "comparison" and a.annotation is not None:
            lit = {c.value for c in ast.walk(a.annotation) if isinstance(c, ast.Constant) and isinstance(c.value, str)}
    unpack = set()
    for x in walk_shallow(cmpf):
        if isinstance(x, ast.Compare) and unparse(x.left) == "key" and isinstance(x.ops[0], ast.In) and isinstance(x.comparators[0], (ast.List, ast.Tuple, ast.Set)):
            unpack = {const_str(e) for e in x.comparators[0].elts}
    impl = set(arms)
    ctx.floor("C17.R1", "operators implemented by _compare", len(impl), 9)
    ctx.ob("C17.R1", RES, "Table.where", where, "every documented operator is implemented and vice versa", lit == impl, detail={"documented": sorted(lit), "implemented": sorted(impl)}, stmt="Literal vs arms")
    ctx.ob("C17.R1", RES, "Table._compare", cmpf, "every implemented operator can be given as {op: value}", unpack == impl,
           detail={"unpacked": sorted(unpack), "implemented": sorted(impl), "missing": sorted(impl - unpack)}, stmt="unpack list vs arms")


def _norm(e):
    s = unparse(e)
    s = re.sub(r"my_bisect_left\(col, ([^,]+), lo, hi\)", r"BL(\1)", s)
    s = re.sub(r"my_bisect_right\(col, ([^,]+), lo, hi\)", r"BR(\1)", s)
    return s


def _bisect_scan(arm):
    """(bisect return expr, scan return expr) of an operator arm"""
    for x in arm.body:
        if isinstance(x, ast.If) and unparse(x.test) == "method == 'bisect'":
            b = [r for s in x.body for r in walk_shallow(s) if isinstance(r, ast.Return)]
            s_ = [r for s in x.orelse for r in walk_shallow(s) if isinstance(r, ast.Return)]
            pre = [s for s in x.body if not isinstance(s, ast.Return)]
            if len(b) == 1 and len(s_) == 1:
                return b[0].value, s_[0].value, pre
    return None, None, []


def r2_bisect_scan(ctx, cmpf, arms):
    ctx.rule("C17.R2", "per operator the bisect ranges (in LO/HI/BL/BR form) are the range form of the scan predicate on a sorted column")
    for op, (want_b, want_s) in EXPECT.items():
        arm = arms.get(op)
        if arm is None:
            ctx.ob("C17.R2", RES, "Table._compare", cmpf, f"operator {op} has an arm", False, stmt=f"arm {op}")
            continue
        b, s, _ = _bisect_scan(arm)
        gotb = _norm(b) if b is not None else None
        cond = None
        if isinstance(s, ast.ListComp) and s.generators and s.generators[0].ifs:
            t = s.generators[0].ifs[0]
            cond = unparse(t.values[-1]) if isinstance(t, ast.BoolOp) else unparse(t)
            gen_ok = unparse(s.generators[0].iter) == "enumerate(col, lo)" and unparse(s.elt) == "i"
        else:
            gen_ok = False
        ctx.ob("C17.R2", RES, "Table._compare", arm, f"'{op}': bisect ranges {want_b} <-> scan `{want_s}`", gotb == want_b and cond == canon(want_s) and gen_ok,
               detail={"bisect": gotb, "scan": cond}, stmt=f"bisect~scan {op}")
    # 'in' and '!in'
    arm = arms.get("in")
    b, s, _ = _bisect_scan(arm) if arm is not None else (None, None, [])
    okb = isinstance(b, ast.ListComp) and _norm(b.elt) == "(BL(v), BR(v))" and unparse(b.generators[0].target) == "v"
    oks = isinstance(s, ast.ListComp) and unparse(s.generators[0].ifs[0]) == "c in arg" if isinstance(s, ast.ListComp) and s.generators[0].ifs else False
    ctx.ob("C17.R2", RES, "Table._compare", arm or cmpf, "'in': union of [BL(v),BR(v)) over the values <-> scan `c in arg`", okb and oks, stmt="bisect~scan in")
    arm = arms.get("!in")
    b, s, pre = _bisect_scan(arm) if arm is not None else (None, None, [])
    okp = len(pre) == 1 and unparse(pre[0]) in ("arg = [None] + list(sorted(arg)) + [None]", "arg = [None] + sorted(arg) + [None]", "arg = [None] + sorted(set(arg)) + [None]")
    okb = isinstance(b, ast.ListComp) and _norm(b.elt) == "(lo if v0 is None else BR(v0), hi if v1 is None else BL(v1))" and unparse(b.generators[0].iter) == "zip(arg[0:], arg[1:])"
    oks = isinstance(s, ast.ListComp) and bool(s.generators[0].ifs) and unparse(s.generators[0].ifs[0]) == "c not in arg"
    ctx.ob("C17.R2", RES, "Table._compare", arm or cmpf, "'!in': the gaps [BR(v_k), BL(v_k+1)) between consecutive sorted values <-> scan `c not in arg`", okp and okb and oks, stmt="bisect~scan !in")
    # BL / BR themselves: shortcuts around bisect_left / bisect_right that must not change their meaning
    for name, std, ret, probe in (("my_bisect_left", "bisect_left", "l", "c[l]"), ("my_bisect_right", "bisect_right", "h", "c[h - 1]")):
        f = ctx.fn(RES, name)
        rets = [r.value for r in walk_shallow(f) if isinstance(r, ast.Return)]
        ok = False
        d = {}
        if len(rets) == 1 and isinstance(rets[0], ast.IfExp):
            e = rets[0]
            params = [a.arg for a in f.args.args]
            d = {"shortcut": unparse(e.body), "when": unparse(e.test), "fallback": unparse(e.orelse)}
            conj = [unparse(v) for v in (e.test.values if isinstance(e.test, ast.BoolOp) and isinstance(e.test.op, ast.And) else [e.test])]
            # the probe reads an element of the range, so it is sound only on a non-empty range: `l < h` must be tested first
            d["non-empty range tested before the probe"] = conj[:1] in (["l < h"], ["h > l"])
            ok = params == ["c", "a", "l", "h"] and unparse(e.body) == ret and conj[-1] == canon(f"{probe} == a") and conj[:-1] in (["l < h"], ["h > l"]) \
                and unparse(e.orelse) == f"{std}(c, a, l, h)"
        elif len(rets) == 1:
            ok = unparse(rets[0]) == f"{std}(c, a, l, h)"
        ctx.ob("C17.R2", RES, name, f, f"{name}(c,a,l,h) is {std}(c,a,l,h) with an equivalent shortcut ({ret} when the range is non-empty and {probe} == a)", ok, detail=d, stmt=f"{name} definition")
    # the scan works on the [lo,hi) slice and numbers rows from lo
    sl = [x for x in walk_shallow(cmpf) if isinstance(x, ast.Assign) and unparse(x) == "col = col[lo:hi]"]
    ok = len(sl) == 1 and any(unparse(t) == "method != 'bisect' or callable(arg)" and p for t, p in guards_of(sl[0], cmpf))
    ctx.ob("C17.R2", RES, "Table._compare", sl[0] if sl else cmpf, "scan arms see exactly the rows lo..hi-1 and report absolute row numbers", ok, stmt="scan slice")


def in_arm_sorted_distinct(ctx, rule):
    """the bisect arm of 'in' (what every Result filter uses to narrow a parameter table by a SET of ids) visits distinct values in ascending order:
    its ranges, and with them the rows of the narrowed -- still 'indexed' -- table, come out in table order, each once."""
    cmpf = ctx.fn(RES, "Table._compare")
    cmpf = rename_copy(cmpf, _roles_compare(cmpf))
    arm = _arms(cmpf).get("in")
    b, _, _ = _bisect_scan(arm) if arm is not None else (None, None, [])
    it = unparse(b.generators[0].iter) if isinstance(b, ast.ListComp) else None
    ctx.ob(rule, RES, "Table._compare", b if b is not None else cmpf, "'in' on an index column visits sorted(set(<values>)) whatever container the values came in (a set iterates in hash order)",
           it in ("sorted(set(arg))", "sorted(frozenset(arg))"), detail={"iterates": it}, stmt="in: sorted distinct values")


def r3_multiplicity(ctx, cmpf, where, arms):
    ctx.rule("C17.R3", "a row is selected once: the 'in' ranges are taken over distinct sorted values (or the selection is de-duplicated)")
    arm = arms.get("in")
    b, s, _ = _bisect_scan(arm) if arm is not None else (None, None, [])
    it = unparse(b.generators[0].iter) if isinstance(b, ast.ListComp) else None
    dedup_all = any(isinstance(x, ast.Assign) and unparse(x.targets[0]) == "selection" and unparse(x.value) == "sorted(set(selection))" and not guards_of(x, where)
                    for x in walk_shallow(where))
    ok = it in ("sorted(set(arg))", "sorted(frozenset(arg))") or dedup_all
    ctx.ob("C17.R3", RES, "Table._compare", b if b is not None else cmpf, "duplicate values in an 'in' list do not duplicate rows", ok, detail={"iterates": it}, stmt="in: distinct values")
    ext = [c for c in walk_shallow(where) if isinstance(c, ast.Call) and unparse(c.func) == "selection.extend"]
    ctx.floor("C17.R3", "selection.extend sites in where", len(ext), 2)
    for c in ext:
        a = unparse(c.args[0])
        ok = a == "range(l, h)" or a.startswith("self._compare(0, len(self)")
        ctx.ob("C17.R3", RES, "Table.where", c, "rows are added as whole ranges / scan hits, each row number once per condition", ok)
    multi = [x for x in walk_shallow(where) if isinstance(x, ast.If) and unparse(x.test) == "len(kwargs) > 1"]
    ok = len(multi) == 1 and unparse(multi[0].body[0]) == "selection = sorted(set(selection))"
    ctx.ob("C17.R3", RES, "Table.where", multi[0] if multi else where, "several keyword conditions select the union (sorted, de-duplicated)", ok, stmt="union of conditions")


def r4_index_invariant(ctx):
    ctx.rule("C17.R4", "a method that appends rows while index columns are set re-sorts the table or clears _indexes (bisect needs sorted columns)")
    cls = ctx.model.cls(RES, "Table")
    n = 0
    for mname, fn in cls.methods.items():
        appends = [c for c in walk_shallow(fn) if isinstance(c, ast.Call) and call_tail(c) in ("extend", "append") and "self._data[" in unparse(c.func)]
        appends += [x for x in walk_shallow(fn) if isinstance(x, ast.Assign) and unparse(x.targets[0]).startswith("self._data[") and "chain(" in unparse(x.value)]
        if not appends or mname == "__init__":
            continue
        n += 1
        src = unparse(fn)
        repairs = ("self._indexes = ()" in src or "self._indexes = tuple()" in src or "self.index(" in src or "sorted(" in src and "self._indexes" in src)
        ctx.ob("C17.R4", RES, f"Table.{mname}", fn, "appending rows keeps the index columns sorted or drops the index", repairs,
               detail={"appends": len(appends)}, stmt=f"Table.{mname} appends rows")
    ctx.floor("C17.R4", "row-appending methods of Table", n, 1)
    idx = cls.methods["index"]
    idx = rename_copy(idx, _roles_index(idx))
    src = unparse(idx)
    ok = "self._indexes = tuple(indx)" in src and "self._lohis = self._calc_lohis()" in src and "sorted(indexes[lo:hi], key=self._data[col].__getitem__)" in src
    ctx.ob("C17.R4", RES, "Table.index", idx, "index() stably sorts every column by the index columns and records them", ok, stmt="index sorts")
    perm = [x for x in walk_shallow(idx) if isinstance(x, ast.Assign) and unparse(x.targets[0]) == "self._data[col][:]"]
    ok = len(perm) == 2 and all(unparse(p.value) == "map(self._data[col].__getitem__, indexes)" for p in perm)
    rest = [x for x in walk_shallow(idx) if isinstance(x, ast.For) and unparse(x.iter) == "self._data.keys() - set(indx)"]
    ctx.ob("C17.R4", RES, "Table.index", idx, "every column (index and non-index) is permuted by the same row permutation", ok and len(rest) == 1, stmt="one permutation for all columns")


def r14_declared_index_order(ctx, rule="C17.R14"):
    """where() and copy() build their result through Table(<view>, columns, self._indexes): the constructor must record the index columns in the order given, because
    that order IS the sort order of the rows (index('b','a') on columns a,b,c sorts by b first)."""
    ctx.rule(rule, "Table.__init__ records the declared index columns in the given order: self._indexes is tuple(<indexes>) or a comprehension that iterates the `indexes` "
                   "parameter (filtering is fine, re-ordering by another sequence is not)")
    init = ctx.fn(RES, "Table.__init__")
    P = [a.arg for a in init.args.args]
    IDX = P[3] if len(P) > 3 else "indexes"
    st = [x for x in ast.walk(init) if isinstance(x, ast.Assign) and any(is_self_attr(t, "_indexes") for t in x.targets)]
    ctx.floor(rule, "assignments of self._indexes in Table.__init__", len(st), 1)
    for x in st:
        v = x.value
        inner = v.args[0] if isinstance(v, ast.Call) and call_name(v) in ("tuple", "list") and len(v.args) == 1 else v
        ok = (isinstance(inner, ast.Name) and inner.id == IDX) or \
             (isinstance(inner, (ast.GeneratorExp, ast.ListComp)) and len(inner.generators) == 1 and unparse(inner.generators[0].iter) == IDX and unparse(inner.elt) == unparse(inner.generators[0].target))
        ctx.ob(rule, RES, "Table.__init__", x, "the index columns are kept in the order they were declared in", ok, detail={"stored": unparse(v)})


def r15_row_order_is_column_order(ctx, rule="C17.R15"):
    """Rows are positional: row[i] belongs to columns[i] (where(row_pred) hands rows to the caller's predicate).  The storage dict has its own order -- a mapping given with an
    explicit column list in another order, or a ragged insert adding several columns at once -- so rows are assembled through the column list, never through the dict's order."""
    ctx.rule(rule, "Table assembles rows in the order of self._columns: no method zips / unpacks self._data.values() (or items / iteration of the storage dict) into rows")
    cls = ctx.model.cls(RES, "Table")
    n = 0
    for name, fn in sorted(cls.methods.items()):
        for c in [c for c in ast.walk(fn) if isinstance(c, ast.Call) and call_name(c) in ("zip", "map", "list", "tuple", "iter", "chain")]:
            raw = [a_ for a_ in ast.walk(c) if isinstance(a_, ast.Call) and isinstance(a_.func, ast.Attribute) and a_.func.attr in ("values", "items") and unparse(a_.func.value) == "self._data"]
            star = any(isinstance(a_, ast.Starred) for a_ in c.args)
            if raw and star:
                n += 1
                ctx.ob(rule, RES, f"Table.{name}", c, "rows are assembled column by column in the order of self._columns", False, detail={"expression": unparse(c)[:100]})
    it = cls.methods.get("__iter__")
    ok = it is not None and any(isinstance(y, ast.Subscript) and unparse(y.value) == "self" for y in ast.walk(it)) or (it is not None and "self._columns" in unparse(it))
    ctx.ob(rule, RES, "Table.__iter__", it if it is not None else cls.node, "iteration yields rows through the column-ordered access self[...]", bool(ok), stmt="Table.__iter__ order")


def groupby_and_union_order(ctx, rule):
    """(a) groupby(level) pairs the ranges of index column `level` with a key read from the FIRST `level` INDEX columns -- the leading columns of the table are the same
    thing only when the header lists the index columns first; (b) the union of several keyword selections is handed to the view in ascending row order (the view still
    claims its parent's index; an unsorted union leaves id columns unsorted under bisect)."""
    ctx.rule(rule, "Table.groupby builds its keys from self._indexes[:level] (the columns its ranges are computed over); Table.where sorts the union of several keyword selections (sorted(set(..)))")
    gb = ctx.fn(RES, "Table.groupby")
    LEVEL = gb.args.args[1].arg
    comps = [c for c in ast.walk(gb) if isinstance(c, (ast.ListComp, ast.GeneratorExp)) and "self._data[" in unparse(c.elt) and isinstance(c.generators[0].iter, ast.Subscript)
             and isinstance(c.generators[0].iter.slice, ast.Slice) and unparse(c.generators[0].iter.slice.upper or ast.Constant(None)) == LEVEL]
    ctx.floor(rule, "key-column comprehensions in Table.groupby", len(comps), 1)
    for c in comps:
        it = c.generators[0].iter
        ok = isinstance(it, ast.Subscript) and unparse(it.value) == "self._indexes" and isinstance(it.slice, ast.Slice) and it.slice.lower is None and it.slice.upper is not None
        ctx.ob(rule, RES, "Table.groupby", c, "group keys are read from the index columns the ranges belong to", ok, detail={"over": unparse(it)})
    wh = ctx.fn(RES, "Table.where")
    SEL = "selection"
    multi = [x for x in ast.walk(wh) if isinstance(x, ast.If) and "len(kwargs)" in unparse(x.test)]
    ctx.floor(rule, "multi-keyword arm in Table.where", len(multi), 1)
    for m_ in multi:
        st = [y for y in ast.walk(m_) if isinstance(y, ast.Assign)]
        ok = len(st) == 1 and isinstance(st[0].value, ast.Call) and call_name(st[0].value) == "sorted" and not st[0].value.keywords
        ctx.ob(rule, RES, "Table.where", st[0] if st else m_, "the union of several keyword selections is de-duplicated AND sorted into table order", ok, detail={"union": unparse(st[0].value) if st else None})


def r17_first_cell_needs_a_cell(ctx, cmpf, rule="C17.R17"):
    """'empty tables included': the scan arms decide HOW to compare from the first cell of the column (col[0]); one test of the match arm guards that look-up with
    `col and ...`, the others relied on it -- on an empty column (an empty table, or an empty where() result) they raised IndexError."""
    ctx.rule(rule, "Table._compare reads the first cell of a column (col[0]) only where the column is known to be non-empty: the look-up is dominated by a truthiness / length "
                   "test of the column (a conjunct to its left, an enclosing guard, or an earlier `if not col: return`)")
    from ..util import all_guards
    COL = "col"
    n = 0
    for sub in [x for x in ast.walk(cmpf) if isinstance(x, ast.Subscript) and isinstance(x.value, ast.Name) and x.value.id == COL and isinstance(x.slice, ast.Constant) and x.slice.value in (0, -1)]:
        n += 1
        # (a) a conjunct `col` to the left in the same and-chain
        ok = False
        for a_ in ancestors(sub):
            if isinstance(a_, ast.BoolOp) and isinstance(a_.op, ast.And):
                idx = next((i for i, v in enumerate(a_.values) if any(y is sub for y in ast.walk(v))), None)
                if idx is not None and any(isinstance(v, ast.Name) and v.id == COL for v in a_.values[:idx]):
                    ok = True
        # (b) an enclosing guard that is true only for a non-empty column
        ok = ok or any(pol and ((isinstance(t, ast.Name) and t.id == COL) or (isinstance(t, ast.BoolOp) and isinstance(t.op, ast.And) and any(isinstance(v, ast.Name) and v.id == COL for v in t.values)))
                       for t, pol in all_guards(sub, cmpf))
        # (c) an earlier early exit `if not col: return ...` in an enclosing block
        st = enclosing_stmt(sub)
        for a_ in [st] + list(ancestors(st)):
            p_ = parent(a_)
            for body in (getattr(p_, "body", None), getattr(p_, "orelse", None)):
                if isinstance(body, list) and a_ in body:
                    for prev in body[:body.index(a_)]:
                        if isinstance(prev, ast.If) and isinstance(prev.test, ast.UnaryOp) and isinstance(prev.test.op, ast.Not) and isinstance(prev.test.operand, ast.Name) and prev.test.operand.id == COL \
                                and any(isinstance(y, ast.Return) for y in prev.body):
                            ok = True
        ctx.ob(rule, RES, "Table._compare", sub, "the first cell is looked at only when the column has one", ok, detail={"expression": unparse(enclosing_stmt(sub))[:90]})
    ctx.floor(rule, "first-cell look-ups in Table._compare", n, 3)


def sub_lohis_runs(ctx, rule):
    """the run splitter behind index(), groupby and every indexed where: each yielded range ends at the bisect-right of its first value"""
    sub = ctx.fn(RES, "Table._sub_lohis")
    from ..util import bound_names
    sub = rename_copy(sub, {n: "new_hi" for n in bound_names(sub, lambda v: isinstance(v, ast.Call) and call_name(v) == "my_bisect_right")})
    src = unparse(sub)
    ok = "new_hi = my_bisect_right(col, col[lo], lo, hi)" in src and "yield (lo, new_hi)" in src and "lo = new_hi" in src
    # the end of a run has exactly one definition
    defs = [x for x in ast.walk(sub) if isinstance(x, (ast.Assign, ast.AugAssign)) and any(isinstance(n_, ast.Name) and n_.id == "new_hi" and isinstance(n_.ctx, ast.Store)
                                                                                             for t in (x.targets if isinstance(x, ast.Assign) else [x.target]) for n_ in ast.walk(t))]
    ctx.ob(rule, RES, "Table._sub_lohis", sub, "sub-ranges partition [lo,hi) into maximal runs of equal values, ascending (every run ends at the bisect-right of its first value)", ok and len(defs) == 1, stmt="_sub_lohis")


def index_then_insert(ctx, rule):
    """Table.insert appends without re-sorting and Table.index returns early for the columns a table is already indexed by: rows inserted into an indexed table must
    arrive in index order, otherwise the table claims an order it does not have (bisect look-ups, groupby and where_fin then read wrong ranges)."""
    ctx.rule(rule, "index-then-insert discipline in coba/results/core.py: wherever a function calls <table>.index(..) and afterwards <table>.insert(data) on the same local table, "
                   "the inserted rows are produced in sorted order -- the data expression iterates sorted(..), or the insert sits in a loop over sorted(..)")
    n = 0
    for (rel, qual), fn in sorted(ctx.model.functions.items()):
        if rel != RES:
            continue
        idx = {}
        for c in [c for c in ast.walk(fn) if isinstance(c, ast.Call) and isinstance(c.func, ast.Attribute) and c.func.attr == "index" and isinstance(c.func.value, ast.Name) and c.args]:
            idx.setdefault(c.func.value.id, c.lineno)
        for c in [c for c in ast.walk(fn) if isinstance(c, ast.Call) and isinstance(c.func, ast.Attribute) and c.func.attr == "insert" and isinstance(c.func.value, ast.Name)
                  and c.func.value.id in idx and c.lineno > idx[c.func.value.id]]:
            n += 1
            data_sorted = any(isinstance(g, ast.comprehension) and isinstance(g.iter, ast.Call) and call_name(g.iter) == "sorted" for a_ in c.args for g in ast.walk(a_))
            loop_sorted = any(isinstance(l_, ast.For) and isinstance(l_.iter, ast.Call) and call_name(l_.iter) == "sorted" for l_ in ancestors(c))
            ctx.ob(rule, RES, qual, c, "rows inserted into an already indexed table arrive in sorted order", data_sorted or loop_sorted, detail={"table": c.func.value.id})
    ctx.floor(rule, "inserts into already indexed local tables", n, 4)


def r5_order(ctx, where, arms):
    ctx.rule("C17.R5", "a single-keyword selection is in table order: ranges are visited in ascending (lo,hi) order and each arm returns ascending ranges")
    loops = [x for x in walk_shallow(where) if isinstance(x, ast.For) and unparse(x.iter) == "self._lohis[kw]"]
    cmps = {unparse(c.args[4]) for c in walk_shallow(where) if isinstance(c, ast.Call) and call_tail(c) == "_compare" and len(c.args) == 6 and isinstance(c.args[4], ast.Name)}
    CMP = sorted(cmps)[0] if len(cmps) == 1 else "comparison"  # the operator in force for the current keyword (the parameter, or a per-keyword local)
    ok = len(loops) == 1 and any(isinstance(y, ast.For) and unparse(y.iter) == f"self._compare(lo, hi, self._data[kw], arg, {CMP}, 'bisect')" for y in walk_shallow(loops[0]))
    ctx.ob("C17.R5", RES, "Table.where", loops[0] if loops else where, "index ranges are visited in their stored (ascending) order", ok, stmt="lohis order")
    arm = arms.get("in")
    b, _, _ = _bisect_scan(arm) if arm is not None else (None, None, [])
    it = unparse(b.generators[0].iter) if isinstance(b, ast.ListComp) else ""
    ctx.ob("C17.R5", RES, "Table._compare", b if b is not None else where, "'in' visits its values in ascending order", it.startswith("sorted("), stmt="in: ascending values")
    sub_lohis_runs(ctx, "C17.R5")
    guard = [x for x in walk_shallow(where) if isinstance(x, ast.If) and "kw in self._indexes" in unparse(x.test)]
    ok = len(guard) == 1 and unparse(guard[0].test) == f"kw in self._indexes and {CMP} != 'match' and (not callable(arg))"
    ctx.ob("C17.R5", RES, "Table.where", guard[0] if guard else where, "bisect is used only for index columns, never for match/callables", ok, stmt="bisect guard")


def r7_per_keyword_state(ctx):
    """Each keyword condition of where() is evaluated on its own: nothing decided for one keyword (e.g. the operator of a {op: value} argument)
    may carry over to the next.  A variable that lives across iterations (a parameter or a name bound before the loop) and is re-bound only on
    some paths of the loop body, then read in the body, carries the previous keyword's value into the next iteration."""
    from ..cfg import CFG
    from ..dataflow import stored_names
    ctx.rule("C17.R7", "where(): no loop-carried leak between keyword conditions -- a name that is live into the kwargs loop is not conditionally re-bound and then "
                       "read inside the loop body")
    fn = ctx.fn(RES, "Table.where")
    loops = [x for x in walk_shallow(fn) if isinstance(x, ast.For) and "kwargs" in unparse(x.iter)]
    ctx.floor("C17.R7", "loops over the keyword conditions", len(loops), 1)
    params = {a.arg for a in fn.args.args} | {a.arg for a in fn.args.kwonlyargs}
    for lp in loops:
        targets = {t.id for t in ast.walk(lp.target) if isinstance(t, ast.Name)}
        before = set(params)
        for st in fn.body:
            if st is lp or any(a is lp for a in ast.walk(st)):
                break
            before |= {t.id for x in ast.walk(st) if isinstance(x, (ast.Assign, ast.AugAssign)) for t in ast.walk(x) if isinstance(t, ast.Name) and isinstance(t.ctx, ast.Store)}
        # names stored on every path of one iteration (top-level statements of the body that bind unconditionally)
        always, sometimes = set(), set()
        for st in lp.body:
            names = {t.id for t in ast.walk(st) if isinstance(t, ast.Name) and isinstance(t.ctx, ast.Store)}
            if isinstance(st, (ast.Assign, ast.AnnAssign, ast.AugAssign)):
                always |= names
            else:
                sometimes |= names
        loaded = {t.id for st in lp.body for t in ast.walk(st) if isinstance(t, ast.Name) and isinstance(t.ctx, ast.Load)}
        leaks = sorted(((sometimes - always) & before & loaded) - targets - {"selection"})
        accum = sorted(n_ for n_ in leaks if all(isinstance(parent(t), ast.Attribute) for st in lp.body for t in ast.walk(st) if isinstance(t, ast.Name) and t.id == n_ and isinstance(t.ctx, ast.Load)))
        leaks = [n_ for n_ in leaks if n_ not in accum]
        ctx.ob("C17.R7", RES, "Table.where", lp, "no name carries a per-keyword decision from one keyword condition into the next", not leaks,
               detail={"conditionally re-bound and read": leaks}, stmt="kwargs loop carries no state")


def r8_groupby_level(ctx):
    ctx.rule("C17.R8", "groupby(level) partitions the rows by the index prefix of that level: the key columns are self._indexes[:level] and the row ranges walked "
                       "are the cached ranges of the same `level` parameter in every branch (not of another index position)")
    fn = ctx.fn(RES, "Table.groupby")
    LV = fn.args.args[1].arg
    subs = [x for x in ast.walk(fn) if isinstance(x, ast.Subscript) and unparse(x.value) == "self._lohis"]
    ctx.floor("C17.R8", "range look-ups in Table.groupby", len(subs), 1)
    for x in subs:
        ctx.ob("C17.R8", RES, "Table.groupby", x, "the ranges are those cached for the index position given by the level parameter", unparse(x.slice) == f"self._indexes[{LV}]",
               detail={"looked up": unparse(x.slice)})
    loops = [l for l in ast.walk(fn) if isinstance(l, ast.For)]
    via = {}
    for l in loops:
        it = l.iter
        src = unparse(it)
        if isinstance(it, ast.Name):
            vs = assigned_value(fn, it.id)
            src = unparse(vs[0]) if len(vs) == 1 else "?"
        via[l.lineno] = src
    ok = bool(loops) and all(v == f"self._lohis[self._indexes[{LV}]]" for v in via.values())
    ctx.ob("C17.R8", RES, "Table.groupby", fn, "every branch of groupby walks the same ranges", ok, detail={"loop sources": sorted(set(via.values()))}, stmt="groupby loops")
    cols = [x for x in walk_shallow(fn) if isinstance(x, ast.Assign) and isinstance(x.value, ast.ListComp) and "self._indexes" in unparse(x.value.generators[0].iter)]
    ok = len(cols) == 1 and unparse(cols[0].value.generators[0].iter) == f"self._indexes[:{LV}]"
    ctx.ob("C17.R8", RES, "Table.groupby", cols[0] if cols else fn, "the group key is made of the first `level` index columns", ok, stmt="groupby key columns")


def r9_missing_and_copy(ctx):
    ctx.rule("C17.R9", "scan and bisect agree on missing values: MissingType defines all four order comparisons, consistently with 'Missing sorts after everything' "
                       "(<: False, <=: only when equal, >, >=: True); a copy() of a table does not share mutable column storage with the original")
    c = ctx.model.cls(RES, "MissingType")
    want = {"__lt__": "False", "__gt__": "True", "__ge__": "True", "__le__": None}
    for m, val in want.items():
        f = c.methods.get(m)
        rets = [unparse(r.value) for r in walk_shallow(f) if isinstance(r, ast.Return)] if f is not None else []
        ok = f is not None and len(rets) == 1 and (rets[0] == val if val is not None else rets[0] in (canon("self == other"), "other is None or self is other", "self.__eq__(other)"))
        ctx.ob("C17.R9", RES, f"MissingType.{m}", f if f is not None else c.node if hasattr(c, "node") else None, f"MissingType.{m} is defined and orders Missing after every value", ok,
               detail={"returns": rets}, stmt=f"MissingType.{m}", line=getattr(f, "lineno", 1))
    cp = ctx.fn(RES, "Table.copy")
    made = [k for k in walk_shallow(cp) if isinstance(k, ast.Call) and call_name(k) == "Table" and k.args]
    shares = [k for k in made if unparse(k.args[0]) == "self._data"]
    ctx.ob("C17.R9", RES, "Table.copy", shares[0] if shares else cp, "the copy gets its own column storage (inserting into or re-indexing the copy must not change the original)",
           bool(made) and not shares, detail={"data argument": [unparse(k.args[0]) for k in made]}, stmt="copy shares storage")


def r6_cache_invalidation(ctx):
    """The (lo,hi) ranges of equal index values are cached in an attribute filled from _calc_lohis().  Any method that adds rows must
    drop that cache on every path before it returns, otherwise indexed queries keep answering from the old row ranges."""
    from ..cfg import CFG
    from ..util import escape_path
    ctx.rule("C17.R6", "every path from a statement that adds rows to self._data to a return of the same method passes a reset (or emptiness test) of "
                       "the cached index ranges (the attribute filled from _calc_lohis())")
    cls = ctx.model.cls(RES, "Table")
    caches = set()
    for fn in cls.methods.values():
        for x in ast.walk(fn):
            if isinstance(x, ast.Assign) and "_calc_lohis()" in unparse(x.value):
                caches |= {t.attr for t in x.targets if is_self_attr(t)}
    ctx.floor("C17.R6", "attributes caching _calc_lohis()", len(caches), 1)
    n = 0
    for mname, fn in sorted(cls.methods.items()):
        if mname in ("__init__", "index"):
            continue
        g = CFG(fn)
        adders = []
        for nd in g.nodes:
            if nd.kind != "stmt" or nd.ast is None:
                continue
            for c in walk_shallow(nd.ast):
                if isinstance(c, ast.Call) and call_tail(c) in ("extend", "append", "insert") and "self._data" in unparse(c.func):
                    adders.append(nd)
            if isinstance(nd.ast, ast.Assign) and any(unparse(t).startswith("self._data[") for t in nd.ast.targets):
                adders.append(nd)
        if not adders:
            continue
        via = set()
        for nd in g.nodes:
            if nd.ast is None:
                continue
            if nd.kind == "test" and any(is_self_attr(a) and a.attr in caches for a in ast.walk(nd.ast)):
                via.add(nd.id)
            if nd.kind == "stmt" and isinstance(nd.ast, ast.Assign) and any(is_self_attr(t) and t.attr in caches for t in nd.ast.targets):
                via.add(nd.id)
        seen = set()
        for nd in adders:
            if id(nd.ast) in seen:
                continue
            seen.add(id(nd.ast))
            n += 1
            ctx.touch(RES, f"Table.{mname}")
            p_ = escape_path(g, nd.id, via, {g.exit_return}, skip_labels=("exc", "abandon"))
            ctx.ob("C17.R6", RES, f"Table.{mname}", nd.ast, "rows added here invalidate the cached index ranges before the method returns", p_ is None and bool(via),
                   detail=None if p_ is None else {"path_without_reset": g.describe_path(p_)})
    ctx.floor("C17.R6", "row-adding statements in Table methods", n, 3)
    # the ranges are a function of the current indexes and data: the function that computes them consults no earlier result,
    # and index() stores a fresh computation on every path after it reordered the rows
    for fname in ("_calc_lohis", "_sub_lohis"):
        f = cls.methods.get(fname)
        if f is None:
            continue
        reads = sorted({a.attr for a in ast.walk(f) if is_self_attr(a) and a.attr in caches})
        ctx.ob("C17.R6", RES, f"Table.{fname}", f, "the range computation reads no cached ranges (it cannot hand back ranges computed for an earlier row order)", not reads,
               detail={"reads": reads}, stmt=f"{fname} reads no cache")
    ix = cls.methods["index"]
    g = CFG(ix)
    reorder = [nd for nd in g.nodes if nd.kind == "stmt" and isinstance(nd.ast, ast.Assign) and any(unparse(t).startswith("self._data[") or is_self_attr(t, "_indexes") for t in nd.ast.targets)]
    fresh = {nd.id for nd in g.nodes if nd.kind == "stmt" and isinstance(nd.ast, ast.Assign) and any(is_self_attr(t) and t.attr in caches for t in nd.ast.targets)
             and "_calc_lohis()" in unparse(nd.ast.value)}
    ctx.floor("C17.R6", "statements of Table.index that reorder rows or set the index columns", len(reorder), 2)
    for nd in reorder:
        p_ = escape_path(g, nd.id, fresh, {g.exit_return}, skip_labels=("exc", "abandon"))
        ctx.ob("C17.R6", RES, "Table.index", nd.ast, "after rows were reordered / index columns set, index() stores freshly computed ranges before it returns", p_ is None and bool(fresh),
               detail=None if p_ is None else {"path_without_recompute": g.describe_path(p_)})


def r10_orderable_arguments(ctx, cmpf, rule="C17.R10"):
    """bisect arms order the argument against the column: whatever a scan would merely test for equality / membership must first be made orderable
    (None -> Missing) or be taken off the bisect path (string collections: membership in a string is a substring test)."""
    from ..cfg import CFG, forward
    from ..util import node_ast_for_effects
    ctx.rule(rule, "on the bisect path every my_bisect_* call is reached only after (a) a None argument was replaced by Missing, (b) None members of a collection argument were "
                   "replaced by Missing, and (c) string collections returned through a scan of the range (must-pass on the CFG of Table._compare); the scan arms need none of this")
    METHOD = cmpf.args.args[-1].arg

    def on_bisect_path(test):
        t = canon(unparse(test))
        if t in (canon(f"{METHOD} == 'bisect'"),):
            return True
        if t in (canon(f"{METHOD} != 'bisect'"),):
            return False
        return None
    g = CFG(cmpf, test_eval=on_bisect_path)   # the CFG specialised to calls with method == "bisect"
    A = cmpf.args.args[4].arg if len(cmpf.args.args) > 4 else "arg"

    def facts(node):
        a = node_ast_for_effects(node)
        out = set()
        if a is None:
            return out
        if isinstance(a, ast.Assign) and any(isinstance(t, ast.Name) and t.id == A for t in a.targets):
            v = a.value
            if unparse(v) == "Missing" and any(canon(unparse(t)) == canon(f"{A} is None") and pol for t, pol in all_guards(a, cmpf)):
                out.add("none")
            if isinstance(v, ast.ListComp) and isinstance(v.elt, ast.IfExp) and unparse(v.elt.body) == "Missing" and unparse(v.generators[0].iter) == A \
                    and canon(unparse(v.elt.test)) == canon(f"{unparse(v.generators[0].target)} is None"):
                out.add("members")
        if isinstance(a, ast.Return) and any(isinstance(c, ast.Call) and call_name(c) == "isinstance" and unparse(c.args[0]) == A and unparse(c.args[1]) == "str" and pol
                                             for t, pol in all_guards(a, cmpf) for c in ast.walk(t)):
            out.add("str-scan")
        return out
    # the three normalisation sites exist
    found = set()
    for nd in g.nodes:
        found |= facts(nd)
    for f_, what in (("none", "a None argument is replaced by Missing"), ("members", "None members of a collection argument are replaced by Missing"),
                     ("str-scan", "a string collection is answered by a scan of the range")):
        ctx.ob(rule, RES, "Table._compare", cmpf, f"on the bisect path {what}", f_ in found, stmt=f"normalisation: {f_}")
    # ... and they dominate every bisection: passing the `arg is None` test (either edge) is the witness for (a); for (b)/(c) the guards are value dependent,
    # so the must-pass is on the test nodes themselves
    tests = {"none": lambda t: canon(t) == canon(f"{A} is None"), "str": lambda t: "isinstance" in t and "str" in t and A in t,
             "nan": lambda t: canon(f"{A} != {A}") in canon(t)}
    nan_scan = [r for r in ast.walk(cmpf) if isinstance(r, ast.Return) and any(canon(f"{A} != {A}") in canon(unparse(t)) and pol for t, pol in all_guards(r, cmpf))
                and any(isinstance(c, ast.Call) and call_tail(c) == "_compare" for c in ast.walk(r))]
    ctx.ob(rule, RES, "Table._compare", (nan_scan or [cmpf])[0], "on the bisect path a NaN argument (or a collection holding one) is answered by the scan arms over the range", bool(nan_scan), stmt="normalisation: nan")

    def transfer(node, st, label):
        if label in ("exc", "abandon"):
            return st
        if node.kind == "test" and node.ast is not None:
            t = unparse(node.ast)
            st = st | {k for k, f_ in tests.items() if f_(t)}
        return st
    IN = forward(g, frozenset(), transfer, lambda a, b: a & b)
    n = 0
    for nd in g.nodes:
        a = node_ast_for_effects(nd)
        if a is None or nd.id not in IN:
            continue
        for c in [c for c in ast.walk(a) if isinstance(c, ast.Call) and (call_name(c) or "").startswith("my_bisect")]:
            n += 1
            ctx.ob(rule, RES, "Table._compare", c, "the bisection is reached only after the None / string-collection tests of the bisect path", {"none", "str", "nan"} <= set(IN[nd.id]),
                   detail={"passed": sorted(IN[nd.id])})
    ctx.floor(rule, "bisection calls in Table._compare", n, 10)


def r11_view_composition(ctx, rule="C17.R11"):
    """a where() of a where() result selects rows of the parent view: View.__init__ composes the two selections (slice or index list each) pointwise."""
    ctx.rule(rule, "view composition: for each of the four (given selection, parent selection) kinds in View.__init__ the composed selection is child[k] = parent[given[k]] -- the arm "
                   "expression is folded over small concrete selections (contiguous and NON-contiguous, empty included) and compared with the pointwise composition")
    fn = ctx.fn(RES, "View.__init__")
    arms = []
    for st in ast.walk(fn):
        if isinstance(st, ast.If) and isinstance(st.test, ast.BoolOp) and isinstance(st.test.op, ast.And) and len(st.test.values) == 2:
            names = []
            for v in st.test.values:
                neg = isinstance(v, ast.UnaryOp) and isinstance(v.op, ast.Not)
                nm = unparse(v.operand if neg else v)
                names.append((nm, not neg))
            asg = [b for b in st.body if isinstance(b, ast.Assign) and any(is_self_attr(t, "_select") for t in b.targets)]
            if asg:
                arms.append((dict(names), asg[0]))
    ctx.floor(rule, "selection-composing arms of View.__init__", len(arms), 4)
    flags = {}
    for st in walk_shallow(fn):
        pass
    # which flag names mean what: bound from isinstance(select, slice) / isinstance(data._select, slice)
    GIVEN = PARENT = None
    for x in ast.walk(fn):
        if isinstance(x, ast.Assign) and isinstance(x.value, ast.Call) and call_name(x.value) == "isinstance" and unparse(x.value.args[1]) == "slice" and isinstance(x.targets[0], ast.Name):
            if unparse(x.value.args[0]) == "select":
                GIVEN = x.targets[0].id
            elif unparse(x.value.args[0]).endswith("._select"):
                PARENT = x.targets[0].id
    if GIVEN is None or PARENT is None:
        ctx.ob(rule, RES, "View.__init__", fn, "the kind flags of the two selections were located", None, stmt="kind flags")
        return

    class Sub(ast.NodeTransformer):
        def visit_Attribute(self, node):
            if unparse(node).endswith("data._select"):
                return ast.copy_location(ast.Name(id="P", ctx=ast.Load()), node)
            return self.generic_visit(node)

        def visit_Name(self, node):
            return ast.copy_location(ast.Name(id="S", ctx=ast.Load()), node) if node.id == "select" else node

        def visit_Call(self, node):
            if unparse(node.func) == "View._try_slice" and len(node.args) == 1:
                return self.visit(node.args[0])
            return self.generic_visit(node)

    def as_list(sel, n=12):
        return list(range(n))[sel] if isinstance(sel, slice) else list(sel)
    parents = {True: [slice(2, 9), slice(0, 5)], False: [[1, 3, 4, 8, 9, 11], [0, 2], [5]]}
    for kinds, asg in arms:
        g, p_ = kinds.get(GIVEN), kinds.get(PARENT)
        if g is None or p_ is None:
            continue
        bad = None
        expr = Sub().visit(ast.parse(unparse(asg.value), mode="eval").body)
        code = compile(ast.fix_missing_locations(ast.Expression(expr)), "<arm>", "eval")
        for P in parents[p_]:
            plist = as_list(P)
            givens = ([slice(0, len(plist)), slice(1, max(1, len(plist) - 1)), slice(0, 0)] if g else
                      [[i for i in range(len(plist)) if i % 2 == 0], [i for i in range(len(plist)) if i in (0, len(plist) - 1)], list(range(len(plist))), []])
            for S in givens:
                want = [plist[i] for i in as_list(S, len(plist))]
                try:
                    got = as_list(eval(code, {"__builtins__": {}, "slice": slice, "range": range, "len": len, "list": list}, {"P": P, "S": S}))   # folding of a pure selection expression
                except Exception as e:
                    got = f"{type(e).__name__}"
                if got != want and bad is None:
                    bad = {"parent": repr(P), "given": repr(S), "composed": got if isinstance(got, str) else got[:8], "pointwise": want[:8]}
        ctx.ob(rule, RES, "View.__init__", asg, f"given {'slice' if g else 'list'} over parent {'slice' if p_ else 'list'} composes pointwise", bad is None, detail=bad,
               stmt=f"compose given={'slice' if g else 'list'} parent={'slice' if p_ else 'list'}")


def r12_missing_hash(ctx, rule="C17.R9"):
    mt = ctx.model.cls(RES, "MissingType")
    h, e = mt.methods.get("__hash__"), mt.methods.get("__eq__")
    ok = h is not None and e is not None and any(isinstance(r, ast.Return) and unparse(r.value) == "hash(None)" for r in ast.walk(h)) and "other is None" in unparse(e)
    ctx.ob(rule, RES, "MissingType.__hash__", h or mt.node, "Missing == None, so hash(Missing) == hash(None): membership of a missing cell in a set/dict argument holding None agrees with equality "
           "(the scan arms of 'in' / '!in' use `c in arg`)", ok, stmt="hash agrees with eq")


def _drop_le(tree):
    from ..mutate import find_def
    c = find_def(tree, "MissingType")
    c.body = [st for st in c.body if not (isinstance(st, ast.FunctionDef) and st.name in ("__le__", "__ge__"))]


CONTROLS = [
    ("match decides from the first cell of an empty column", RES, M.delete_stmt("Table._compare", lambda st: isinstance(st, ast.If) and ast.unparse(st.test) == "not col"), "C17.R17"),
    ("group keys read from the leading columns", RES, M.replace_expr("Table.groupby", "self._indexes[:level]", "self._columns[:level]"), "C17.R16"),
    ("keyword union de-duplicated but not sorted", RES, M.replace_expr("Table.where", "sorted(set(selection))", "list(dict.fromkeys(selection))"), "C17.R16"),
    ("rows iterate in storage order", RES, M.replace_expr("Table.__iter__", "zip(*self[:])", "zip(*self._data.values())"), "C17.R15"),
    ("declared indexes re-ordered by column order", RES, M.replace_expr("Table.__init__", "tuple(indexes)", "tuple((c for c in self._columns if c in indexes))"), "C17.R14"),
    ("from_logged_envs indexes its empty tables first", RES, M.insert_before("Result.from_logged_envs", lambda st: isinstance(st, ast.FunctionDef), "int_table.index('environment_id', 'learner_id', 'evaluator_id', 'index')"), "C17.R13"),
    ("NaN arguments are bisected", RES, M.delete_stmt("Table._compare", M.text_has("arg != arg")), "C17.R10"),
    ("a list selection over a list view taken as one run", RES, M.replace_expr("View.__init__", "[data._select[i] for i in select]", "data._select[select[0]:select[-1] + 1] if select else []"), "C17.R11"),
    ("Missing hashes unlike None", RES, M.replace_expr("MissingType.__hash__", "hash(None)", "hash(MissingType)"), "C17.R9"),
    ("None is bisected as it is", RES, M.replace_stmt("Table._compare", M.text_has("if arg is None: arg = Missing"), "if is_collection: arg = [Missing if a is None else a for a in arg]"), "C17.R10"),
    ("ranges reused when the index column set is unchanged", RES, M.insert_after("Table._calc_lohis", M.text_has("if not self._indexes"),
        "if self._lohis and self._lohis.keys() == set(self._indexes): return self._lohis"), "C17.R6"),
    ("Missing without <= and >=", RES, _drop_le, "C17.R9"),
    ("bisect shortcut probes an empty range", RES, M.replace_expr("my_bisect_left", "l < h and c[l] == a", "c[l] == a"), "C17.R2"),
    ("groupby walks the finest ranges", RES, M.replace_expr("Table.groupby", "self._lohis[self._indexes[level]]", "self._lohis[self._indexes[-1]]", nth=0, count=4), "C17.R8"),
    ("operator of a dict argument leaks to later keywords", RES, M.chain(
        M.replace_stmt("Table.where", M.text_has("kw_comparison = next(iter(arg.keys())) if isinstance(arg, dict) else comparison"), "if isinstance(arg, dict): comparison = next(iter(arg.keys()))"),
        M.replace_expr("Table.where", "kw_comparison", "comparison", count=3)), "C17.R7"),
    ("row-list inserts keep the cached ranges", RES, M.chain(M.delete_stmt("Table.insert", M.text_has("if self._lohis: self._lohis = {}")),
                                                          M.insert_after("Table.insert", M.text_has("self._columns += tuple(sorted(new_cols))"), "if self._lohis: self._lohis = {}")), "C17.R6"),
    ("bisect fallback skips first row", RES, M.replace_expr("my_bisect_left", "bisect_left(c, a, l, h)", "bisect_left(c, a, l + 1, h)"), "C17.R2"),
    ("swap bisects in <=", RES, M.replace_expr("Table._compare", "[(lo, my_bisect_right(col, arg, lo, hi))]", "[(lo, my_bisect_left(col, arg, lo, hi))]"), "C17.R2"),
    ("scan > becomes >=", RES, M.replace_expr("Table._compare", "c > arg", "c >= arg"), "C17.R2"),
    ("unsorted union", RES, M.replace_expr("Table.where", "sorted(set(selection))", "selection"), "C17.R3"),
    ("drop operator from Literal", RES, lambda tree: _drop_literal(tree), "C17.R1"),
    ("bisect for unindexed column", RES, M.replace_expr("Table.where", "kw in self._indexes and kw_comparison != 'match' and (not callable(arg))", "kw_comparison != 'match' and (not callable(arg))"), "C17.R5"),
    ("index forgets a column", RES, M.replace_expr("Table.index", "self._data.keys() - set(indx)", "set()"), "C17.R4"),
]


def _drop_literal(tree):
    from ..mutate import find_def, TargetMissing
    fn = find_def(tree, "Table.where")
    for a in fn.args.args:
        if a.arg == "comparison":
            for n in ast.walk(a.annotation):
                if isinstance(n, ast.Tuple) and any(isinstance(e, ast.Constant) and e.value == ">=" for e in n.elts):
                    n.elts = [e for e in n.elts if not (isinstance(e, ast.Constant) and e.value == ">=")]
                    return
    raise TargetMissing("Literal")
