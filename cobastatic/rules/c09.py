"""C09 -- ordering / selection filters (DESIGN.md 5/C09).

Decided: no such filter alters or replaces an interaction; randomness is a function of the seed
only; Where's peek covers its bounds; nullable parameters are not order-compared; the
two-sided range test; Batch/Unbatch build every key from the same batch / index.
Not decided: that Shuffle/Riffle/Reservoir outputs are permutations / samples (algorithmic).
"""
import ast

from ..model import walk_shallow, call_name, is_self_attr, dotted_name, parent, ancestors, enclosing_function
from ..util import (has_call, find_calls, assigned_value, const_str, unparse, kw, arg_or_kw, enclosing_stmt,
                    guards_of, call_tail, control_ancestors, name_bound, bound_names)
from .. import mutate as M
from . import c04

TECHNIQUE = 'static analysis: boundary rules on selection predicates (closed/open ends), rng-lifetime + freshness rules, replay-buffer typestate, key-order preservation rule for Sort, peek-size proof obligation'

EXPLANATION = ("Rules over Shuffle/Take/Slice/Reservoir/Where/Sort/Riffle/Chunk/Params/Identity/Cache/Batch/Unbatch: "
               "freshness dataflow shows every output is an input element (or the documented copy) and no element is "
               "mutated; per-call CobaRandom(self._seed); abstract evaluation of Where's peek size over the four "
               "None-patterns of (min,max); nullable constructor parameters are never operands of an order comparison "
               "without a None test on the path; _in_min_max is two-sided; Batch and Unbatch index every key uniformly.")
EXPLANATION += " R1 also: pipes.Cache replay-buffer protocol; R2: one fresh generator per filter() call; R7: Sort keeps the caller's key order."
EXPLANATION += " R2 also: environments.Shuffle never re-binds its seed; R8: Cache/Chunk/Densify instances are per environment; R9: Reservoir's uniforms cannot reach log()/power base as 0."

EF = "coba/environments/filters.py"
PF = "coba/pipes/filters.py"
SELECTORS = [(PF, "Identity"), (PF, "Shuffle"), (PF, "Take"), (PF, "Slice"), (PF, "Reservoir"), (EF, "Shuffle"), (EF, "Sort"),
             (EF, "Where"), (EF, "Riffle"), (EF, "Params"), (EF, "Chunk")]


def run(ctx):
    r1_preservation(ctx)
    r2_seed_only(ctx)
    r3_where_peek(ctx)
    r4_nullable(ctx)
    r5_two_sided(ctx)
    r6_batch_unbatch(ctx)
    r7_sort_keys(ctx)
    r8_cache_per_environment(ctx)
    r9_reservoir_zero_uniform(ctx)
    r10_scalar_contexts(ctx)
    r11_counts(ctx)
    c04.r6_replay_buffer(ctx, rule="C09.R1")
    r12_scalar_zero_is_a_feature(ctx)
    r13_bounds_stored_as_given(ctx)


def r13_bounds_stored_as_given(ctx, rule="C09.R13"):
    """0 is a legal count / bound (Take(0), Slice(x, 0) are empty): a constructor that stores `<bound> or <default>` turns it into 'no bound'."""
    ctx.rule(rule, "the selection filters store their numeric parameters as given: no constructor of Take / Slice / Reservoir / Where binds an attribute to "
                   "`<parameter> or <something>` or to a conditional on the parameter's truth")
    n = 0
    # (Batch is not in the table: a batch size of 0 MEANS 'do not batch' there, `batch_size or None` is its documented reading)
    for rel, cname in [(PF, "Take"), (PF, "Slice"), (PF, "Reservoir"), (EF, "Where"), (EF, "Take"), (EF, "Slice"), (EF, "Reservoir")]:
        if not ctx.model.has_func(rel, f"{cname}.__init__"):
            continue
        init = ctx.fn(rel, f"{cname}.__init__")
        params = {a.arg for a in init.args.args[1:]}
        for st in [x for x in walk_shallow(init) if isinstance(x, ast.Assign) and any(is_self_attr(t) for t in x.targets)]:
            n += 1
            v = st.value
            by_truth = (isinstance(v, ast.BoolOp) and isinstance(v.op, ast.Or) and isinstance(v.values[0], ast.Name) and v.values[0].id in params) or \
                       (isinstance(v, ast.IfExp) and isinstance(v.test, ast.Name) and v.test.id in params) or \
                       (isinstance(v, ast.IfExp) and isinstance(v.test, ast.UnaryOp) and isinstance(v.test.op, ast.Not) and isinstance(v.test.operand, ast.Name) and v.test.operand.id in params)
            numeric = any(isinstance(x, ast.Name) and x.id in params and any(k in x.id.lower() for k in ("start", "stop", "step", "count", "n_", "size", "min", "max")) or
                          (isinstance(x, ast.Name) and x.id in ("n", "count")) for x in ast.walk(v))
            if by_truth and numeric:
                ctx.ob(rule, rel, f"{cname}.__init__", st, "a count / bound is stored as given (0 is a value, not 'absent')", False, detail={"stored": unparse(v)})
            else:
                ctx.ob(rule, rel, f"{cname}.__init__", st, "a count / bound is stored as given (0 is a value, not 'absent')", True, trivial=True)
    ctx.floor(rule, "attribute bindings in the selection filters' constructors", n, 6)


def r12_scalar_zero_is_a_feature(ctx, rule="C09.R12"):
    """Where(n_features=...) counts the features of the first context: a scalar context 0 / 0.0 / False / '' is ONE feature; only None and empty containers are none."""
    ctx.rule(rule, "Where._context_len never takes the falsiness of a context for its absence: wherever the context is tested for truth (`if not c`, `c or ..`, `.. if c else ..`) "
                   "the same test also admits `c == 0` (the form `c or c == 0`)")
    fn = ctx.fn(EF, "Where._context_len")
    from ..util import bound_names
    names = set(bound_names(fn, lambda v: isinstance(v, ast.Call) and call_tail(v) == "get" and v.args and const_str(v.args[0]) == "context")) or {"context"}
    n = 0
    for x in ast.walk(fn):
        tests = []
        if isinstance(x, (ast.If, ast.IfExp, ast.While)):
            tests.append(x.test)
        elif isinstance(x, ast.BoolOp) and not isinstance(parent(x), (ast.If, ast.IfExp, ast.While, ast.BoolOp, ast.UnaryOp)):
            tests.append(x)
        for t in tests:
            bare = [y for y in ast.walk(t) if isinstance(y, ast.Name) and y.id in names and isinstance(parent(y), (ast.BoolOp, ast.UnaryOp, ast.If, ast.IfExp, ast.While))
                    and not (isinstance(parent(y), (ast.If, ast.IfExp, ast.While)) and parent(y).test is not y)]
            if not bare:
                continue
            n += 1
            admits_zero = any(isinstance(c, ast.Compare) and len(c.ops) == 1 and isinstance(c.ops[0], ast.Eq) and {unparse(c.left), unparse(c.comparators[0])} & names
                              and {unparse(c.left), unparse(c.comparators[0])} & {"0", "0.0"} for c in ast.walk(t))
            ctx.ob(rule, EF, "Where._context_len", t, "a truth test of the context also admits the scalar 0 (a scalar context is one feature whatever its value)", admits_zero, detail={"test": unparse(t)})
    ctx.floor(rule, "truth tests of the context in Where._context_len", n, 1)


# ------------------------------------------------------------------------------------------ R1
def r1_preservation(ctx):
    ctx.rule("C09.R1", "every value a selection/ordering filter yields or returns is an element of (or a stream over) its "
                       "input -- never a new or modified interaction; container mutations only hit lists built in the call")
    n = 0
    for rel, cname in SELECTORS:
        qual = f"{cname}.filter"
        if not ctx.model.has_func(rel, qual):
            c = ctx.model.cls(rel, cname)
            ctx.ob("C09.R1", rel, cname, c.node, "filter is inherited unchanged from its pipes base class", True, stmt=f"{cname} inherits filter", trivial=True)
            continue
        fn = ctx.fn(rel, qual)
        params = [a.arg for a in fn.args.args if a.arg != "self"]
        fr = c04.Fresh(fn, params)
        outs = []
        for node in fr.cfg.nodes:
            if node.kind != "stmt" or node.id not in fr.IN or node.ast is None:
                continue
            a = node.ast
            if isinstance(a, ast.Return) and a.value is not None:
                outs.append((node, a.value, "return"))
            if isinstance(a, ast.Expr) and isinstance(a.value, (ast.Yield, ast.YieldFrom)) and a.value.value is not None:
                outs.append((node, a.value.value, "yield from" if isinstance(a.value, ast.YieldFrom) else "yield"))
        seen = set()
        for node, v, how in outs:
            if id(v) in seen:
                continue
            seen.add(id(v))
            n += 1
            ok, why = _is_input_derived(fr, v, fr.IN[node.id], how)
            ctx.ob("C09.R1", rel, qual, v, f"{how} value is an input element / a stream over input elements", ok, detail={"why": why})
    ctx.floor("C09.R1", "outputs of selection filters", n, 12)
    # no element mutation in these filters (freshness analysis of C04.R3 restricted to them)
    c04.r3_copy_before_mutate(ctx, rule="C09.R1", only={c for _, c in SELECTORS} | {"Cache", "Batch", "Unbatch"})
    # pipes.Cache replays exactly what it read: the replay-buffer protocol (c04.r6_replay_buffer) is run under this rule id by run()


def _is_input_derived(fr, v, st, how):
    if isinstance(v, ast.IfExp):
        a = _is_input_derived(fr, v.body, st, how)
        b = _is_input_derived(fr, v.orelse, st, how)
        return a[0] and b[0], f"{a[1]} | {b[1]}"
    if isinstance(v, (ast.List, ast.Tuple)) and not v.elts:
        return True, "empty"
    k = fr.kind_level(v, st)
    if k is not None:
        if k[0] in ("stream",) and k[1] == c04.B:
            return True, "stream of input elements"
        if k[0] == "obj" and k[1] == c04.B:
            return True, "an input element"
        return False, f"{k[0]} at freshness {k[1]} (a new object, not an input element)"
    if isinstance(v, ast.Call):
        tail = call_tail(v)
        if tail in ("shuffle",) and v.args:
            return _is_input_derived(fr, v.args[0], st, how)
        if tail == "filter" and isinstance(v.func, ast.Attribute) and unparse(v.func.value) == "super()" and v.args:
            return _is_input_derived(fr, v.args[0], st, how)
        if call_name(v) == "sorted" and v.args:
            return _is_input_derived(fr, v.args[0], st, how)
    if isinstance(v, ast.Name) and v.id not in st:
        return False, f"{v.id} is not derived from the input"
    return False, "not recognised as derived from the input: " + unparse(v)[:80]


# ------------------------------------------------------------------------------------------ R2
def r2_seed_only(ctx):
    ctx.rule("C09.R2", "Shuffle/Reservoir/Riffle draw only from CobaRandom(self._seed) constructed in the call")
    fam = {k: c for k, c in c04.family(ctx).items() if c.name in ("Shuffle", "Reservoir", "Riffle")}
    c04.r4_fresh_rng(ctx, fam, rule="C09.R2", only={"Shuffle", "Reservoir", "Riffle"})
    # the seed itself must be the same on every read: any rewrite of self state on the read path is restored in a finally
    c04.r2_cross_read_state(ctx, fam, rule="C09.R2", only={"Shuffle", "Reservoir", "Riffle"})
    n = 0
    for (rel, qual) in ((PF, "Shuffle.filter"), (PF, "Reservoir.filter"), (EF, "Riffle.filter")):
        fn = ctx.fn(rel, qual)
        for c in walk_shallow(fn):
            if isinstance(c, ast.Call) and call_name(c) == "CobaRandom":
                n += 1
                ok = len(c.args) == 1 and unparse(c.args[0]) == "self._seed"
                ctx.ob("C09.R2", rel, qual, c, "the generator is seeded with exactly the filter's seed", ok)
    ctx.floor("C09.R2", "Shuffle/Reservoir/Riffle filter methods examined", 3, 3)
    for (rel, qual) in ((PF, "Shuffle"), (PF, "Reservoir"), (EF, "Riffle")):
        c = ctx.model.cls(rel, qual)
        made = [x for x in walk_shallow(c.methods["filter"]) if isinstance(x, ast.Call) and call_name(x) == "CobaRandom"]
        ctx.ob("C09.R2", rel, f"{qual}.filter", c.methods["filter"], "the generator is created inside filter() (one fresh generator per call)", bool(made), stmt=f"{qual}: generator per call")
    for rel, qual in ((PF, "Shuffle.__init__"), (PF, "Reservoir.__init__"), (EF, "Riffle.__init__")):
        f = ctx.fn(rel, qual)
        st = [x for x in walk_shallow(f) if isinstance(x, ast.Assign) and any(is_self_attr(t, "_seed") for t in x.targets)]
        ctx.ob("C09.R2", rel, qual, st[0] if st else f, "self._seed is the constructor's seed", len(st) == 1 and unparse(st[0].value) == "seed", stmt="self._seed store")
    # environments.Shuffle: the documented seed change for logged data is a pure function of the seed, and the seed itself is never re-bound
    fn = ctx.fn(EF, "Shuffle.filter")
    stores = [x for x in ast.walk(fn) if isinstance(x, (ast.Assign, ast.AugAssign)) and any(is_self_attr(t, "_seed") for t in (x.targets if isinstance(x, ast.Assign) else [x.target]))]
    ctx.ob("C09.R2", EF, "Shuffle.filter", stores[0] if stores else fn, "environments.Shuffle never re-binds its own seed while reading (overlapping or abandoned reads cannot disturb later ones)",
           not stores, stmt="Shuffle.filter leaves self._seed alone")
    # "fully determined by the seed": the generator itself consults the clock only for seed None and never tests a seed for truthiness
    from . import c05
    c05.r2_time_guard(ctx, rule="C09.R2")
    ctx.rules["C09.R2"] = "Shuffle/Reservoir/Riffle draw only from CobaRandom(self._seed) constructed in the call; CobaRandom consults the clock only for seed None"
    gens = [c for c in walk_shallow(fn) if isinstance(c, ast.Call) and call_name(c) == "CobaRandom"]
    for c in gens:
        srcs = [c.args[0]] if c.args and not isinstance(c.args[0], ast.Name) else (assigned_value(fn, c.args[0].id) if c.args else [])
        ok = bool(srcs) and all({x.id for x in ast.walk(v) if isinstance(x, ast.Name)} <= {"self"} and "self._seed" in unparse(v) for v in srcs)
        ctx.ob("C09.R2", EF, "Shuffle.filter", c, "the seed used for logged data is a function of self._seed only", ok, stmt="new_seed")


# ------------------------------------------------------------------------------------------ R3
def r3_where_peek(ctx):
    ctx.rule("C09.R3", "Where.filter peeks enough interactions to decide both bounds: abstract evaluation of the peek size for the "
                       "four None-patterns of (min,max); whenever max is given the peek exceeds max")
    fn = ctx.fn(EF, "Where.filter")
    peeks = [c for c in walk_shallow(fn) if isinstance(c, ast.Call) and call_name(c) == "peek_first"]
    FIRSTN = unparse(kw(peeks[0], "n")) if peeks and kw(peeks[0], "n") is not None else "firstn"
    vals = assigned_value(fn, FIRSTN)
    ctx.floor("C09.R3", "peek size definition", len(vals), 1)
    e = vals[0]
    global NINT
    stars = [x for x in ast.walk(e) if isinstance(x, ast.Starred)]
    NINT = unparse(stars[0].value) if stars else "n_int"
    nint_src = [unparse(v) for v in assigned_value(fn, NINT)]
    ctx.ob("C09.R3", EF, "Where.filter", e, "the bounds used for the peek are the filter's n_interactions (as a [min,max] pair)",
           bool(nint_src) and nint_src[0] == "self._n_interactions" and any("* 2" in v for v in nint_src), detail={"bounds": nint_src}, stmt="peek bounds source")
    ok = len(peeks) == 1 and kw(peeks[0], "n") is not None and \
        kw(peeks[0], "reduce") is not None and unparse(kw(peeks[0], "reduce")) == "False"
    ctx.ob("C09.R3", EF, "Where.filter", peeks[0] if peeks else fn, "the environment is peeked firstn items deep (as a list)", ok, stmt="peek_first(n=firstn)")
    for pat in (("m", "M"), ("m", None), (None, "M"), (None, None)):
        res = _eval_peek(e, pat)
        if res is None:
            ok, d = False, "peek-size expression not of a recognised form"
        else:
            base, plus = res  # peek = plus + base, base in {'m','M','0'}
            need = "M" if pat[1] else ("m" if pat[0] else "0")
            # with min <= max: peeking past M also decides min
            ok = (base == need and plus >= 1) if pat[1] else (base in (need,) and plus >= (0 if pat[0] else 0))
            d = f"peek = {plus}+{base}; needed: more than {need}" if pat[1] else f"peek = {plus}+{base}; needed: at least {need}"
        ctx.ob("C09.R3", EF, "Where.filter", e, f"peek size decides n_interactions=({pat[0] or None},{pat[1] or None})", ok, detail=d,
               stmt=f"peek for ({'min' if pat[0] else None},{'max' if pat[1] else None})")
    peeked = [x for x in walk_shallow(fn) if isinstance(x, ast.Assign) and isinstance(x.targets[0], ast.Tuple) and x.value is (peeks[0] if peeks else None)]
    FIRST = unparse(peeked[0].targets[0].elts[0]) if peeked else "first"
    tests = [c for c in walk_shallow(fn) if isinstance(c, ast.Call) and call_tail(c) == "_in_min_max" and c.args and unparse(c.args[0]) == f"len({FIRST})"]
    ok = len(tests) == 1 and unparse(tests[0].args[1]) == f"*{NINT}"
    ctx.ob("C09.R3", EF, "Where.filter", tests[0] if tests else fn, "the peeked length is compared with (min,max)", ok, stmt="len(first) in (min,max)")


def _eval_peek(e, pat):
    """abstractly evaluate `1 + next((v for v in [*n_int, 0] if v is not None))` / `1 + max(...)` for n_int = pat."""
    plus = 0
    inner = e
    if isinstance(e, ast.BinOp) and isinstance(e.op, ast.Add):
        if isinstance(e.left, ast.Constant) and isinstance(e.left.value, int):
            plus, inner = e.left.value, e.right
        elif isinstance(e.right, ast.Constant) and isinstance(e.right.value, int):
            plus, inner = e.right.value, e.left
    if not (isinstance(inner, ast.Call) and call_name(inner) in ("next", "max") and inner.args):
        return None
    g = inner.args[0]
    if not isinstance(g, (ast.GeneratorExp, ast.ListComp)) or len(g.generators) != 1:
        return None
    gen = g.generators[0]
    if unparse(g.elt) != unparse(gen.target) or [unparse(i) for i in gen.ifs] != [f"{unparse(gen.target)} is not None"]:
        return None
    it = gen.iter
    if not isinstance(it, (ast.List, ast.Tuple)):
        return None
    seq = []
    for el in it.elts:
        if isinstance(el, ast.Starred) and unparse(el.value) == NINT:
            seq += [pat[0], pat[1]]
        elif isinstance(el, ast.Constant) and el.value == 0:
            seq.append("0")
        else:
            return None
    seq = [s for s in seq if s is not None]
    if not seq:
        return None
    if call_name(inner) == "next":
        return seq[0], plus
    order = {"0": 0, "m": 1, "M": 2}  # 0 <= min <= max
    return max(seq, key=lambda s: order[s]), plus


# ------------------------------------------------------------------------------------------ R4
ORDER_OPS = (ast.Lt, ast.LtE, ast.Gt, ast.GtE)
NINT = "n_int"


def _nullable_fields(ctx, c):
    """self._X fields whose constructor parameter may be None (Optional annotation, None default, or an explicit
    `(p is None) or ...` validation)."""
    out = set()
    for k in ctx.model.mro(c):
        init = k.methods.get("__init__")
        if init is None:
            continue
        params = init.args.args[1:]
        defaults = [None] * (len(params) - len(init.args.defaults)) + list(init.args.defaults)
        nullable = set()
        for p, d in zip(params, defaults):
            ann = unparse(p.annotation) if p.annotation is not None else ""
            if "Optional" in ann or (isinstance(d, ast.Constant) and d.value is None):
                nullable.add(p.arg)
        for x in walk_shallow(init):
            if isinstance(x, ast.Compare) and isinstance(x.ops[0], ast.Is) and isinstance(x.comparators[0], ast.Constant) \
                    and x.comparators[0].value is None and isinstance(x.left, ast.Name):
                nullable.add(x.left.id)
        for x in walk_shallow(init):
            if isinstance(x, ast.Assign) and isinstance(x.value, ast.Name) and x.value.id in nullable:
                for t in x.targets:
                    if is_self_attr(t):
                        out.add(t.attr)
        break
    return out


def _none_guarded(cmp_node, operand_txt, fn):
    """is there a test implying `operand is not None` that must have succeeded before cmp_node is evaluated?"""
    cur = cmp_node
    for a in ancestors(cmp_node):
        if isinstance(a, ast.BoolOp):
            idx = next((i for i, v in enumerate(a.values) if cur is v or cur in list(ast.walk(v))), None)
            if idx is not None:
                for v in a.values[:idx]:
                    t = unparse(v)
                    if isinstance(a.op, ast.Or) and t == f"{operand_txt} is None":
                        return True
                    if isinstance(a.op, ast.And) and t in (f"{operand_txt} is not None", operand_txt):
                        return True
        if isinstance(a, ast.IfExp):
            t = unparse(a.test)
            if (cur is a.body or cur in list(ast.walk(a.body))) and t in (f"{operand_txt} is not None", operand_txt):
                return True
            if (cur is a.orelse or cur in list(ast.walk(a.orelse))) and t == f"{operand_txt} is None":
                return True
        if a is fn:
            break
        cur = a
    for t, pol in guards_of(enclosing_stmt(cmp_node), fn):
        tt = unparse(t)
        if (tt == f"{operand_txt} is None" and not pol) or (tt in (f"{operand_txt} is not None", operand_txt) and pol):
            return True
        if pol and isinstance(t, ast.BoolOp) and isinstance(t.op, ast.And) and any(unparse(v) in (f"{operand_txt} is not None",) for v in t.values):
            return True
    return False


def r4_nullable(ctx):
    ctx.rule("C09.R4", "a field the constructor accepts as None is never an operand of <, <=, >, >= without a None test on the path")
    n = 0
    targets = [(PF, "Take"), (PF, "Slice"), (PF, "Reservoir"), (PF, "Shuffle"), (EF, "Where"), (EF, "Riffle")]
    for rel, cname in targets:
        c = ctx.model.cls(rel, cname)
        nullable = _nullable_fields(ctx, c)
        for mname, fn in c.methods.items():
            if mname in ("__init__", "params"):
                continue
            qual = f"{cname}.{mname}"
            params_nullable = {a.arg for a in fn.args.args if a.annotation is not None and "Optional" in unparse(a.annotation)}
            for x in walk_shallow(fn):
                if not (isinstance(x, ast.Compare) and any(isinstance(o, ORDER_OPS) for o in x.ops)):
                    continue
                for operand in [x.left] + list(x.comparators):
                    txt = unparse(operand)
                    is_null = (is_self_attr(operand) and operand.attr in nullable) or (isinstance(operand, ast.Name) and operand.id in params_nullable)
                    if isinstance(operand, ast.Name) and not is_null:
                        vals = assigned_value(fn, operand.id)
                        if vals and all(is_self_attr(v) and v.attr in nullable for v in vals):
                            is_null = True
                    if not is_null:
                        continue
                    n += 1
                    ok = _none_guarded(x, txt, fn)
                    ctx.ob("C09.R4", rel, qual, x, f"nullable `{txt}` is order-compared only after a None test", ok)
    ctx.floor("C09.R4", "order comparisons on nullable parameters", n, 2)


# ------------------------------------------------------------------------------------------ R5
def r5_two_sided(ctx):
    ctx.rule("C09.R5", "Where._in_min_max tests both bounds: (min is None or min <= v) and (max is None or v <= max)")
    fn = ctx.fn(EF, "Where._in_min_max")
    rets = [r for r in walk_shallow(fn) if isinstance(r, ast.Return) and r.value is not None]
    ok = False
    d = {}
    if len(rets) == 1 and isinstance(rets[0].value, ast.BoolOp) and isinstance(rets[0].value.op, ast.And) and len(rets[0].value.values) == 2:
        names = [a.arg for a in fn.args.args[1:]]
        v, lo, hi = names[0], names[1], names[2]
        forms = []
        for part, bound, accept in zip(rets[0].value.values, (lo, hi), ((f"{lo} <= {v}", f"{v} >= {lo}"), (f"{v} <= {hi}", f"{hi} >= {v}"))):
            f = isinstance(part, ast.BoolOp) and isinstance(part.op, ast.Or) and len(part.values) == 2 and \
                unparse(part.values[0]) == f"{bound} is None" and unparse(part.values[1]) in accept
            forms.append(f)
        ok = all(forms)
        d = {"parts": [unparse(p) for p in rets[0].value.values]}
    ctx.ob("C09.R5", EF, "Where._in_min_max", rets[0] if rets else fn, "both bounds are tested, inclusively, each only when given", ok, detail=d)
    flt = ctx.fn(EF, "Where.filter")
    uses = [c for c in walk_shallow(flt) if isinstance(c, ast.Call) and call_tail(c) == "_in_min_max"]
    ctx.floor("C09.R5", "uses of _in_min_max", len(uses), 3)
    for loopc in uses:
        if "['actions']" in unparse(loopc):
            st = enclosing_stmt(loopc)
            lp = next((a for a in ancestors(loopc) if isinstance(a, ast.For)), None)
            iv = unparse(lp.target) if lp is not None else "interaction"
            ok = isinstance(st, ast.If) and any(isinstance(y, ast.Expr) and isinstance(y.value, ast.Yield) and unparse(y.value.value) == iv for y in st.body) \
                and f"len({iv}['actions'])" in unparse(loopc)
            t = st.test if isinstance(st, ast.If) else None
            okt = isinstance(t, ast.BoolOp) and isinstance(t.op, ast.Or) and unparse(t.values[0]).endswith("== [None, None]") and t.values[1] is loopc
            ctx.ob("C09.R5", EF, "Where.filter", loopc, "an interaction is kept iff its action count is within bounds (or no bound is given)", ok and okt)


# ------------------------------------------------------------------------------------------ R6
def r6_batch_unbatch(ctx):
    ctx.rule("C09.R6", "Unbatch indexes every key with the same i over range(len(first batched key)); Batch builds every key of the "
                       "first interaction from the same batch; _batched cuts one iterator into consecutive chunks")
    fn = ctx.fn(EF, "Unbatch._unbatch")
    fors = [x for x in walk_shallow(fn) if isinstance(x, ast.For)]
    ok = False
    if len(fors) == 3:
        outer, mid, inner = fors
        iv = unparse(outer.target)
        BS = name_bound(fn, lambda v: unparse(v) == f"len({iv}[batched_keys[0]])", "batch_size")
        ok = bool(assigned_value(fn, BS)) and unparse(mid.iter) == f"range({BS})" and unparse(inner.iter) == iv
        k, i = unparse(inner.target), unparse(mid.target)
        stores = [x for x in walk_shallow(inner) if isinstance(x, ast.Assign)]
        NEW = unparse(stores[0].targets[0].value) if stores and isinstance(stores[0].targets[0], ast.Subscript) else "new"
        ok = ok and len(stores) == 2 and unparse(stores[0]) == f"{NEW}[{k}] = {iv}[{k}][{i}]" and unparse(stores[1]) == f"{NEW}[{k}] = {iv}[{k}]"
        ys = [y for y in walk_shallow(mid) if isinstance(y, ast.Yield)]
        ok = ok and len(ys) == 1 and unparse(ys[0].value) == NEW and enclosing_stmt(ys[0]) in mid.body
        fresh = [x for x in mid.body if isinstance(x, ast.Assign) and unparse(x.targets[0]) == NEW and isinstance(x.value, ast.Dict) and not x.value.keys]
        ok = ok and len(fresh) == 1
    ctx.ob("C09.R6", EF, "Unbatch._unbatch", fn, "row i of the output takes element i of every batched key (un-batched keys are repeated)", ok, stmt="_unbatch")
    fn = ctx.fn(EF, "Batch.filter")
    peek = [x for x in walk_shallow(fn) if isinstance(x, ast.Assign) and isinstance(x.targets[0], ast.Tuple) and has_call(x.value, "peek_first")]
    FIRST, REST = (unparse(peek[0].targets[0].elts[0]), unparse(peek[0].targets[0].elts[1])) if peek else ("first", "interactions")
    CK = name_bound(fn, lambda v: isinstance(v, ast.ListComp) and "callable(" in unparse(v), "callable_keys")
    loops = [x for x in walk_shallow(fn) if isinstance(x, ast.For) and f"{FIRST}.keys()" in unparse(x.iter)]
    its = sorted(unparse(x.iter) for x in loops)
    ok = its == [f"{FIRST}.keys() & {CK}", f"{FIRST}.keys() - {CK}"]
    ctx.ob("C09.R6", EF, "Batch.filter", loops[0] if loops else fn, "the two key loops partition the first interaction's keys", ok, detail={"loops": its}, stmt="key partition")
    outer = [x for x in walk_shallow(fn) if isinstance(x, ast.For) and "self._batched(" in unparse(x.iter)]
    BATCH = unparse(outer[0].target) if outer else "batch"
    for lp in loops:
        key = unparse(lp.target)
        maps = [c for c in walk_shallow(lp) if isinstance(c, ast.Call) and call_name(c) == "map"]
        ok = bool(maps) and all(unparse(c.args[0]) == f"itemgetter({key})" and unparse(c.args[1]) == BATCH for c in maps)
        ctx.ob("C09.R6", EF, "Batch.filter", lp, "every batched value is itemgetter(key) mapped over the same batch, in order", ok, stmt="batched values " + ("callable" if "&" in unparse(lp.iter) else "data"))
        stores = [x for x in walk_shallow(lp) if isinstance(x, ast.Assign) and isinstance(x.targets[0], ast.Subscript) and unparse(x.targets[0].slice) == key]
        ctx.ob("C09.R6", EF, "Batch.filter", lp, "each key is stored under its own name", bool(stores), stmt="store key " + ("callable" if "&" in unparse(lp.iter) else "data"), trivial=True)
    ok = len(outer) == 1 and unparse(outer[0].iter) == f"self._batched({REST}, self._batch_size)"
    ctx.ob("C09.R6", EF, "Batch.filter", outer[0] if outer else fn, "batches come from _batched(interactions, batch_size)", ok, stmt="batch loop")
    bf = ctx.fn(EF, "Batch._batched")
    IT = name_bound(bf, lambda v: unparse(v) == "iter(iterable)", "it")
    BT = name_bound(bf, lambda v: unparse(v) == f"list(islice({IT}, n))", "batch")
    src = unparse(bf)
    ok = src.count(f"{BT} = list(islice({IT}, n))") == 2 and f"while {BT}:" in src and f"yield {BT}" in src
    ctx.ob("C09.R6", EF, "Batch._batched", bf, "one iterator is cut into consecutive chunks of n until it is empty", ok, stmt="_batched")


def r8_cache_per_environment(ctx, rule="C09.R8"):
    """Cache/Chunk are identities only if every environment has its own replay buffer."""
    from . import c10
    extra = {}
    for (rel, cname, attr) in c04.BY_DESIGN:
        if cname == "Cache":
            extra.setdefault("Cache", []).append(attr)
    c10.r5_stateful_not_shared(ctx, rule=rule, extra=extra,
                               text="filters that keep by-design state between reads (the replay buffer of Cache, Densify's look-up table) are instantiated once per "
                                    "environment by Environments.cache()/chunk()/dense(), never one instance shared through Environments.filter")


def r9_reservoir_zero_uniform(ctx, rule="C09.R9"):
    ctx.rule(rule, "Reservoir is defined for every seed: the uniforms of its skip-ahead computation (in [0,1), 0.0 included) never reach log() or a power base as 0 -- "
                   "each such use is written `(u or <positive constant>)` (otherwise log(0) / log base 1 raise for seeds whose stream contains 0.0)")
    fn = ctx.fn(PF, "Reservoir.filter")
    loops = [l for l in ast.walk(fn) if isinstance(l, ast.For) and isinstance(l.target, ast.Tuple) and "randoms" in unparse(l.iter)]
    if not loops:
        ctx.ob(rule, PF, "Reservoir.filter", fn, "the skip-ahead loop over uniforms was located", None, stmt="skip-ahead loop")
        return
    n = 0
    for lp in loops:
        us = {t.id for t in lp.target.elts if isinstance(t, ast.Name)}
        for x in ast.walk(lp):
            uses = []
            is_log = isinstance(x, ast.Call) and (call_name(x) == "math.log" or (isinstance(x.func, ast.Name) and (
                x.func.id == "log" and not assigned_value(fn, "log") or any(unparse(v) == "math.log" for v in assigned_value(fn, x.func.id)))))
            if is_log and x.args:
                uses.append(x.args[0])
            if isinstance(x, ast.BinOp) and isinstance(x.op, ast.Pow):
                uses.append(x.left)
            for e in uses:
                names = {y.id for y in ast.walk(e) if isinstance(y, ast.Name)} & us
                if not names:
                    continue
                n += 1
                guarded = isinstance(e, ast.BoolOp) and isinstance(e.op, ast.Or) and isinstance(e.values[0], ast.Name) and e.values[0].id in us and len(e.values) == 2 \
                    and not any(isinstance(y, ast.Name) for y in ast.walk(e.values[1]))
                ctx.ob(rule, PF, "Reservoir.filter", x, f"the uniform `{sorted(names)[0]}` cannot reach this log / power base as 0", guarded, detail={"argument": unparse(e)})
    ctx.ob(rule, PF, "Reservoir.filter", fn, "the logarithm / power uses of the uniforms were located", None if n < 2 else True, stmt="uses located")


def r10_scalar_contexts(ctx, rule="C09.R10"):
    ctx.rule(rule, "scalar contexts (numbers, strings, None) are single values, not sequences: Sort's whole-context key is tuple(context) only for Dense/Sparse rows "
                   "and the 1-tuple (context,) otherwise; Where counts a string context as one feature")
    flt = ctx.fn(EF, "Sort.filter")
    fulls = [l for l in walk_shallow(flt) if isinstance(l, ast.Lambda) and "self._keys" not in unparse(l) and "['context']" in unparse(l) and isinstance(parent(l), ast.Assign)
             and any(isinstance(c, ast.Call) and call_name(c) == "tuple" for c in ast.walk(l))]
    ctx.floor(rule, "whole-context sort keys in Sort.filter", len(fulls), 1)
    for l in fulls:
        b = l.body
        ok = isinstance(b, ast.IfExp) and isinstance(b.body, ast.Call) and call_name(b.body) == "tuple" and isinstance(b.orelse, ast.Tuple) and len(b.orelse.elts) == 1
        if ok:
            t = b.test
            # the test must establish "is a Dense/Sparse row", directly or through a local predicate
            txt = unparse(t)
            if isinstance(t, ast.Call) and isinstance(t.func, ast.Name):
                txt += " " + " ".join(unparse(v) for v in assigned_value(flt, t.func.id))
            ok = "Dense" in txt and "Sparse" in txt and "isinstance" in txt
        ctx.ob(rule, EF, "Sort.filter", l, "the whole-context key is tuple(context) for rows and (context,) for scalar / None contexts", ok, stmt="Sort whole-context key")
    cl = ctx.fn(EF, "Where._context_len")
    strs = [x for x in walk_shallow(cl) if isinstance(x, ast.If) and "isinstance(" in unparse(x.test) and "str" in unparse(x.test) and any(isinstance(r, ast.Return) and unparse(r.value) == "1" for r in x.body)]
    lens = [c for c in ast.walk(cl) if isinstance(c, ast.Call) and call_name(c) == "len"]
    ok = bool(strs) and all(strs[0].lineno < c.lineno for c in lens)
    ctx.ob(rule, EF, "Where._context_len", strs[0] if strs else cl, "a string context counts as one feature (tested before len() is applied)", ok, stmt="Where string context")


def r11_counts(ctx, rule="C09.R11"):
    """Take and Slice in the cardinality domain: the input is N opaque items, only counts are tracked."""
    from ..cardinality import CardEval, Elems, Opaque, Unmodelled, length
    ctx.rule(rule, "cardinality abstract interpretation of Take.filter, Slice.filter and Batch._batched for N = 0..8 (12) input items: batching partitions its input;  Take(c) yields min(c, N) items (all N for c None), "
                   "strict Take yields c items or none; Slice(start, stop, step) yields as many items as range(N)[start:stop:step] has")
    tk = ctx.fn(PF, "Take.filter")
    P = tk.args.args[1].arg
    bad, unm, n = [], None, 0
    for N in range(0, 9):
        for c in (None, 0, 1, 3, 8, 12):
            for strict in (False, True):
                n += 1
                try:
                    r = CardEval({"self": Opaque(), P: Elems(N), "self._count": c, "self._strict": strict}).run(tk.body)
                    got = length(r)
                except Unmodelled as e:
                    unm = str(e)
                    continue
                want = (N if c is None else min(c, N)) if not strict else ((N if c is None else c) if (c is None or N >= c) else 0)
                if got != want:
                    bad.append({"N": N, "count": c, "strict": strict, "yielded": got, "expected": want})
    ctx.ob(rule, PF, "Take.filter", tk, "Take yields the prefix of the requested size (strict: all or nothing) for every N <= 8", None if unm else not bad,
           detail={"configurations": n, "unmodelled": unm, "first_mismatches": bad[:3]}, stmt="Take counts")
    sl = ctx.fn(PF, "Slice.filter")
    P = sl.args.args[1].arg
    bad, unm, n = [], None, 0
    for N in range(0, 9):
        for a in (None, 0, 2, 9):
            for b in (None, 0, 3, 9):
                for st in (1, 2, 3):
                    n += 1
                    try:
                        r = CardEval({"self": Opaque(), P: Elems(N), "self._start": a, "self._stop": b, "self._step": st}).run(sl.body)
                        got = length(r)
                    except Unmodelled as e:
                        unm = str(e)
                        continue
                    want = len(range(N)[a:b:st])
                    if got != want:
                        bad.append({"N": N, "start": a, "stop": b, "step": st, "yielded": got, "expected": want})
    ctx.ob(rule, PF, "Slice.filter", sl, "Slice yields as many items as the corresponding Python slice for every N <= 8", None if unm else not bad,
           detail={"configurations": n, "unmodelled": unm, "first_mismatches": bad[:3]}, stmt="Slice counts")
    bt = ctx.fn(EF, "Batch._batched")
    ps = [a.arg for a in bt.args.args]
    bad, unm, n = [], None, 0
    for N in range(0, 13):
        for size in (1, 2, 3, 5, 12, 20):
            n += 1
            ce = CardEval({ps[0]: Opaque(), ps[1]: Elems(N), ps[2]: size})
            try:
                ce.run(bt.body)
                sizes = [length(y) for y in ce.yields]
            except Unmodelled as e:
                unm = str(e)
                continue
            if not (sum(sizes) == N and all(0 < z <= size for z in sizes) and all(z == size for z in sizes[:-1])):
                bad.append({"N": N, "batch_size": size, "batches": sizes})
    ctx.ob(rule, EF, "Batch._batched", bt, "batching partitions the interactions into full batches plus one shorter last batch (sizes sum to N, none empty) for every N <= 12", None if unm else not bad,
           detail={"configurations": n, "unmodelled": unm, "first_mismatches": bad[:3]}, stmt="Batch partitions")


def r7_sort_keys(ctx):
    ctx.rule("C09.R7", "Sort keeps the caller's key order: the keys are stored as given (flattened, not sorted/de-duplicated) and the sort key tuple "
                       "is built by iterating them in that order")
    init = ctx.fn(EF, "Sort.__init__")
    st = [x for x in walk_shallow(init) if isinstance(x, ast.Assign) and any(is_self_attr(t, "_keys") for t in x.targets)]
    ok = len(st) == 1 and not any(isinstance(c, ast.Call) and call_name(c) in ("sorted", "set", "frozenset", "reversed", "dict.fromkeys") for c in ast.walk(st[0].value)) \
        and "keys" in {n.id for n in ast.walk(st[0].value) if isinstance(n, ast.Name)}
    ctx.ob("C09.R7", EF, "Sort.__init__", st[0] if st else init, "sort keys are stored in the order given", ok, detail={"value": unparse(st[0].value) if st else None})
    flt = ctx.fn(EF, "Sort.filter")
    lams = [x for x in walk_shallow(flt) if isinstance(x, ast.Lambda) and "self._keys" in unparse(x)]
    ok = bool(lams) and all(isinstance(l.body, ast.Call) and call_name(l.body) == "tuple" and isinstance(l.body.args[0], ast.GeneratorExp)
                            and unparse(l.body.args[0].generators[0].iter) == "self._keys" and not l.body.args[0].generators[0].ifs for l in lams)
    ctx.ob("C09.R7", EF, "Sort.filter", lams[0] if lams else flt, "the sort key is the tuple of the context values at the keys, in key order", ok, stmt="sort key tuple")
    srt = [c for c in walk_shallow(flt) if isinstance(c, ast.Call) and call_name(c) == "sorted"]
    ok = len(srt) == 1 and not any(k.arg == "reverse" for k in srt[0].keywords) and kw(srt[0], "key") is not None
    ctx.ob("C09.R7", EF, "Sort.filter", srt[0] if srt else flt, "ordering is Python's stable sorted() by that key", ok, stmt="stable sorted")


CONTROLS = [
    ("Slice stores a stop of 0 as no stop", PF, M.replace_stmt("Slice.__init__", M.text_has("self._stop = stop"), "self._stop = stop or None"), "C09.R13"),
    ("a falsy scalar context counts as no feature", EF, M.replace_expr("Where._context_len", "context or context == 0", "context"), "C09.R12"),
    ("falsy seeds fall back to the clock", "coba/random.py", M.replace_expr("CobaRandom.__init__", "seed is None", "not seed"), "C09.R2"),
    ("batching drops a short last batch", EF, M.replace_expr("Batch._batched", "batch", "len(batch) == n", nth=1), "C09.R11"),
    ("strict Take accepts a short prefix", PF, M.replace_expr("Take.filter", "len(out) < self._count", "len(out) < self._count - 1"), "C09.R11"),
    ("Slice ignores its step", PF, M.replace_expr("Slice.filter", "islice(items, self._start, self._stop, self._step)", "islice(items, self._start, self._stop)"), "C09.R11"),
    ("Sort treats every context as a sequence", EF, M.replace_expr("Sort.filter", "tuple(interaction['context']) if is_row(interaction['context']) else (interaction['context'],)", "tuple(interaction['context'])"), "C09.R10"),
    ("Where counts the characters of a string context", EF, M.delete_stmt("Where._context_len", M.text_has("if isinstance(context, str): return 1")), "C09.R10"),
    ("Reservoir takes log of a uniform that may be 0", PF, M.replace_expr("Reservoir.filter", "log(r2 or 2 ** (-31), 1 - W)", "log(r2, 1 - W)"), "C09.R9"),
    ("one Cache object for all environments", "coba/environments/core.py", M.replace_expr("Environments.cache", "Environments([Pipes.join(env, Cache(25)) for env in self._envs])", "self.filter(Cache(25))"), "C09.R8"),
    ("Sort de-duplicates its keys", EF, M.replace_expr("Sort.__init__", "list(pipes.Flatten().filter([list(keys)]))[0]", "sorted(set(list(pipes.Flatten().filter([list(keys)]))[0]), key=str)"), "C09.R7"),
    ("Riffle keeps its generator", EF, M.chain(M.insert_after("Riffle.__init__", M.simple_has("self._seed = seed"), "self._rng = CobaRandom(seed)"),
                                               M.replace_stmt("Riffle.filter", M.simple_has("rng = CobaRandom(self._seed)"), "rng = self._rng")), "C09.R2"),
    ("Shuffle rewrites its seed while reading", EF, M.replace_stmt("Shuffle.filter", lambda st: isinstance(st, ast.Expr) and isinstance(st.value, ast.YieldFrom) and "new_seed" in ast.unparse(st),
        "old_seed = self._seed\nself._seed = new_seed\ntry:\n    yield from super().filter(interactions)\nfinally:\n    self._seed = old_seed"), "C09.R2"),
    ("Where alters interaction", EF, M.replace_stmt("Where.filter", M.simple_has("yield interaction"), "interaction['context'] = None\nyield interaction"), "C09.R1"),
    ("Sort yields copies", EF, M.replace_expr("Sort.filter", "sorted(interactions, key=sorter)", "sorted(map(dict, interactions), key=sorter)"), "C09.R1"),
    ("Riffle unseeded", EF, M.replace_expr("Riffle.filter", "CobaRandom(self._seed)", "CobaRandom()"), "C09.R2"),
    ("one-sided range", EF, M.replace_expr("Where._in_min_max", "(minv is None or minv <= v) and (maxv is None or v <= maxv)", "minv is None or minv <= v"), "C09.R5"),
    ("unbatch fixed index", EF, M.replace_expr("Unbatch._unbatch", "interaction[k][i]", "interaction[k][0]"), "C09.R6"),
    ("reservoir compares nullable", PF, M.replace_stmt("Reservoir.filter", M.text_has("if self._count == 0"),
        "if len(items) < self._count:\n    yield from []"), "C09.R4"),
]
