"""C19 -- shared caches (DESIGN.md 5/C19, A.4).

The lock protocol of ConcurrentCacher is five helper methods.  R1 extracts their guards/effects on
the shared cell A = self._array[index] and the private cell L = self._locks[(thread,key)];
R2 runs a typestate analysis of get_set / rmv / _release_read_on_exit over the CFG with exception
and generator-abandonment edges using those summaries; R3 guarded-by; R4 checks that the extracted
guards/effects preserve the reader/writer invariant (evaluated over a finite abstract domain);
R5 inner cache only under the right lock; R6 failed population; R7 callers use `with`.
"""
import ast
import itertools

from ..absint import FlagEval, TOP
from ..cfg import CFG, forward
from ..model import walk_shallow, call_name, is_self_attr, dotted_name, parent, ancestors, enclosing_function, AnalysisError
from ..util import canon
from ..util import (has_call, find_calls, assigned_value, const_str, unparse, kw, arg_or_kw, enclosing_stmt,
                    guards_of, call_tail, control_ancestors, node_ast_for_effects)
from .. import mutate as M

TECHNIQUE = 'static analysis: typestate over the CFG of get_set/rmv with guard/effect summaries extracted from the lock helpers, finite-domain invariant check of the protocol, guarded-by rule for the shared counter, failed-population rule, process-local-source rule for the slot index, provenance of the shared counter array and lock handed to workers, single path authority of the disk cacher'

EXPLANATION = ("Typestate analysis of ConcurrentCacher: (1) guards/effects of the five lock helpers on the shared counter and the "
               "per-thread lock cell are extracted from their source; (2) get_set, rmv and the context-manager helper are "
               "abstractly executed over their CFGs (exception and GeneratorExit edges included) with those summaries: at every "
               "raising exit no lock is held, at every return the lock is released or handed to _release_read_on_exit, which "
               "releases on all three exits; (3) every update of the shared counter and its guard sit in one `with self._lock`, "
               "sleep never does; (4) the extracted guard/effect table preserves 'A==-1 <=> one writer, no reader; A==n>=0 <=> n "
               "readers, no writer' on a finite abstract domain; (5) inner-cache reads happen under a read lock, population and "
               "removal under the write lock; (6) a failed population removes the entry; (7) callers use `with`.")
EXPLANATION += ' R8: the lock-slot index is a fixed digest of the key with no process-local source.'
EXPLANATION += ' R2 also: release / switch helpers are applied only while the thread holds that lock.'

CCH = "coba/context/cachers.py"
HELPERS = ("_acquire_read_lock", "_release_read_lock", "_acquire_write_lock", "_release_write_lock", "_switch_write_to_read_lock")
A_TXT = "self._array[index]"


def run(ctx):
    summ = r1_extract(ctx)
    opaque = [h for h in HELPERS if summ[h]["A"] is None or summ[h]["L"] is None]
    if opaque:
        # a helper without one constant effect on A and L (already reported by R1) has no summary the typestate / invariant rules could apply
        ctx.note(f"C19.R2/R4 skipped: no protocol summary for {opaque} (reported by C19.R1)")
    else:
        r2_typestate(ctx, summ)
    r3_guarded_by(ctx)
    if not opaque:
        r4_invariant(ctx, summ)
    r6_failed_population(ctx)
    r7_callers(ctx)
    r8_slot_index(ctx)
    r9_presence_agreement(ctx)
    r10_getters_do_not_restart(ctx)
    r11_shared_counters(ctx)
    r12_one_path_authority(ctx)
    r13_getstate_copies(ctx)


def r13_getstate_copies(ctx, rule="C19.R13"):
    """The cacher is pickled for every worker WHILE threads of the sending process may hold locks: a __getstate__ that prepares the outgoing state inside self.__dict__ itself
    wipes the live object's bookkeeping (the thread then leaves its with-block with no row, the slot stays taken)."""
    ctx.rule(rule, "pickling does not change the object that is pickled: in every __getstate__ of the package a name bound to exactly `self.__dict__` (or vars(self)) is never "
                   "written through -- the outgoing state is a copy (self.__dict__.copy() / dict(self.__dict__))")
    n = 0
    for rel, mod in sorted(ctx.model.modules.items()):
        if rel.startswith("coba/tests"):
            continue
        for fn in [f for f in ast.walk(mod.tree) if isinstance(f, ast.FunctionDef) and f.name == "__getstate__"]:
            n += 1
            live = {t.id for st in walk_shallow(fn) if isinstance(st, ast.Assign) and unparse(st.value) in ("self.__dict__", "vars(self)") for t in st.targets if isinstance(t, ast.Name)}
            writes = [st for st in ast.walk(fn) if (isinstance(st, (ast.Assign, ast.AugAssign, ast.Delete)) and any(isinstance(t, ast.Subscript) and ((isinstance(t.value, ast.Name) and t.value.id in live) or unparse(t.value) == "self.__dict__")
                                                                                                                  for t0 in (st.targets if not isinstance(st, ast.AugAssign) else [st.target]) for t in ast.walk(t0)))
                      or (isinstance(st, ast.Call) and isinstance(st.func, ast.Attribute) and st.func.attr in ("pop", "update", "clear", "setdefault", "popitem") and ((isinstance(st.func.value, ast.Name) and st.func.value.id in live) or unparse(st.func.value) == "self.__dict__"))]
            from ..model import qualname
            ctx.ob(rule, rel, qualname(fn), (writes or [fn])[0], "the state handed to pickle is prepared in a copy, the live object keeps its attributes", not writes, detail={"writes": [unparse(w)[:60] for w in writes]})
    ctx.floor(rule, "__getstate__ implementations in the package", n, 2)


def r11_shared_counters(ctx, rule="C19.R11"):
    """Mutual exclusion BETWEEN PROCESSES rests on every worker counting readers / writers in the same memory: ConcurrentCacher falls back to a private list when it is
    given no array, and nothing in a worker would notice."""
    ctx.rule(rule, "the cacher sent to worker processes shares its counters: in CobaMultiprocessor.filter ConcurrentCacher receives, besides the cacher, an array created by "
                   "<spawn context>.RawArray / Array and a lock created by <spawn context>.Lock (positionally or as list= / lock=)")
    MPF = "coba/multiprocessing.py"
    fn = ctx.fn(MPF, "CobaMultiprocessor.filter")
    calls = [c for c in ast.walk(fn) if isinstance(c, ast.Call) and call_name(c) == "ConcurrentCacher"]
    ctx.floor(rule, "ConcurrentCacher constructions in CobaMultiprocessor.filter", len(calls), 1)
    init = ctx.fn(CCH, "ConcurrentCacher.__init__")
    params = [a.arg for a in init.args.args[1:]]
    for c in calls:
        got = dict(zip(params, c.args))
        got.update({k.arg: k.value for k in c.keywords if k.arg})

        def made_by(e, makers):
            vs = [e] if not isinstance(e, ast.Name) else assigned_value(fn, e.id)
            return len(vs) == 1 and isinstance(vs[0], ast.Call) and call_tail(vs[0]) in makers and isinstance(vs[0].func, ast.Attribute)
        arr = got.get(params[1]) if len(params) > 1 else None
        lck = got.get(params[2]) if len(params) > 2 else None
        ctx.ob(rule, MPF, "CobaMultiprocessor.filter", c, "the workers' cacher counts in a shared array under a shared lock", arr is not None and lck is not None and made_by(arr, ("RawArray", "Array")) and made_by(lck, ("Lock", "RLock")),
               detail={"array": unparse(arr) if arr is not None else None, "lock": unparse(lck) if lck is not None else None})


def r12_one_path_authority(ctx, rule="C19.R12"):
    """contains / get / put / rmv / get_set must all mean the same file: the cache directory may start with ~ (the default does), which only _cache_path expands."""
    ctx.rule(rule, "DiskCacher names a cache file through _cache_path, the place that expands ~: no other method builds a path from the cache directory without expanding it on the spot")
    cls = ctx.model.cls(CCH, "DiskCacher")
    n = 0
    for name, fn in sorted(cls.methods.items()):
        if name in ("_cache_path", "__init__", "cache_directory"):
            continue
        n += 1
        own = [c for c in ast.walk(fn) if isinstance(c, ast.Call) and (call_name(c) in ("Path", "pathlib.Path", "os.path.join", "join") or call_tail(c) == "joinpath")
               and any("_cache_dir" in unparse(a) or "_cache_name" in unparse(a) for a in c.args)
               and not (isinstance(parent(c), ast.Attribute) and parent(c).attr == "expanduser")]   # a path that is expanded on the spot names the same file as _cache_path does
        ctx.ob(rule, CCH, f"DiskCacher.{name}", (own or [fn])[0], "the file is named by self._cache_path(key)", not own, trivial=not own, detail={"own paths": [unparse(c) for c in own]})
    ctx.floor(rule, "DiskCacher methods examined", n, 4)


# ------------------------------------------------------------------------------------------ R1
def _is_L(t):
    return isinstance(t, ast.Subscript) and unparse(t.value) == "self._locks"


def _is_A(t):
    return isinstance(t, ast.Subscript) and unparse(t.value) == "self._array"


def _effect(st):
    """('set', c) | ('add', c) for an Assign/AugAssign with a constant right-hand side"""
    if isinstance(st, ast.Assign) and isinstance(st.value, (ast.Constant, ast.UnaryOp)):
        try:
            return ("set", int(ast.literal_eval(st.value)))
        except Exception:
            return None
    if isinstance(st, ast.AugAssign) and isinstance(st.value, ast.Constant) and isinstance(st.op, (ast.Add, ast.Sub)):
        return ("add", st.value.value if isinstance(st.op, ast.Add) else -st.value.value)
    return None


def r1_extract(ctx):
    ctx.rule("C19.R1", "protocol extraction: each lock helper has one effect on the shared counter A and one on the thread's cell L, both "
                       "inside `with self._lock`, optionally guarded by a test of A; preconditions raise before any effect")
    cls = ctx.model.cls(CCH, "ConcurrentCacher")
    summ = {}
    for h in HELPERS:
        fn = cls.methods.get(h)
        if fn is None:
            raise AnalysisError(f"anchor function vanished: {CCH}::ConcurrentCacher.{h}")
        ctx.touch(CCH, f"ConcurrentCacher.{h}")
        effA = effL = guard = None
        nA = nL = 0
        for x in walk_shallow(fn):
            if isinstance(x, (ast.Assign, ast.AugAssign)):
                t = x.targets[0] if isinstance(x, ast.Assign) else x.target
                if _is_A(t):
                    effA, nA = _effect(x), nA + 1
                    for test, pol in guards_of(x, fn):
                        if "self._array[" in unparse(test) and pol:
                            guard = test
                if _is_L(t):
                    effL, nL = _effect(x), nL + 1
        # precondition: `if <has_*>: raise` or assert before the loop/with
        pre = []
        for st in fn.body:
            if isinstance(st, ast.If) and any(isinstance(s, ast.Raise) for s in st.body):
                pre.append(unparse(st.test))
            if isinstance(st, ast.Assert) and "self._locks" in unparse(st.test):
                pre.append("not (" + unparse(st.test) + ")")
        summ[h] = {"A": effA, "L": effL, "guard": guard, "pre_raise": pre}
        ctx.ob("C19.R1", CCH, f"ConcurrentCacher.{h}", fn, "exactly one constant effect on A and one on L", nA == 1 and nL == 1 and effA is not None and effL is not None,
               detail={"A": effA, "L": effL, "guard": unparse(guard) if guard is not None else None, "raises_if": pre}, stmt=f"summary {h}")
    want = {"_acquire_read_lock": (("add", 1), ("add", 1)), "_release_read_lock": (("add", -1), ("add", -1)), "_acquire_write_lock": (("set", -1), ("set", -1)),
            "_release_write_lock": (("set", 0), ("set", 0)), "_switch_write_to_read_lock": (("set", 1), ("set", 1))}
    for h, (a, l) in want.items():
        ctx.ob("C19.R1", CCH, f"ConcurrentCacher.{h}", cls.methods[h], "A and L move together (the thread's own book-keeping mirrors its contribution to the shared counter)",
               summ[h]["A"] == a and summ[h]["L"] == l, detail={"A": summ[h]["A"], "L": summ[h]["L"]}, stmt=f"A/L agreement {h}")
    for h, pred in (("_has_read_lock", "> 0"), ("_has_write_lock", "== -1")):
        fn = cls.methods[h]
        rets = [unparse(r.value) for r in walk_shallow(fn) if isinstance(r, ast.Return)]
        ok = len(rets) == 1 and rets[0] == f"self._locks[current_thread().ident, key] {pred}"
        ctx.ob("C19.R1", CCH, f"ConcurrentCacher.{h}", fn, f"{h} is `L {pred}`", ok, detail={"returns": rets})
        summ[h] = pred
    # acquire helpers: the only raise happens before the effect (so a failing acquire leaves no lock behind)
    for h, need in (("_acquire_read_lock", ["self._has_write_lock(key)"]), ("_acquire_write_lock", ["self._has_write_lock(key) or self._has_read_lock(key)"])):
        fn = cls.methods[h]
        raises = [x for x in walk_shallow(fn) if isinstance(x, ast.Raise)]
        first_effect = min(x.lineno for x in walk_shallow(fn) if isinstance(x, (ast.Assign, ast.AugAssign)) and (_is_A(x.targets[0] if isinstance(x, ast.Assign) else x.target)))
        ok = summ[h]["pre_raise"] == need and all(r.lineno < first_effect for r in raises)
        ctx.ob("C19.R1", CCH, f"ConcurrentCacher.{h}", fn, "re-entrant misuse is rejected before anything is acquired", ok, detail={"raises_if": summ[h]["pre_raise"]}, stmt=f"precondition {h}")
    return summ


# ------------------------------------------------------------------------------------------ R2 / R5
def _apply(eff, v):
    return eff[1] if eff[0] == "set" else v + eff[1]


def _helper_calls(a):
    out = []
    if a is None:
        return out
    for c in walk_shallow(a):
        if isinstance(c, ast.Call) and isinstance(c.func, ast.Attribute) and is_self_attr(c.func) and c.func.attr in HELPERS + ("_has_read_lock", "_has_write_lock"):
            out.append(c.func.attr)
    return out


def _helper_raises(h, L):
    """can helper h raise (an Exception) when called in lock state L?  derived from the extracted preconditions."""
    if h == "_acquire_read_lock":
        return L == -1
    if h == "_acquire_write_lock":
        return L == -1 or L > 0
    if h == "_switch_write_to_read_lock":
        return L != -1
    return False


class TypeState:
    """state: frozenset of (L, locals) with locals a tuple of (name, const) for tracked constant locals."""

    def __init__(self, fn, summ, entry_L, tracked=None, base_exceptions=False):
        if tracked is None:
            # locals that are only ever bound to constants (state flags such as `lock = 'write'`)
            binds = {}
            for x in walk_shallow(fn):
                if isinstance(x, ast.Assign) and len(x.targets) == 1 and isinstance(x.targets[0], ast.Name):
                    binds.setdefault(x.targets[0].id, []).append(isinstance(x.value, ast.Constant))
            tracked = tuple(sorted(n for n, v in binds.items() if all(v)))
        self.fn, self.summ, self.tracked = fn, summ, tracked
        self.cfg = CFG(fn, base_exceptions=base_exceptions)
        init = frozenset([(entry_L, tuple((t, "?") for t in tracked))])
        self.IN = forward(self.cfg, init, self.transfer, lambda a, b: a | b)

    def _other_calls(self, a):
        n = 0
        for c in walk_shallow(a):
            if isinstance(c, ast.Call) and not (isinstance(c.func, ast.Attribute) and is_self_attr(c.func) and c.func.attr in HELPERS + ("_has_read_lock", "_has_write_lock")):
                n += 1
            if isinstance(c, ast.Compare) and any(isinstance(o, (ast.In, ast.NotIn)) for o in c.ops):
                n += 1  # `key in self` calls __contains__
        return n

    def transfer(self, n, st, label):
        a = node_ast_for_effects(n) if n.kind != "test" else n.ast
        out = set()
        for L, loc in st:
            locd = dict(loc)
            helpers = _helper_calls(a)
            if label in ("exc", "abandon"):
                if n.kind == "stmt" and isinstance(n.ast, ast.Raise):
                    out.add((L, loc))
                    continue
                # which helper raised?  a helper call can only raise per its precondition; other calls may always raise
                can = self._other_calls(a) > 0 or label == "abandon" or (a is not None and any(isinstance(x, (ast.Yield, ast.YieldFrom)) for x in walk_shallow(a)))
                Lcur = L
                for h in helpers:
                    if h in ("_has_read_lock", "_has_write_lock"):
                        continue
                    if _helper_raises(h, Lcur):
                        can = True
                        break
                    Lcur = _apply(self.summ[h]["L"], Lcur)
                if n.kind in ("with_enter", "iter") or (n.kind == "stmt" and isinstance(n.ast, (ast.Assert, ast.Delete))):
                    can = True
                if can:
                    out.add((L, loc))
                continue
            # normal completion
            if n.kind == "test":
                t = n.ast
                v = self._eval_test(t, L, locd)
                if v is not None and ((label == "true") != v):
                    continue
                if label in ("true", "false"):
                    out.add((L, loc))
                    continue
            Lnew = L
            dead = False
            for h in helpers:
                if h in ("_has_read_lock", "_has_write_lock"):
                    continue
                if _helper_raises(h, Lnew):
                    dead = True
                    break
                Lnew = _apply(self.summ[h]["L"], Lnew)
            if dead:
                continue
            if n.kind == "stmt" and isinstance(n.ast, ast.Assign) and len(n.ast.targets) == 1 and isinstance(n.ast.targets[0], ast.Name) \
                    and n.ast.targets[0].id in self.tracked and isinstance(n.ast.value, ast.Constant):
                locd[n.ast.targets[0].id] = n.ast.value.value
            out.add((Lnew, tuple(sorted(locd.items(), key=lambda kv: kv[0]))))
        return frozenset(out) if out else None

    def _eval_test(self, t, L, locd):
        txt = unparse(t)
        if txt == "self._has_read_lock(key)":
            return L > 0
        if txt == "self._has_write_lock(key)":
            return L == -1
        if isinstance(t, ast.Compare) and isinstance(t.left, ast.Name) and t.left.id in locd and isinstance(t.comparators[0], ast.Constant) and locd[t.left.id] != "?":
            if isinstance(t.ops[0], ast.Eq):
                return locd[t.left.id] == t.comparators[0].value
            if isinstance(t.ops[0], ast.NotEq):
                return locd[t.left.id] != t.comparators[0].value
        return None

    def states_at(self, nid):
        return self.IN.get(nid, frozenset())


def r2_typestate(ctx, summ):
    ctx.rule("C19.R2", "typestate over the CFG of get_set / rmv: at every raising exit the thread holds no lock, at every return the lock is "
                       "released or handed to _release_read_on_exit in state L=1; that helper releases on normal, exceptional and abandoned exit")
    ctx.rule("C19.R5", "inner-cache operations happen in the right lock state: reads under a read (or write) lock, population and removal under the write lock")
    ctx.assume("C19.R2: a caller enters get_set/rmv holding no lock on that key (the quantifier excludes nesting get_set on colliding keys)")
    ctx.assume("C19.R2: exceptions considered on quick tier derive from Exception; lock helpers raise only per their extracted preconditions")
    cls = ctx.model.cls(CCH, "ConcurrentCacher")
    for mname in ("get_set", "rmv"):
        fn = cls.methods[mname]
        qual = f"ConcurrentCacher.{mname}"
        ts = TypeState(fn, summ, 0)
        g = ts.cfg
        reach = g.reachable()
        # raising exit
        bad = sorted({L for L, _ in ts.states_at(g.exit_raise) if L != 0})
        wit = None
        if bad:
            for p, l in g.pred[g.exit_raise]:
                if any(L != 0 for L, _ in (ts.transfer(g.nodes[p], ts.states_at(p), l) or [])):
                    wit = g.describe_path([p])
        ctx.ob("C19.R2", CCH, qual, fn, "no lock is held when an exception leaves the method", not bad, detail=None if not bad else {"L_at_raise": bad, "from": wit},
               stmt=f"{mname}: L==0 at raising exit")
        # returns
        n_ret = 0
        for nd in g.nodes:
            if nd.id in reach and nd.kind == "stmt" and isinstance(nd.ast, ast.Return):
                n_ret += 1
                handed = nd.ast.value is not None and isinstance(nd.ast.value, ast.Call) and call_tail(nd.ast.value) == "_release_read_on_exit"
                Ls = sorted({L for L, _ in ts.states_at(nd.id)})
                want = [1] if handed else [0]
                ctx.ob("C19.R2", CCH, qual, nd.ast, "at this return the read lock is handed to the releasing context manager in state L=1" if handed else "at this return no lock is held",
                       Ls == want, detail={"L": Ls})
        # implicit return (rmv falls off its end)
        falls = [p for p, l in g.pred[g.exit_return] if p in reach and not (g.nodes[p].kind == "stmt" and isinstance(g.nodes[p].ast, ast.Return))]
        for p in falls:
            outs = set()
            for b, l in g.succ[p]:
                if b == g.exit_return:
                    o = ts.transfer(g.nodes[p], ts.states_at(p), l)
                    outs |= set(o or [])
            Ls = sorted({L for L, _ in outs})
            n_ret += 1
            ctx.ob("C19.R2", CCH, qual, g.nodes[p].ast, "when the method completes normally no lock is held", Ls == [0] or Ls == [], detail={"L": Ls},
                   stmt=f"{mname}: L==0 at normal end after " + (unparse(g.nodes[p].ast)[:60] if g.nodes[p].ast is not None else "?"))
        ctx.floor("C19.R2", f"normal exits of {mname}", n_ret, 1)
        # a release is only ever applied to a lock the thread holds: releasing an un-held lock resets the shared counter under another thread's feet
        for nd in g.nodes:
            if nd.id not in reach or nd.ast is None:
                continue
            a = node_ast_for_effects(nd) if nd.kind != "test" else nd.ast
            hs = [h for h in _helper_calls(a)] if a is not None else []
            if not any(h.startswith("_release") or h.startswith("_switch") for h in hs):
                continue
            for L0, _ in ts.states_at(nd.id):
                Lc = L0
                for h in hs:
                    if h in ("_has_read_lock", "_has_write_lock"):
                        continue
                    if h == "_release_write_lock" or h == "_switch_write_to_read_lock":
                        okh = Lc == -1
                    elif h == "_release_read_lock":
                        okh = Lc > 0
                    else:
                        okh = True
                    if not okh:
                        ctx.ob("C19.R2", CCH, qual, nd.ast, f"{h} is applied only when the thread holds that lock", False, detail={"L": Lc}, stmt=f"{mname}: {h} while holding")
                    if _helper_raises(h, Lc):
                        break
                    Lc = _apply(summ[h]["L"], Lc)
        ctx.ob("C19.R2", CCH, qual, fn, "every release / switch helper call was examined in all reachable lock states", True, stmt=f"{mname}: releases examined")
        # R5 inner-cache operations
        for nd in g.nodes:
            if nd.id not in reach or nd.ast is None:
                continue
            a = node_ast_for_effects(nd) if nd.kind != "test" else nd.ast
            if a is None:
                continue
            for c in walk_shallow(a):
                op = None
                if isinstance(c, ast.Call) and isinstance(c.func, ast.Attribute) and unparse(c.func.value) == "self._cache":
                    op = c.func.attr
                    is_pop = op == "rmv" or (op == "get_set" and len(c.args) >= 2 and not (isinstance(c.args[1], ast.Constant) and c.args[1].value is None))
                elif isinstance(c, ast.Compare) and any(isinstance(o, ast.In) for o in c.ops) and unparse(c.comparators[0]) in ("self._cache", "self"):
                    op, is_pop = "contains", False
                if op is None:
                    continue
                # the lock state when the operation runs = state after the helpers that precede it in this node
                Ls = set()
                for L, _ in ts.states_at(nd.id):
                    Ls.add(L)
                if mname == "rmv" and op == "contains":
                    ctx.ob("C19.R5", CCH, qual, c, "the unlocked presence pre-test of rmv only decides whether to lock at all (tabled exception)", Ls <= {0}, detail={"L": sorted(Ls)},
                           stmt="rmv pre-test")
                    continue
                ok = all(L == -1 for L in Ls) if is_pop else all(L > 0 or L == -1 for L in Ls)
                ctx.ob("C19.R5", CCH, qual, c, ("population/removal of the inner cache happens under the write lock" if is_pop else "the inner cache is read under a lock"),
                       ok and bool(Ls), detail={"L": sorted(Ls)})
    # the context-manager helper
    fn = cls.methods["_release_read_on_exit"]
    ts = TypeState(fn, summ, 1)
    g = ts.cfg
    for ex, what in ((g.exit_return, "normal exit"), (g.exit_raise, "exception in the with-body"), (g.exit_abandon, "abandoned context manager")):
        Ls = sorted({L for L, _ in ts.states_at(ex)})
        ctx.ob("C19.R2", CCH, "ConcurrentCacher._release_read_on_exit", fn, f"the read lock is released on {what}", Ls in ([0], []) and (ex != g.exit_return or Ls == [0]),
               detail={"L": Ls}, stmt=f"_release_read_on_exit: {what}")
    deco = [unparse(d) for d in fn.decorator_list]
    ctx.ob("C19.R2", CCH, "ConcurrentCacher._release_read_on_exit", fn, "the helper is a @contextmanager", deco == ["contextmanager"], stmt="@contextmanager")
    # KeyboardInterrupt / SystemExit raised by the getter or the inner cache are exceptions too: the same typestate run over the CFG with BaseException edges
    for mname in ("get_set", "rmv"):
        ts = TypeState(cls.methods[mname], summ, 0, base_exceptions=True)
        bad = sorted({L for L, _ in ts.states_at(ts.cfg.exit_raise) if L != 0})
        ctx.ob("C19.R2", CCH, f"ConcurrentCacher.{mname}", cls.methods[mname], f"{mname} holds no lock when it is left through any exception, BaseException (KeyboardInterrupt) included",
               not bad, detail={"L at the raising exit": bad}, stmt=f"{mname}: lock state on BaseException exits")


# ------------------------------------------------------------------------------------------ R3
def r3_guarded_by(ctx):
    ctx.rule("C19.R3", "every write of the shared counter, together with the test that guards it, is inside one `with self._lock:`; time.sleep never is")
    cls = ctx.model.cls(CCH, "ConcurrentCacher")
    n = 0
    for mname, fn in cls.methods.items():
        if mname == "__init__":
            continue
        for x in walk_shallow(fn):
            if isinstance(x, (ast.Assign, ast.AugAssign)):
                t = x.targets[0] if isinstance(x, ast.Assign) else x.target
                if _is_A(t) or _is_L(t):
                    n += 1
                    withs = [a for a in ancestors(x) if isinstance(a, ast.With) and any(unparse(i.context_expr) == "self._lock" for i in a.items)]
                    ok = bool(withs)
                    if ok:
                        for test, pol in guards_of(x, fn):
                            if "self._array[" in unparse(test):
                                ifn = next(a for a in ancestors(x) if isinstance(a, ast.If) and a.test is test)
                                ok = ok and withs[0] in list(ancestors(ifn))
                    ctx.ob("C19.R3", CCH, f"ConcurrentCacher.{mname}", x, "the update and its guard are atomic under self._lock", ok)
            if isinstance(x, ast.Call) and call_name(x) in ("time.sleep", "sleep"):
                n += 1
                inside = any(isinstance(a, ast.With) and any(unparse(i.context_expr) == "self._lock" for i in a.items) for a in ancestors(x))
                ctx.ob("C19.R3", CCH, f"ConcurrentCacher.{mname}", x, "waiting happens outside the lock", not inside)
    ctx.floor("C19.R3", "shared-state updates and sleeps", n, 8)


# ------------------------------------------------------------------------------------------ R4
def r4_invariant(ctx, summ):
    ctx.rule("C19.R4", "with the extracted guards/effects every transition preserves: A == -1 <=> one writer and no reader; A == n >= 0 <=> n readers and "
                       "no writer (checked on the abstract domain A in {-1..3} with ghost reader/writer counts)")

    def inv(A, r, w):
        return (A == -1 and w == 1 and r == 0) or (A >= 0 and w == 0 and r == A)

    def guard_ok(h, A):
        g = summ[h]["guard"]
        if g is None:
            return True
        env = {unparse(x): A for x in ast.walk(g) if isinstance(x, ast.Subscript) and unparse(x.value) == "self._array"}
        v = FlagEval(env, opaque=lambda e: TOP).test(g)
        return bool(v)

    trans = {
        "_acquire_read_lock": (lambda r, w: True, lambda r, w: (r + 1, w)),
        "_release_read_lock": (lambda r, w: r >= 1, lambda r, w: (r - 1, w)),
        "_acquire_write_lock": (lambda r, w: True, lambda r, w: (r, w + 1)),
        "_release_write_lock": (lambda r, w: w >= 1, lambda r, w: (r, w - 1)),
        "_switch_write_to_read_lock": (lambda r, w: w >= 1, lambda r, w: (r + 1, w - 1)),
    }
    n = 0
    for h, (enabled, ghost) in trans.items():
        bad = []
        for A in range(-1, 4):
            for r in range(0, 4):
                for w in range(0, 2):
                    if not inv(A, r, w) or not enabled(r, w) or not guard_ok(h, A):
                        continue
                    n += 1
                    A2 = _apply(summ[h]["A"], A)
                    r2, w2 = ghost(r, w)
                    if not inv(A2, r2, w2):
                        bad.append({"A": A, "readers": r, "writers": w, "A'": A2, "readers'": r2, "writers'": w2})
        ctx.ob("C19.R4", CCH, f"ConcurrentCacher.{h}", ctx.model.cls(CCH, "ConcurrentCacher").methods[h], "the transition preserves the reader/writer invariant",
               not bad, detail=None if not bad else {"counterexample": bad[0]}, stmt=f"invariant under {h}")
    ctx.configurations += n
    g_r = summ["_acquire_read_lock"]["guard"]
    g_w = summ["_acquire_write_lock"]["guard"]
    def shape(g, op, val):
        return g is not None and isinstance(g, ast.Compare) and isinstance(g.left, ast.Subscript) and unparse(g.left.value) == "self._array" and isinstance(g.ops[0], op) \
            and unparse(g.comparators[0]) == val
    ctx.ob("C19.R4", CCH, "ConcurrentCacher._acquire_read_lock", g_r, "readers enter only while no writer holds the key (A >= 0)", shape(g_r, ast.GtE, "0"), stmt="reader guard A >= 0")
    ctx.ob("C19.R4", CCH, "ConcurrentCacher._acquire_write_lock", g_w, "a writer enters only while nobody holds the key (A == 0)", shape(g_w, ast.Eq, "0"), stmt="writer guard A == 0")


# ------------------------------------------------------------------------------------------ R6
def r6_failed_population(ctx):
    ctx.rule("C19.R6", "a population that fails part-way leaves no entry that is later served: the disk write sits in a try whose bare handler removes "
                       "the file and re-raises; zero-length files are removed before the presence test; the memory cache stores only after the getter returned")
    fn = ctx.fn(CCH, "DiskCacher.get_set")
    opens = [c for c in walk_shallow(fn) if isinstance(c, ast.Call) and call_name(c) == "gzip.open" and len(c.args) >= 2 and "w" in (const_str(c.args[1]) or "")]
    ctx.floor("C19.R6", "write-opens in DiskCacher.get_set", len(opens), 1)
    for c in opens:
        ok = False
        for comp, branch in control_ancestors(c, fn):
            if isinstance(comp, ast.Try) and branch == "body":
                for h in comp.handlers:
                    body = " ".join(unparse(s) for s in h.body)
                    if h.type is None and "self.rmv(key)" in body and any(isinstance(s, ast.Raise) and s.exc is None for s in h.body):
                        ok = True
        ctx.ob("C19.R6", CCH, "DiskCacher.get_set", c, "a failing write removes the partial file and re-raises", ok)
    getters = [c for c in walk_shallow(fn) if isinstance(c, ast.Call) and unparse(c.func) == "getter"]
    for c in getters:
        inside = any(isinstance(comp, ast.Try) and b == "body" for comp, b in control_ancestors(c, fn))
        ctx.ob("C19.R6", CCH, "DiskCacher.get_set", c, "the getter runs inside the same try (a failing getter leaves nothing behind)", inside)
    zero = [x for x in fn.body if isinstance(x, ast.If) and "os.path.getsize" in unparse(x.test) and "== 0" in unparse(x.test)]
    pres = [x for x in fn.body if isinstance(x, ast.If) and unparse(x.test) == "key not in self"]
    ok = len(zero) == 1 and len(pres) == 1 and zero[0].lineno < pres[0].lineno and "self.rmv(key)" in unparse(zero[0].body[0])
    ctx.ob("C19.R6", CCH, "DiskCacher.get_set", zero[0] if zero else fn, "a zero-length file is removed before the presence test", ok, stmt="zero-length removal")
    rets = [r for r in walk_shallow(fn) if isinstance(r, ast.Return)]
    ok = len(rets) == 1 and unparse(rets[0].value).startswith("gzip.open(self._cache_path(key), mode='rt'")
    ctx.ob("C19.R6", CCH, "DiskCacher.get_set", rets[0] if rets else fn, "the value handed out is read back from the completed file (gzip trailer detects torn files)", ok, stmt="read back")
    mf = ctx.fn(CCH, "MemoryCacher.get_set")
    store = [x for x in walk_shallow(mf) if isinstance(x, ast.Assign) and unparse(x.targets[0]) == "self._cache[key]"]
    calls = [c for c in walk_shallow(mf) if isinstance(c, ast.Call) and unparse(c.func) in ("getter", "list")]
    ok = len(store) == 1 and isinstance(store[0].value, ast.Name) and any(has_call(v, "getter") for v in assigned_value(mf, store[0].value.id)) \
        and all(c.lineno < store[0].lineno for c in calls) and bool(calls)
    ctx.ob("C19.R6", CCH, "MemoryCacher.get_set", store[0] if store else mf, "the memory cache stores the value only after getter (and materialisation) succeeded", ok)


# ------------------------------------------------------------------------------------------ R7
def r7_callers(ctx):
    ctx.rule("C19.R7", "every get_set(...) call outside cachers.py is the context expression of a `with` (so the read lock is always released)")
    n = 0
    for rel, m in sorted(ctx.model.modules.items()):
        if rel == CCH:
            continue
        for x in ast.walk(m.tree):
            if isinstance(x, ast.Call) and isinstance(x.func, ast.Attribute) and x.func.attr == "get_set":
                n += 1
                ctx.call_sites += 1
                p = parent(x)
                ok = isinstance(p, ast.withitem) and p.context_expr is x
                f = enclosing_function(x)
                ctx.ob("C19.R7", rel, getattr(f, "_qual", "") if f is not None else "", x, "cacher.get_set(...) is used as a context manager", ok)
    ctx.floor("C19.R7", "get_set call sites outside cachers.py", n, 1)


PROCESS_LOCAL = {"hash", "id", "os.getpid", "getpid", "random.random", "random.randint", "uuid.uuid4", "uuid4", "time.time", "current_thread", "get_ident"}


def r8_slot_index(ctx):
    ctx.rule("C19.R8", "every process maps a key to the same slot of the shared lock table: _index is a function of str(key) through a fixed digest and "
                       "uses no process-local source (hash() is salted per process, id(), pid, thread ident, time, randomness); every helper takes its slot from _index(key)")
    fn = ctx.fn(CCH, "ConcurrentCacher._index")
    calls = [call_name(c) for c in ast.walk(fn) if isinstance(c, ast.Call) and call_name(c)]
    bad = sorted({c for c in calls if c in PROCESS_LOCAL or c.split(".")[-1] in ("getpid", "uuid4", "get_ident")})
    ctx.ob("C19.R8", CCH, "ConcurrentCacher._index", fn, "the slot index uses no process-local source", not bad, detail={"calls": sorted(set(calls)), "process-local": bad}, stmt="_index sources")
    keyp = fn.args.args[1].arg if len(fn.args.args) > 1 else "key"
    uses_key = any(isinstance(x, ast.Name) and x.id == keyp for x in ast.walk(fn))
    digest = [c for c in calls if c.split(".")[-1] in ("blake2b", "blake2s", "sha1", "sha256", "md5", "crc32", "adler32", "sha3_256", "sha512")]
    ctx.ob("C19.R8", CCH, "ConcurrentCacher._index", fn, "the slot index is a fixed digest of the key", uses_key and bool(digest), detail={"digest": digest}, stmt="_index digest")
    c = ctx.model.cls(CCH, "ConcurrentCacher")
    n = 0
    for name, f in sorted(c.methods.items()):
        for sub in [x for x in ast.walk(f) if isinstance(x, ast.Subscript) and unparse(x.value) in ("self._array", "self._arr", "self._shared")]:
            pass
        idx = [x for x in walk_shallow(f) if isinstance(x, ast.Assign) and isinstance(x.value, ast.Call) and call_tail(x.value) == "_index"]
        for a in idx:
            n += 1
            ctx.ob("C19.R8", CCH, f"ConcurrentCacher.{name}", a, "the slot is _index(<the key the helper was called with>)",
                   len(a.value.args) == 1 and isinstance(a.value.args[0], ast.Name) and a.value.args[0].id in [p.arg for p in f.args.args])
    ctx.floor("C19.R8", "slot look-ups in the lock helpers", n, 4)


def r10_getters_do_not_restart(ctx, rule="C19.R10"):
    """what a getter yields goes straight into the entry being written: a generator getter that retries after a failure may only do so while it has
    yielded nothing, otherwise the entry holds the partial value followed by the complete one and is served as complete."""
    ctx.rule(rule, "getters handed to the cacher do not start over behind what they already yielded: a generator that re-yields itself (retry) from an except handler counts the "
                   "items it yields in the try body and re-raises, before the retry, when that count is non-zero")
    OML = "coba/environments/openml.py"
    n = 0
    for (rel, qual), fn in sorted(ctx.model.functions.items()):
        if rel != OML:
            continue
        name = qual.split(".")[-1]
        for t in [t for t in ast.walk(fn) if isinstance(t, ast.Try)]:
            for h in t.handlers:
                retries = [y for y in ast.walk(h) if isinstance(y, ast.YieldFrom) and isinstance(y.value, ast.Call) and call_tail(y.value) == name]
                if not retries:
                    continue
                n += 1
                ctx.touch(OML, qual)
                body_yields = [y for b in t.body for y in ast.walk(b) if isinstance(y, (ast.Yield, ast.YieldFrom))]
                counters = set()
                counted = True
                for y in body_yields:
                    if isinstance(y, ast.YieldFrom):
                        counted = False   # a delegated stream cannot be counted
                        continue
                    st = enclosing_stmt(y)
                    body = None
                    from ..model import parent
                    p_ = parent(st)
                    for field in ("body", "orelse"):
                        if st in (getattr(p_, field, None) or []):
                            body = getattr(p_, field)
                    before = body[:body.index(st)] if body else []
                    incs = [b for b in before if isinstance(b, ast.AugAssign) and isinstance(b.op, ast.Add) and isinstance(b.target, ast.Name)]
                    if not incs:
                        counted = False
                    counters |= {b.target.id for b in incs}
                guard = [x for x in h.body if isinstance(x, ast.If) and any(isinstance(r, ast.Raise) for r in x.body) and any(isinstance(nm, ast.Name) and nm.id in counters for nm in ast.walk(x.test))
                         and x.lineno < retries[0].lineno]
                ctx.ob(rule, OML, qual, retries[0], "the retry is reached only when nothing was yielded before the failure (yields counted, non-zero count re-raises)", counted and bool(counters) and bool(guard),
                       detail={"counters": sorted(counters), "yields counted": counted})
    ctx.floor(rule, "retrying generator getters", n, 1)


def r9_presence_agreement(ctx, rule="C19.R9"):
    """ConcurrentCacher chooses between its read path (read lock, inner get_set(key, None)) and its write path by `key in <inner cache>`:
    an inner get_set that mutates the store for a key its own __contains__ reports as present mutates under a mere read lock."""
    from ..util import all_guards
    ctx.rule(rule, "presence agreement of the inner cachers: in get_set of every Cacher that can sit inside a ConcurrentCacher, each statement that removes or (re)writes "
                   "the entry is guarded by `key not in self` -- the negation of the very predicate ConcurrentCacher uses to take the read path; an extra notion of "
                   "'absent' inside get_set (e.g. a zero-length file) is a write under a read lock and a getter of None")
    base = ctx.model.cls(CCH, "Cacher")
    n = 0
    for c in ctx.model.subclasses(base):
        if c.rel != CCH or c.name in ("ConcurrentCacher", "NullCacher"):
            continue
        fn = c.methods.get("get_set")
        if fn is None:
            continue
        ctx.touch(CCH, f"{c.name}.get_set")
        K = fn.args.args[1].arg
        muts = []
        for x in ast.walk(fn):
            if isinstance(x, ast.Call) and isinstance(x.func, ast.Attribute) and is_self_attr(x.func, "rmv"):
                muts.append((x, "removes the entry"))
            if isinstance(x, ast.Call) and (call_name(x) or "").split(".")[-1] == "open" and any(isinstance(a, ast.Constant) and isinstance(a.value, str) and a.value[:1] in "wxa" for a in x.args[1:2]):
                muts.append((x, "opens the entry for writing"))
            if isinstance(x, (ast.Assign, ast.Delete)) and any(isinstance(t, ast.Subscript) and is_self_attr(t.value) for t in x.targets):
                muts.append((x, "stores / deletes the entry"))
        for x, what in muts:
            n += 1
            gs = all_guards(x, fn)
            ok = any((canon(unparse(t)) == canon(f"{K} not in self") and pol) or (canon(unparse(t)) == canon(f"{K} in self") and not pol) for t, pol in gs)
            ctx.ob(rule, CCH, f"{c.name}.get_set", x, f"get_set {what} only for a key that `in` reports absent", ok,
                   detail={"guards": [(unparse(t), pol) for t, pol in gs]})
    ctx.floor(rule, "mutating statements in the inner cachers' get_set", n, 3)


CONTROLS = [
    ("a __getstate__ prepares its state inside the live __dict__", "coba/pipes/filters.py", M.replace_expr("Cache.__getstate__", "self.__dict__.copy()", "self.__dict__"), "C19.R13"),
    ("workers count readers and writers in private lists", "coba/multiprocessing.py", M.replace_expr("CobaMultiprocessor.filter", "ConcurrentCacher(CobaContext.cacher, array, lock)", "ConcurrentCacher(CobaContext.cacher, lock=lock)"), "C19.R11"),
    ("rmv names the file without expanding ~", CCH, M.replace_stmt("DiskCacher.rmv", lambda st: isinstance(st, ast.If), "path = Path(self._cache_dir, self._cache_name(key))\nif path.exists(): path.unlink()"), "C19.R12"),
    ("openml download restarts behind a partial body", "coba/environments/openml.py", M.replace_expr("OpenmlSource._http_request", "tries == 3 or n_lines", "tries == 3"), "C19.R10"),
    ("get_set releases on Exception only", CCH, M.replace_stmt("ConcurrentCacher.get_set", lambda st: isinstance(st, ast.Try),
        "try:\n    self._acquire_write_lock(key)\n    item = self._cache.get_set(key, getter)\n    self._switch_write_to_read_lock(key)\n    return self._release_read_on_exit(key, item)\nexcept Exception as e:\n    if self._has_read_lock(key): self._release_read_lock(key)\n    if self._has_write_lock(key): self._release_write_lock(key)\n    raise"), "C19.R2"),
    ("MemoryCacher refreshes None entries", CCH, M.insert_before("MemoryCacher.get_set", M.text_has("if key not in self"), "if key in self and self._cache[key] is None: del self._cache[key]"), "C19.R9"),
    ("write lock released twice", CCH, M.replace_stmt("ConcurrentCacher.rmv", lambda st: isinstance(st, ast.Try),
        "try:\n    if key in self:\n        self._acquire_write_lock(key)\n        lock = 'write'\n        self._cache.rmv(key)\n        self._release_write_lock(key)\nfinally:\n    if lock == 'write': self._release_write_lock(key)"), "C19.R2"),
    ("slot from the salted builtin hash", CCH, M.replace_expr("ConcurrentCacher._index", "int.from_bytes(blake2b(str(key).encode('utf-8'), digest_size=self._digest_size).digest(), 'big')",
                                                            "hash(str(key)) % 2 ** (8 * self._digest_size)"), "C19.R8"),
    ("no release in handler", CCH, M.replace_stmt("ConcurrentCacher.get_set", M.text_has("if self._has_read_lock(key)"), "pass"), "C19.R2"),
    ("lock flag set late", CCH, M.swap_stmts("ConcurrentCacher.rmv", M.simple_has("lock = 'write'"), M.simple_has("self._cache.rmv(key)")), "C19.R2"),
    ("return without release wrapper", CCH, M.replace_expr("ConcurrentCacher.get_set", "self._release_read_on_exit(key, item)", "item"), "C19.R2"),
    ("release helper without finally", CCH, M.replace_stmt("ConcurrentCacher._release_read_on_exit", lambda st: isinstance(st, ast.Try),
                                                              "with item as out:\n    yield out\nself._release_read_lock(key)"), "C19.R2"),
    ("counter update outside lock", CCH, M.replace_stmt("ConcurrentCacher._release_read_lock", lambda st: isinstance(st, ast.With),
                                                          "self._array[index] -= 1\nself._locks[current_thread().ident, key] -= 1"), "C19.R3"),
    ("writer enters among readers", CCH, M.replace_expr("ConcurrentCacher._acquire_write_lock", "self._array[index] == 0", "self._array[index] >= 0"), "C19.R4"),
    ("populate under read lock", CCH, M.replace_stmt("ConcurrentCacher.get_set", M.simple_has("self._release_read_lock(key)"), "pass"), "C19.R5"),
    ("partial file kept", CCH, M.replace_stmt("DiskCacher.get_set", M.text_has("if key in self: self.rmv(key)"), "pass"), "C19.R6"),
    ("caller without with", "coba/environments/openml.py", lambda tree: _unwrap_with(tree), "C19.R7"),
]


def _unwrap_with(tree):
    from ..mutate import TargetMissing
    for n in ast.walk(tree):
        for body in [getattr(n, f, None) for f in ("body", "orelse", "finalbody")]:
            if not isinstance(body, list):
                continue
            for i, st in enumerate(body):
                if isinstance(st, ast.With) and any("get_set(" in ast.unparse(it.context_expr) for it in st.items):
                    it = st.items[0]
                    assign = ast.Assign(targets=[it.optional_vars or ast.Name(id="_out", ctx=ast.Store())], value=it.context_expr, lineno=st.lineno, col_offset=0)
                    body[i:i + 1] = [assign] + st.body
                    return
    raise TargetMissing("with ... get_set")
