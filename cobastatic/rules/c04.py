"""C04 -- environments are re-readable (DESIGN.md 5/C04).

Decided: nothing that survives a read() can differ after a full / abandoned / repeated read
(one-shot iterators in long-lived state, cross-read self state classified by idiom, fresh
generator per read) and reading does not write into borrowed data (freshness analysis).
"""
import ast

from ..model import (walk_shallow, call_name, is_self_attr, dotted_name, parent, ancestors, enclosing_function,
                     is_generator, norm_stmt)
from ..util import (has_call, find_calls, assigned_value, const_str, unparse, kw, arg_or_kw, enclosing_stmt,
                    control_ancestors, guards_of, call_tail, node_ast_for_effects)
from .. import mutate as M

TECHNIQUE = 'static analysis: flow-sensitive freshness dataflow over the CFG (borrowed / shallow / deep / built levels, helper closures summarised), typestate of the replay buffer incl. generator-abandon edges, iterator-escape and cross-read-state classifiers, aligned-list lockstep rule'

EXPLANATION = ("Family-wide rules over every Source/Environment/Filter class (families computed from the class hierarchy): "
               "R1 no one-shot iterator is stored in long-lived state; R2 every self-state write on a read path is "
               "write-only, a first-time memo, a temporary rewrite restored in a finally covering its yields, or a tabled "
               "by-design replay buffer; R3 freshness analysis: in-place mutations only hit objects created/copied in the "
               "call; R4 randomness on read paths comes from a CobaRandom constructed in the same call; R5 "
               "environments.Cache hands out copies.")
EXPLANATION += ' R3 also summarises helper closures (a parameter a closure mutates must be bound to an object created in this call at every call site); R8: positionally aligned lists that are cross-indexed are changed in lockstep.'
EXPLANATION += ' R2 now rejects temporary rewrites of self state (overlapping reads); R6 covers a failing source (buffer and iterator dropped together); R9: memoised functions that draw from a generator never evict.'

PRIM = "coba/primitives.py"
EF = "coba/environments/filters.py"
PF = "coba/pipes/filters.py"
SUP = "coba/environments/supervised.py"

ITER_FUNCS = {"zip", "map", "filter", "iter", "enumerate", "reversed", "chain", "islice", "tee", "cycle", "repeat",
              "compress", "starmap", "accumulate", "groupby", "zip_longest", "product", "permutations", "combinations"}
MUTATORS = {"append", "extend", "insert", "pop", "remove", "clear", "update", "sort", "reverse", "setdefault", "popitem",
            "add", "discard"}
RAND_METHODS = {"random", "randoms", "randint", "randints", "shuffle", "choice", "choicew", "gauss", "gausses"}

# by-design cross-read state: one symbol, one reason per line
BY_DESIGN = {
    (PF, "Cache", "_cache"): "replay buffer of pipes.Cache: the whole point of the class is to keep what was read",
    (PF, "Cache", "_iter"): "pipes.Cache keeps the partially consumed source iterator so that a later read continues it",
    (SUP, "SupervisedSimulation", "_params"): "n_actions is only known after the data was read; the value is a function of the data, identical on every read",
    ("coba/environments/openml.py", "OpenmlSource", "_target"): "target column is resolved from the downloaded description once; same value every read",
    ("coba/environments/openml.py", "OpenmlSource", "_data_id"): "data id resolved from the task id once; same value every read",
    ("coba/environments/openml.py", "OpenmlSource", "_task_id"): "resolved once from the description; same value every read",
}


def run(ctx):
    fam = family(ctx)
    r1_iterator_escape(ctx, fam)
    r2_cross_read_state(ctx, fam)
    r3_copy_before_mutate(ctx)
    r4_fresh_rng(ctx, fam)
    r5_cache_copies(ctx)
    r6_replay_buffer(ctx)
    r7_held_learners(ctx, fam)
    r8_parallel_lists(ctx)
    r9_unbounded_memo_of_draws(ctx)
    r10_saved_params(ctx)
    from . import c13
    c13.r13_forwarding_getattr(ctx, rule="C04.R11")   # "after pickling": cached / materialised environments hold row views
    from . import c09
    c09.r8_cache_per_environment(ctx, rule="C04.R12")  # cache()/chunk(): one replay buffer per environment, never one shared through Environments.filter
    r13_member_numbering(ctx)
    r14_text_pickles(ctx)
    r15_picklable_state(ctx, fam)
    # "reading never modifies the data held by the source": the in-place filters (Scale, Impute) only ever see containers Mutable made for this read
    from . import c11
    ctx.rule("C04.R16", "Mutable hands the in-place filters a private container for every interaction, on every path (a cached / in-memory source's own rows are never written)")
    c11.mutable_private_containers(ctx, "C04.R16")
    r17_aliased_state(ctx, fam)
    r18_params_collected_not_changed(ctx)


DRAWS = {"choice", "choicew", "random", "randoms", "randint", "randints", "shuffle", "gauss", "gausses"}


def r9_unbounded_memo_of_draws(ctx, rule="C04.R9"):
    """A reward/feedback object that answers by drawing from its own generator is a function of its argument only because the answer is
    memoised; with a bounded memo an evicted entry is re-drawn and a replayed (materialized / cached) interaction answers differently."""
    ctx.rule(rule, "a memoised function whose body draws from a random generator is memoised without eviction (lru_cache(maxsize=None) / functools.cache): "
                   "it is re-asked when a materialized or cached environment is read again")
    n = 0
    for (rel, qual), fn in sorted(ctx.model.functions.items()):
        if rel.startswith("coba/tests"):
            continue
        memo = [d for d in fn.decorator_list if (dotted_name(d.func) if isinstance(d, ast.Call) else dotted_name(d) or "").split(".")[-1] in ("lru_cache", "cache")]
        if not memo:
            continue
        draws = [c for c in ast.walk(fn) if isinstance(c, ast.Call) and call_tail(c) in DRAWS and isinstance(c.func, ast.Attribute) and
                 ("rng" in unparse(c.func.value).lower() or "random" in unparse(c.func.value).lower())]
        if not draws:
            continue
        n += 1
        ctx.touch(rel, qual)
        d = memo[0]
        name = (dotted_name(d.func) if isinstance(d, ast.Call) else dotted_name(d)).split(".")[-1]
        unbounded = name == "cache" or (isinstance(d, ast.Call) and ((d.args and isinstance(d.args[0], ast.Constant) and d.args[0].value is None) or
                                                                     any(k.arg == "maxsize" and isinstance(k.value, ast.Constant) and k.value.value is None for k in d.keywords)))
        ctx.ob(rule, rel, qual, d, "the memo of a drawing function never evicts", unbounded, detail={"decorator": unparse(d), "draws": [unparse(c)[:60] for c in draws][:3]})
    ctx.floor(rule, "memoised functions that draw from a generator", n, 1)


def r10_saved_params(ctx, rule="C04.R10"):
    ctx.rule(rule, "save() stores the params an environment reports once it has been read: EnvironmentsToObjects starts reading the environment (peek) before it "
                   "takes env.params, and the peeked stream -- not a second read -- supplies the interactions")
    SER = "coba/environments/serialized.py"
    fn = ctx.fn(SER, "EnvironmentsToObjects._env_to_objects")
    E = fn.args.args[1].arg
    stmts = list(fn.body)
    idx_params = [i for i, st in enumerate(stmts) if any(isinstance(y, ast.Yield) and y.value is not None and unparse(y.value) == f"{E}.params" for y in ast.walk(st))]
    idx_read = [i for i, st in enumerate(stmts) if any(isinstance(c, ast.Call) and unparse(c.func) == f"{E}.read" for c in ast.walk(st))
                and any(isinstance(c, ast.Call) and call_name(c) in ("peek_first", "next", "list") for c in ast.walk(st))]
    ok = bool(idx_params) and bool(idx_read) and min(idx_read) < min(idx_params)
    ctx.ob(rule, SER, "EnvironmentsToObjects._env_to_objects", stmts[idx_params[0]] if idx_params else fn, "the environment has been read (peeked) before its params are taken", ok, stmt="params after peek")
    reads = [c for c in ast.walk(fn) if isinstance(c, ast.Call) and unparse(c.func) == f"{E}.read"]
    ctx.ob(rule, SER, "EnvironmentsToObjects._env_to_objects", reads[0] if reads else fn, "the environment is read once for saving (the peeked stream is the one that is stored)", len(reads) == 1, stmt="one read for saving")


STRUCT_MUT = {"pop", "insert", "remove", "append", "sort", "reverse", "clear", "extend"}


def aligned_pairs(fn):
    """[(A, B, assign)]: B = [f(e) for e in A] -- B[i] describes A[i] for every i."""
    out = []
    for x in walk_shallow(fn):
        if isinstance(x, ast.Assign) and len(x.targets) == 1 and isinstance(x.targets[0], ast.Name) and isinstance(x.value, ast.ListComp):
            g = x.value.generators
            if len(g) == 1 and not g[0].ifs and isinstance(g[0].iter, ast.Name):
                out.append((g[0].iter.id, x.targets[0].id, x))
    return out


def r8_parallel_lists(ctx, rule="C04.R8"):
    """save() works out which environments are already in the file through two positionally aligned lists; an index found in one is applied
    to the other, so every structural change must be applied to both, with the same argument, side by side."""
    ctx.rule(rule, "positionally aligned lists (B = [f(e) for e in A]) that are cross-indexed (an index found with B.index() applied to A) are "
                   "changed in lockstep: every pop/insert/remove/... on one has the same call on the other in the same block")
    CORE = "coba/environments/core.py"
    n = 0
    targets = [(CORE, "Environments.save")]
    if ctx.thorough:
        targets = [(r, q) for (r, q) in sorted(ctx.model.functions) if not r.startswith("coba/tests")]
    for rel, qual in targets:
        fn = ctx.fn(rel, qual) if (rel, qual) == (CORE, "Environments.save") else ctx.model.func(rel, qual)
        for A, B, asg in aligned_pairs(fn):
            def derived_from_index(e, lst):
                """e is lst.index(...) or a local whose only binding is that."""
                if isinstance(e, ast.Call) and isinstance(e.func, ast.Attribute) and e.func.attr == "index" and isinstance(e.func.value, ast.Name) and e.func.value.id == lst:
                    return True
                if isinstance(e, ast.Name):
                    defs = [x for x in walk_shallow(fn) if isinstance(x, ast.Assign) and any(isinstance(t, ast.Name) and t.id == e.id for t in x.targets)]
                    return bool(defs) and all(derived_from_index(d.value, lst) for d in defs)
                return False
            uses = []
            for x in walk_shallow(fn):
                for this, other in ((A, B), (B, A)):
                    if isinstance(x, ast.Call) and isinstance(x.func, ast.Attribute) and isinstance(x.func.value, ast.Name) and x.func.value.id == this \
                            and x.func.attr in ("pop", "insert", "__getitem__", "__delitem__") and x.args and derived_from_index(x.args[0], other):
                        uses.append(x)
                    if isinstance(x, ast.Subscript) and isinstance(x.value, ast.Name) and x.value.id == this and derived_from_index(x.slice, other):
                        uses.append(x)
            if not uses:
                continue
            n += 1
            ctx.touch(rel, qual)
            muts = [c for c in walk_shallow(fn) if isinstance(c, ast.Call) and isinstance(c.func, ast.Attribute) and c.func.attr in STRUCT_MUT
                    and isinstance(c.func.value, ast.Name) and c.func.value.id in (A, B) and c.lineno > asg.lineno]
            for c in muts:
                other = B if c.func.value.id == A else A
                blk = parent(enclosing_stmt(c))
                def same(d):
                    return d is not c and d.func.value.id == other and d.func.attr == c.func.attr and \
                        ((not c.args and not d.args) or (c.args and d.args and (unparse(d.args[0]) == unparse(c.args[0]) or
                                                                         (derived_from_index(c.args[0], A) or derived_from_index(c.args[0], B)) and
                                                                         isinstance(c.args[0], ast.Name) and isinstance(d.args[0], ast.Name) and d.args[0].id == c.args[0].id)))
                partner = [d for d in muts if same(d) and parent(enclosing_stmt(d)) is blk]
                ctx.ob(rule, rel, qual, c, f"`{c.func.value.id}.{c.func.attr}(...)` has the same call on the aligned list `{other}` in the same block", bool(partner),
                       detail={"aligned": [A, B], "cross_indexed_at": [u.lineno for u in uses]})
    ctx.floor(rule, "cross-indexed aligned list pairs", n, 1)


def family(ctx):
    m = ctx.model
    out = {}
    for base in ("Source", "Filter", "Environment", "EnvironmentFilter"):
        b = m.cls(PRIM, base)
        for c in m.subclasses(b):
            if c.rel.startswith("coba/context/") or c.rel.startswith("coba/experiments/") or c.rel == "coba/multiprocessing.py" \
                    or c.rel == "coba/pipes/multiprocessing.py":
                continue
            out[c.key] = c
    # plus duck-typed helper classes defined in the same modules that have read()/filter() and are stored long-lived
    return dict(sorted(out.items()))


def per_read_classes(ctx):
    """classes all of whose construction sites are inside read()/filter()/evaluate() bodies and whose instances are
    not stored on self there (nested classes of such methods included)."""
    cached = getattr(ctx, "_per_read", None)
    if cached is not None:
        return cached
    m = ctx.model
    out = set()
    for c in m.classes:
        if "." in c.qual and any(seg in ("read", "filter", "evaluate") for seg in c.qual.split(".")[:-1]):
            out.add(c.key)
    sites = {}
    for rel, qual, fn in m.all_functions():
        mod = m.module(rel)
        scope = qual.rpartition(".")[0]
        for x in walk_shallow(fn):
            if isinstance(x, ast.Call) and isinstance(x.func, (ast.Name, ast.Attribute)):
                d = dotted_name(x.func)
                if d is None or not d.split(".")[-1][:1].isupper():
                    continue
                res = m.resolve_in(mod, x.func, scope)
                if res in m.class_index:
                    sites.setdefault(res, []).append((rel, qual, x))
    for c in m.classes:
        if c.key in out:
            continue
        ss = sites.get(c.key, [])
        if ss and all(q.split(".")[-1] in ("read", "filter", "_results", "evaluate") or ".read." in q or ".filter." in q for _, q, _ in ss):
            if not any(isinstance(parent(x), ast.Assign) and any(is_self_attr(t) for t in parent(x).targets) for _, _, x in ss):
                out.add(c.key)
    ctx._per_read = out
    return out


# ------------------------------------------------------------------------------------------ R1
def _generator_functions(ctx):
    return {(rel, qual) for rel, qual, fn in ctx.model.all_functions() if is_generator(fn)}


def is_iterator_expr(e, fn=None, depth=0):
    if isinstance(e, ast.GeneratorExp):
        return True
    if isinstance(e, ast.Call):
        nm = call_name(e)
        if nm is not None and nm.split(".")[-1] in ITER_FUNCS and nm.split(".")[0] in ITER_FUNCS | {"itertools"}:
            return True
    if isinstance(e, ast.Name) and fn is not None and depth < 2:
        vals = assigned_value(fn, e.id)
        return bool(vals) and any(is_iterator_expr(v, fn, depth + 1) for v in vals)
    return False


def _aliases(e):
    """names whose object the value of `e` may BE (not merely be computed from)."""
    if isinstance(e, ast.Name):
        return {e.id}
    if isinstance(e, ast.IfExp):
        return _aliases(e.body) | _aliases(e.orelse)
    if isinstance(e, ast.BoolOp):
        out = set()
        for v in e.values:
            out |= _aliases(v)
        return out
    return set()


def r1_iterator_escape(ctx, fam, rule="C04.R1", only=None):
    ctx.rule(rule, "no one-shot iterator (zip/map/iter/generator expression ...) is stored -- directly or through a "
                       "constructor that keeps its argument -- in an object that outlives a read")
    m = ctx.model
    keepers = {}  # class key -> set of ctor param positions/names stored on self
    for c in m.classes:
        init = c.methods.get("__init__")
        if init is None:
            continue
        params = [a.arg for a in init.args.args[1:]]
        kept = set()
        for x in walk_shallow(init):
            if isinstance(x, ast.Assign) and any(is_self_attr(t) for t in x.targets):
                kept |= _aliases(x.value) & set(params)
        if kept:
            keepers[c.key] = (params, kept)
    n = 0
    for key, c in fam.items():
        if only is not None and c.name not in only:
            continue
        for mname, fn in c.methods.items():
            if mname in ("read", "filter") or mname.startswith("_") and mname != "__init__":
                continue
            qual = c.qual + "." + mname
            for x in walk_shallow(fn):
                if enclosing_function(x) is not fn:
                    continue
                # (a) direct store
                if isinstance(x, ast.Assign) and any(is_self_attr(t) for t in x.targets):
                    n += 1
                    bad = is_iterator_expr(x.value, fn)
                    # (b) through a keeper constructor
                    why = "iterator stored on self" if bad else ""
                    for v in [x.value] + (assigned_value(fn, x.value.id) if isinstance(x.value, ast.Name) else []):
                        if isinstance(v, ast.Call):
                            res = m.resolve_in(c.module, v.func, c.qual)
                            if res in keepers:
                                params, kept = keepers[res]
                                for i, a in enumerate(v.args):
                                    if i < len(params) and params[i] in kept and is_iterator_expr(a, fn):
                                        bad, why = True, f"{res[1]}(...) keeps its argument and is given a one-shot iterator"
                                for k in v.keywords:
                                    if k.arg in kept and is_iterator_expr(k.value, fn):
                                        bad, why = True, f"{res[1]}(...) keeps its argument and is given a one-shot iterator"
                    ctx.ob(rule, c.rel, qual, x, "long-lived state does not hold a one-shot iterator", not bad,
                           detail={"why": why} if bad else None)
    # static constructors of Environments
    envs = ctx.model.cls("coba/environments/core.py", "Environments")
    for mname, fn in (envs.methods.items() if only is None else []):
        for x in walk_shallow(fn):
            if isinstance(x, ast.Call):
                res = m.resolve_in(envs.module, x.func, "Environments")
                if res in keepers and res in fam:
                    params, kept = keepers[res]
                    n += 1
                    bad = any(i < len(params) and params[i] in kept and is_iterator_expr(a, fn) for i, a in enumerate(x.args)) or \
                        any(k.arg in kept and is_iterator_expr(k.value, fn) for k in x.keywords)
                    ctx.ob(rule, envs.rel, "Environments." + mname, x, "source objects are built from re-iterable inputs", not bad)
    if only is None:
        ctx.floor(rule, "self-state stores / source constructions examined", n, 60)


# ------------------------------------------------------------------------------------------ R2
def _self_writes(fn):
    """[(attr, node, kind)] writes to self state in fn (stores, aug-assign, del, mutating calls, subscript stores)."""
    out = []
    for x in walk_shallow(fn):
        if enclosing_function(x) is not fn:
            continue
        targets = []
        if isinstance(x, ast.Assign):
            targets = [(t, "store") for t in x.targets]
        elif isinstance(x, ast.AugAssign):
            targets = [(x.target, "augassign")]
        elif isinstance(x, ast.AnnAssign) and x.value is not None:
            targets = [(x.target, "store")]
        elif isinstance(x, ast.Delete):
            targets = [(t, "del") for t in x.targets]
        flat = []
        for t, k in targets:
            if isinstance(t, (ast.Tuple, ast.List)):
                flat += [(e, k) for e in t.elts]
            else:
                flat.append((t, k))
        for t, k in flat:
            base = t
            sub = False
            while isinstance(base, ast.Subscript):
                base = base.value
                sub = True
            if is_self_attr(base):
                out.append((base.attr, x, k + ("[]" if sub else "")))
        if isinstance(x, ast.Call) and isinstance(x.func, ast.Attribute) and x.func.attr in MUTATORS:
            base = x.func.value
            while isinstance(base, ast.Subscript):
                base = base.value
            if is_self_attr(base):
                out.append((base.attr, x, "call:" + x.func.attr))
    return out


def _attr_loaded_anywhere(ctx, c, attr, writes_nodes):
    """is self.<attr> (or <obj>.<attr> from outside) read anywhere in the class family / package other than
    inside the writing statements themselves?"""
    m = ctx.model
    classes = [c] + m.subclasses(c) + [k for k in m.mro(c) if k is not c]
    for k in classes:
        for fn in k.methods.values():
            for x in ast.walk(fn):
                if is_self_attr(x, attr) and isinstance(x.ctx, ast.Load):
                    st = enclosing_stmt(x)
                    if st in writes_nodes:
                        # reading inside the write statement itself (e.g. self._t[0] += ..) does not count,
                        # unless it is on the value side of a plain store
                        if isinstance(st, ast.AugAssign) or (isinstance(st, ast.Expr)):
                            continue
                    return True
                # reflective reads: getattr(self, 'attr'[, default]) / hasattr(self, 'attr') / vars(self) / self.__dict__
                if isinstance(x, ast.Call) and call_name(x) in ("getattr", "hasattr") and len(x.args) >= 2 and isinstance(x.args[0], ast.Name) and x.args[0].id == "self" \
                        and (const_str(x.args[1]) == attr or const_str(x.args[1]) is None):
                    return True
                if (isinstance(x, ast.Call) and call_name(x) == "vars" and x.args and isinstance(x.args[0], ast.Name) and x.args[0].id == "self") or \
                        (isinstance(x, ast.Attribute) and x.attr == "__dict__" and isinstance(x.value, ast.Name) and x.value.id == "self" and fn.name not in ("__getstate__", "__setstate__", "__reduce__")):
                    return True
    # access from other modules through an object: <x>.<attr>
    for mod in m.modules.values():
        for x in ast.walk(mod.tree):
            if isinstance(x, ast.Attribute) and x.attr == attr and isinstance(x.ctx, ast.Load) and not is_self_attr(x):
                if attr.startswith("_") and not isinstance(x.value, ast.Name):
                    continue
                if attr.startswith("_"):
                    return True
    return False


def _is_memo(node, fn, attr):
    for test, pol in guards_of(enclosing_stmt(node), fn):
        t = unparse(test)
        if f"self.{attr}" in t and (" is None" in t or " is not None" in t or " not in " in t or " in " in t or t.startswith("not self.")):
            return True
    return False


def _temp_rewrite_ok(fn, attr, writes):
    """two stores S1,S2 to the attribute where S2 restores a value saved before S1: accepted iff S2 is in the
    finalbody of a try whose body contains every yield between them."""
    stores = [n for a, n, k in writes if a == attr and k == "store" and isinstance(n, ast.Assign)]
    if len(stores) != 2:
        return None
    s1, s2 = sorted(stores, key=lambda s: s.lineno)
    if not isinstance(s2.value, ast.Name):
        return None
    saved = [v for v in assigned_value(fn, s2.value.id) if unparse(v) == f"self.{attr}"]
    if not saved:
        return None
    # s2 must be inside a finalbody
    for comp, branch in control_ancestors(s2, fn):
        if isinstance(comp, ast.Try) and branch == "finalbody":
            ys = [y for y in walk_shallow(fn) if isinstance(y, (ast.Yield, ast.YieldFrom)) and s1.lineno < y.lineno < s2.lineno]
            in_body = all(any(y in list(walk_shallow(b)) for b in comp.body) for y in ys)
            s1_before = s1.lineno < comp.body[0].lineno or any(s1 in list(walk_shallow(b)) for b in comp.body)
            return in_body and s1_before
    return False


def read_path_methods(ctx, c):
    """read/filter plus the self.<helper>() methods they (transitively) call, resolved through the MRO."""
    m = ctx.model
    out, todo = {}, [n for n in ("read", "filter") if n in c.methods]
    while todo:
        name = todo.pop()
        if name in out:
            continue
        r = m.lookup_method(c, name)
        if r is None:
            continue
        owner, fn = r
        if owner is not c:
            continue  # judged on the owner
        out[name] = fn
        for x in walk_shallow(fn):
            if isinstance(x, ast.Call) and isinstance(x.func, ast.Attribute) and isinstance(x.func.value, ast.Name) \
                    and x.func.value.id == "self" and x.func.attr not in out:
                todo.append(x.func.attr)
            if isinstance(x, ast.Attribute) and is_self_attr(x) and x.attr in c.methods and x.attr not in out and isinstance(x.ctx, ast.Load):
                todo.append(x.attr)  # method passed as a value (map(self._f, ...)) or property
    return out


def r2_cross_read_state(ctx, fam, rule="C04.R2", only=None):
    ctx.rule(rule, "every write to self state on a read path is write-only, a first-time memo, a temporary rewrite "
                       "restored in a finally that covers its yields, or a tabled by-design replay buffer")
    per_read = per_read_classes(ctx)
    n = 0
    for key, c in fam.items():
        if key in per_read:
            continue
        if only is not None and c.name not in only:
            continue
        for mname, fn in read_path_methods(ctx, c).items():
            qual = c.qual + "." + mname
            ctx.touch(c.rel, qual)
            writes = _self_writes(fn)
            by_attr = {}
            for a, node, k in writes:
                by_attr.setdefault(a, []).append((node, k))
            for attr, ws in sorted(by_attr.items()):
                n += 1
                nodes = [w for w, _ in ws]
                verdict, why = None, ""
                if (c.rel, c.name, attr) in BY_DESIGN:
                    verdict, why = True, "by design: " + BY_DESIGN[(c.rel, c.name, attr)]
                elif not _attr_loaded_anywhere(ctx, c, attr, nodes):
                    verdict, why = True, "write-only (never read on any path)"
                elif all(_is_memo(w, fn, attr) for w in nodes):
                    verdict, why = True, "first-time memo (guarded by a test of the same attribute)"
                else:
                    tr = _temp_rewrite_ok(fn, attr, writes)
                    if tr is True:
                        verdict, why = False, ("temporary rewrite restored in finally: safe for sequential and abandoned reads, but two overlapping reads see each "
                                               "other's rewritten value and closing them in creation order leaves it behind")
                    elif tr is False:
                        verdict, why = False, "temporary rewrite whose restoring store is not in a finally covering the yields (an abandoned read leaves the rewritten value)"
                    else:
                        verdict, why = False, "state written on a read path and read later: a second / abandoned read can observe it"
                ctx.ob(rule, c.rel, qual, nodes[0], f"write to self.{attr} on a read path is not cross-read state", verdict,
                       detail={"classification": why, "writes": [k for _, k in ws]}, stmt=f"self.{attr} <- " + norm_stmt(nodes[0]))
    if only is None:
        ctx.floor(rule, "self-state writes on read paths", n, 8)


# ------------------------------------------------------------------------------------------ R3
# freshness levels
PR = "coba/pipes/rows.py"
B, F1, F2, FL = 0, 1, 2, 3   # borrowed / shallow copy / copy whose 'context' is fresh too / built in this call (literal, constructor)
STREAM_PASS = {"iter", "chain", "islice", "list", "tuple", "sorted", "reversed", "filter"}
FRESH_CALLS = {"list", "dict", "set", "tuple", "sorted", "bytearray", "frozenset"}
BUILD_CALLS = {"defaultdict", "OrderedDict", "Counter", "deque", "collections.defaultdict"}


class Fresh:
    """Flow-sensitive freshness of locals (forward dataflow over the CFG).
    state: key -> (kind, level, fresh_container); key is a local name or "name['k']".
    kind 'obj'   : one interaction / container, `level` = its own freshness
    kind 'stream': iterable of interactions, `level` = freshness of its elements,
                   fresh_container = the iterable itself was created in this call (list(...))."""

    def __init__(self, fn, param_stream_names, init_extra=None):
        from ..cfg import CFG, forward
        self.fn = fn
        self.cfg = CFG(fn)
        init = {p: ("stream", B, False) for p in param_stream_names}
        init.update(init_extra or {})
        self.IN = forward(self.cfg, init, self.transfer, self.join)

    # -- lattice
    @staticmethod
    def join(a, b):
        if a is b:
            return a
        out = dict(a)
        for k, v in b.items():
            if k in out and out[k] != v:
                o = out[k]
                out[k] = (o[0] if o[0] == v[0] else "obj", min(o[1], v[1]), o[2] and v[2])
            elif k not in out:
                out[k] = v
        return out

    # -- expression evaluation in a state
    def level_obj(self, e, st):
        if isinstance(e, (ast.Dict, ast.List, ast.Set, ast.ListComp, ast.DictComp, ast.SetComp, ast.Tuple, ast.Constant, ast.JoinedStr,
                          ast.BinOp, ast.Compare, ast.BoolOp, ast.UnaryOp, ast.Lambda, ast.GeneratorExp)):
            return FL
        if isinstance(e, ast.Call):
            nm, tail = call_name(e), call_tail(e)
            if tail == "copy" and isinstance(e.func, ast.Attribute) and not e.args:
                return F1
            if nm in ("copy.deepcopy", "deepcopy"):
                return FL
            if nm in BUILD_CALLS:
                return FL
            if nm in FRESH_CALLS:
                return F1 if e.args else FL  # list(x)/dict(x) are shallow copies, list()/dict() are new
            if nm is not None and nm.split(".")[-1][:1].isupper():
                return FL
            if nm == "next" and e.args:
                k = self.kind_level(e.args[0], st)
                return k[1] if k and k[0] == "stream" else F1
            if tail in ("get", "pop", "setdefault", "__getitem__") and isinstance(e.func, ast.Attribute):
                base = e.func.value
                if isinstance(base, ast.Name) and base.id in st and st[base.id][0] == "obj":
                    return FL if st[base.id][1] == FL else B  # a member of a tracked object
                return F1
            return F1
        if isinstance(e, ast.Name):
            k = st.get(e.id)
            if k is None:
                return F1  # a local never bound to input data
            return k[1] if k[0] == "obj" else B
        if isinstance(e, ast.Subscript):
            txt = unparse(e)
            if txt in st:
                return st[txt][1]
            base = e.value
            if isinstance(base, ast.Name):
                k = st.get(base.id)
                if k is None:
                    return F1
                if k[0] == "stream":
                    return k[1]  # element of a materialised stream
                if k[1] == F2 and const_str(e.slice) == "context":
                    return F1
                if k[1] == FL:
                    return FL
                return B
            return B if not isinstance(base, ast.Attribute) else F1
        if isinstance(e, ast.IfExp):
            return min(self.level_obj(e.body, st), self.level_obj(e.orelse, st))
        if isinstance(e, ast.Attribute):
            if isinstance(e.value, ast.Name) and e.value.id in st and st[e.value.id][0] == "obj":
                return B
            return F1  # self.<field> / Class.<field>: not input data (self state is R2's domain)
        return F1

    def kind_level(self, e, st):
        if isinstance(e, ast.Name):
            return st.get(e.id)
        if isinstance(e, ast.Call):
            nm, tail = call_name(e), call_tail(e)
            if tail == "filter" and isinstance(e.func, ast.Attribute) and isinstance(e.func.value, ast.Call) \
                    and call_name(e.func.value) == "Mutable":
                return ("stream", F2, False)
            if nm == "map" and e.args and unparse(e.args[0]) in ("methodcaller('copy')", "copy.copy", "dict"):
                return ("stream", F1, False)
            if nm in STREAM_PASS or (tail == "filter" and isinstance(e.func, ast.Attribute)) or nm in ("tee",):
                lv = []
                for a in e.args:
                    a = a.value if isinstance(a, ast.Starred) else a
                    k = self.kind_level(a, st)
                    if k and k[0] == "stream":
                        lv.append(k[1])
                if lv:
                    return ("stream", min(lv), nm in ("list", "sorted"))
            if nm == "peek_first" and e.args:
                k = self.kind_level(e.args[0], st)
                if k and k[0] == "stream":
                    return ("peek", k[1], False)
            if nm in ("zip", "enumerate"):
                lv = [self.kind_level(a, st) for a in e.args]
                lv = [k[1] for k in lv if k and k[0] == "stream"]
                if lv:
                    return ("zipstream", min(lv), False)
            if tail == "copy" and not e.args and isinstance(e.func, ast.Attribute):
                k = self.kind_level(e.func.value, st)
                if k and k[0] == "stream":
                    return ("stream", k[1], True)  # a new list holding the same elements
            if tail == "shuffle" and e.args:  # rng.shuffle(stream[, inplace]) re-orders, elements unchanged
                k = self.kind_level(e.args[0], st)
                if k and k[0] == "stream":
                    return ("stream", k[1], True)
        if isinstance(e, ast.IfExp):
            a, b = self.kind_level(e.body, st), self.kind_level(e.orelse, st)
            if a and b and a[0] == b[0] == "stream":
                return ("stream", min(a[1], b[1]), a[2] and b[2])
            if a and a[0] == "stream" and isinstance(e.orelse, ast.Call) and call_name(e.orelse) in ("list",):
                return a
        if isinstance(e, ast.Subscript) and isinstance(e.value, ast.Call) and call_name(e.value) == "peek_first":
            k = self.kind_level(e.value, st)
            if k:
                return ("stream", k[1], False) if unparse(e.slice) == "1" else ("obj", k[1], True)
        return None

    def _bind(self, out, target, kl):
        if isinstance(target, ast.Name):
            for k in [k for k in out if k.startswith(target.id + "[")]:
                del out[k]
            out[target.id] = kl

    def _bind_value(self, out, t, v, st):
        k = self.kind_level(v, st)
        if isinstance(t, ast.Tuple) and k and k[0] == "peek" and len(t.elts) == 2:
            self._bind(out, t.elts[0], ("obj", k[1], True))
            self._bind(out, t.elts[1], ("stream", k[1], False))
        elif isinstance(t, ast.Name):
            if k and k[0] in ("stream", "obj"):
                self._bind(out, t, k)
            elif k and k[0] == "zipstream":
                self._bind(out, t, ("stream", k[1], False))
            else:
                self._bind(out, t, ("obj", self.level_obj(v, st), True))
        elif isinstance(t, ast.Tuple):
            if isinstance(v, ast.Tuple) and len(v.elts) == len(t.elts):
                for a, b in zip(t.elts, v.elts):
                    self._bind_value(out, a, b, st)
            elif k and k[0] == "stream":  # I1, I2 = tee(stream)
                for a in t.elts:
                    self._bind(out, a, ("stream", k[1], False))
            else:
                lvl = self.level_obj(v, st) if not isinstance(v, ast.Call) else B
                for a in t.elts:
                    self._bind(out, a, ("obj", B if isinstance(v, ast.Name) or lvl == B else lvl, True))
        elif isinstance(t, ast.Subscript) and isinstance(t.value, ast.Name) and isinstance(t.slice, ast.Constant):
            out[unparse(t)] = ("obj", self.level_obj(v, st), True)

    def transfer(self, n, st, label):
        if label in ("exc", "abandon"):
            return st
        a = n.ast
        if n.kind == "iter" and label == "loop":
            out = dict(st)
            k = self.kind_level(a.iter, st)
            tgt = a.target
            if k and k[0] == "stream":
                if isinstance(tgt, ast.Tuple):
                    for t in tgt.elts:
                        self._bind(out, t, ("obj", k[1], True))
                else:
                    self._bind(out, tgt, ("obj", k[1], True))
            elif k and k[0] == "zipstream" and isinstance(tgt, ast.Tuple):
                for t in tgt.elts:
                    self._bind(out, t, ("obj", k[1], True))
            else:
                for t in (tgt.elts if isinstance(tgt, ast.Tuple) else [tgt]):
                    if isinstance(t, ast.Name):
                        lvl = F1
                        if isinstance(a.iter, ast.Name) and a.iter.id in st:
                            lvl = st[a.iter.id][1]
                        self._bind(out, t, ("obj", lvl, True))
            return out
        if n.kind == "stmt" and isinstance(a, ast.Assign):
            out = dict(st)
            for t in a.targets:  # a = b[k] = value binds every target to the same value
                self._bind_value(out, t, a.value, st)
            return out
        return st


def mutation_sites_of(node_ast):
    """[(target name, node, how, keys)] in-place mutations through a local name in one statement."""
    return mutation_sites(node_ast, whole=False)


def mutation_sites(fn, whole=True):
    """[(target name, node, how)] in-place mutations through a local name."""
    out = []
    for x in walk_shallow(fn):
        if whole and enclosing_function(x) is not fn:
            continue
        tg = []
        if isinstance(x, ast.Assign):
            tg = [t for t in x.targets]
        elif isinstance(x, ast.AugAssign):
            tg = [x.target]
        elif isinstance(x, ast.Delete):
            tg = x.targets
        flat = []
        for t in tg:
            flat += t.elts if isinstance(t, (ast.Tuple, ast.List)) else [t]
        for t in flat:
            if isinstance(t, ast.Subscript):
                base = t.value
                depth_keys = [t.slice]
                while isinstance(base, ast.Subscript):
                    depth_keys.append(base.slice)
                    base = base.value
                if isinstance(base, ast.Name):
                    out.append((base.id, x, "subscript-store", list(reversed(depth_keys))))
            elif isinstance(x, ast.AugAssign) and isinstance(t, ast.Name):
                out.append((t.id, x, "augassign", []))
        if isinstance(x, ast.Call) and isinstance(x.func, ast.Attribute) and x.func.attr in MUTATORS:
            base = x.func.value
            keys = []
            while isinstance(base, ast.Subscript):
                keys.append(base.slice)
                base = base.value
            if isinstance(base, ast.Name) and base.id != "self":
                out.append((base.id, x, "call:" + x.func.attr, list(reversed(keys))))
    return out


def r3_targets(ctx):
    m = ctx.model
    out = []
    for rel in (EF, PF):
        for (r, qual), fn in sorted(m.functions.items()):
            if r == rel and qual.count(".") == 1 and qual.split(".")[-1] in ("filter", "_unbatch", "_batched"):
                out.append((rel, qual, fn))
    for qual in ("EncodeCatRows._encode_collection", "EncodeCatRows._encode_values"):
        out.append((PR, qual, m.func(PR, qual)))
    out.append(("coba/evaluators/sequential.py", "RejectionCB.evaluate", m.func("coba/evaluators/sequential.py", "RejectionCB.evaluate")))
    out.append(("coba/evaluators/sequential.py", "SequentialCB._results", m.func("coba/evaluators/sequential.py", "SequentialCB._results")))
    # readers defined inside evaluator methods (SequentialIGL wraps the environment in a local class whose read() rewrites every interaction)
    for (r, qual), fn in sorted(m.functions.items()):
        if r == "coba/evaluators/sequential.py" and qual.count(".") == 1:
            for g in ast.walk(fn):
                if isinstance(g, ast.FunctionDef) and g is not fn and g.name == "read":
                    out.append((r, f"{qual}.<locals>.read", g))
    if ctx.thorough:
        for rel in ("coba/environments/synthetics.py", "coba/environments/supervised.py", "coba/environments/results.py",
                    "coba/environments/serialized.py", "coba/environments/openml.py", "coba/evaluators/offline.py"):
            if rel in m.modules:
                for (r, qual), fn in sorted(m.functions.items()):
                    if r == rel and qual.split(".")[-1] in ("read", "filter", "evaluate"):
                        out.append((rel, qual, fn))
    return out


def r3_copy_before_mutate(ctx, rule="C04.R3", only=None):
    ctx.rule(rule, "freshness analysis of filter()/evaluate(): an in-place mutation (subscript store, augmented assign, "
                   "del, append/pop/update/...) never targets an object borrowed from the input stream")
    n = 0
    for rel, qual, fn in r3_targets(ctx):
        if only is not None and qual.split(".")[0] not in only:
            continue
        params = [a.arg for a in fn.args.args if a.arg != "self"]
        if qual.endswith("evaluate"):
            params = []
        if qual.endswith("RejectionCB.evaluate"):
            params = []
        ctx.touch(rel, qual)
        # helper closures: a parameter the closure mutates in place must be bound to an object created in this call at every call site
        # (checked below); inside the closure that parameter is then a shallow copy, every other parameter is borrowed
        closures = {g.name: g for g in ast.walk(fn) if isinstance(g, ast.FunctionDef) and g is not fn}
        mut_params = {}
        for g in closures.values():
            ps = [a.arg for a in g.args.args]
            mut_params[g.name] = [i for i, p_ in enumerate(ps) if any(nm == p_ for nm, *_ in mutation_sites(g))]
        units = [(fn, Fresh(fn, params))]
        for g in closures.values():
            ps = [a.arg for a in g.args.args]
            init = {p_: ("obj", F1 if i in mut_params[g.name] else B, True) for i, p_ in enumerate(ps)}
            units.append((g, Fresh(g, [], init)))
        for unit, fr_ in units:
            for node in fr_.cfg.nodes:
                if node.kind not in ("stmt", "test", "iter") or node.ast is None or node.id not in fr_.IN:
                    continue
                for call in [c for c in walk_shallow(node_ast_for_effects(node)) if isinstance(c, ast.Call) and isinstance(c.func, ast.Name) and c.func.id in closures]:
                    for i in mut_params[call.func.id]:
                        if i < len(call.args):
                            lvl = fr_.level_obj(call.args[i], fr_.IN[node.id])
                            n += 1
                            ctx.ob(rule, rel, qual, call, f"`{call.func.id}` mutates its argument {i} in place: the object passed was created in this call", lvl >= F1,
                                   detail={"closure": call.func.id, "in": unit.name, "level": lvl})
        for unit, fr in units:
          reach = fr.cfg.reachable()
          seen_nodes = set()
          for node in fr.cfg.nodes:
              if node.id not in reach or node.kind != "stmt" or node.ast is None or node.id not in fr.IN:
                  continue
              if isinstance(node.ast, (ast.FunctionDef, ast.ClassDef)):
                  continue
              if id(node.ast) in seen_nodes:
                  continue
              seen_nodes.add(id(node.ast))
              st = fr.IN[node.id]
              for name, x, how, keys in mutation_sites_of(node.ast):
                  kl = st.get(name)
                  if kl is None:
                      continue  # a local never bound to input data
                  kind, lvl, cont = kl
                  origin = {B: "borrowed from the input", F1: "shallow copy made in this call", F2: "copy incl. context (Mutable)", FL: "built in this call"}[lvl]
                  if kind == "stream":
                      if len(keys) <= 1 and (how.startswith("call:") or how == "subscript-store"):
                          ok = cont  # re-ordering / replacing slots of a list built in this call
                          origin = "container built in this call" if cont else "the input iterable itself"
                      else:
                          ok = lvl >= F1
                  elif len(keys) >= 2 or (how.startswith("call:") and len(keys) == 1):
                      sub = f"{name}[{unparse(keys[0])}]"
                      if sub in st:
                          ok = st[sub][1] >= F1
                      else:
                          ok = (lvl == F2 and const_str(keys[0]) == "context") or lvl == FL
                  else:
                      ok = lvl >= F1
                  n += 1
                  ctx.ob(rule, rel, qual, x, f"in-place mutation of `{name}` ({how}) hits an object created in this call", ok,
                         detail={"origin": origin})
    if only is None:
        ctx.floor(rule, "mutation sites on tracked objects", n, 25)


# ------------------------------------------------------------------------------------------ R4
def r4_fresh_rng(ctx, fam, rule="C04.R4", only=None):
    ctx.rule(rule, "randomness on a read path is drawn from a CobaRandom constructed in the same call from seed fields "
                   "(no generator kept in long-lived state, no module-level coba.random, no unseeded CobaRandom())")
    per_read = per_read_classes(ctx)
    n = 0
    for key, c in fam.items():
        if only is not None and c.name not in only:
            continue
        if key in per_read:
            continue
        # long-lived generators
        lived = set()
        init = c.methods.get("__init__")
        if init is not None:
            for x in walk_shallow(init):
                if isinstance(x, ast.Assign) and has_call(x.value, "CobaRandom"):
                    for t in x.targets:
                        if is_self_attr(t):
                            lived.add(t.attr)
        for mname, fn in read_path_methods(ctx, c).items():
            qual = c.qual + "." + mname
            rng_params = {a.arg for a in fn.args.args if a.arg in ("rng", "random")}
            for x in walk_shallow(fn):
                if not isinstance(x, ast.Call):
                    continue
                nm = call_name(x)
                if nm == "CobaRandom":
                    n += 1
                    if not x.args and not x.keywords:
                        ok = _none_seed_branch(x, fn)
                        ctx.ob(rule, c.rel, qual, x, "unseeded CobaRandom() only on the explicit seed-is-None branch", ok)
                    else:
                        seed = x.args[0] if x.args else x.keywords[0].value
                        names = {nn.id for nn in ast.walk(seed) if isinstance(nn, ast.Name)}
                        ok = all(nn == "self" or _is_seed_local(fn, nn) for nn in names)
                        ctx.ob(rule, c.rel, qual, x, "generator seed is a function of constructor fields / literals only", ok,
                               detail={"seed": unparse(seed)})
                    continue
                if isinstance(x.func, ast.Attribute) and x.func.attr in RAND_METHODS:
                    recv = x.func.value
                    if is_self_attr(recv) and recv.attr in lived:
                        n += 1
                        ctx.ob(rule, c.rel, qual, x, "randomness is not drawn from a generator that survives the read", False,
                               detail={"generator": unparse(recv)})
                    elif isinstance(recv, ast.Name) and recv.id in ("random", "cb_random") or (dotted_name(recv) or "").startswith("coba.random"):
                        n += 1
                        ctx.ob(rule, c.rel, qual, x, "module-level coba.random state is not used on a read path", _none_seed_branch(x, fn))
                    elif isinstance(recv, ast.Name):
                        vals = assigned_value(fn, recv.id)
                        if any(has_call(v, "CobaRandom") for v in vals) or recv.id in rng_params:
                            n += 1
                            ctx.ob(rule, c.rel, qual, x, "randomness comes from the per-call generator", True, trivial=True)
                    elif isinstance(recv, ast.Call) and call_name(recv) == "CobaRandom":
                        n += 1
                        ctx.ob(rule, c.rel, qual, x, "randomness comes from the per-call generator", True, trivial=True)
    if only is None:
        ctx.floor(rule, "generator constructions / draws on read paths", n, 20)


def _is_seed_local(fn, name):
    """local whose every binding is a function of self fields / literals / other such locals / enumerate counters."""
    vals = assigned_value(fn, name)
    if vals:
        for v in vals:
            for nn in ast.walk(v):
                if isinstance(nn, ast.Name) and nn.id not in ("self", name, "CobaRandom", "int", "float", "abs", "hash"):
                    if not _is_seed_local(fn, nn.id) if nn.id != name else False:
                        return False
        return True
    # loop counter of enumerate(..., self._seed)
    for x in walk_shallow(fn):
        if isinstance(x, ast.For) and isinstance(x.iter, ast.Call) and call_name(x.iter) == "enumerate" and isinstance(x.target, ast.Tuple) \
                and isinstance(x.target.elts[0], ast.Name) and x.target.elts[0].id == name:
            return True
    return name in {a.arg for a in fn.args.args}  # closure/constructor parameter captured by a nested helper


def _none_seed_branch(x, fn):
    for a in ancestors(x):
        if isinstance(a, ast.IfExp):
            t = unparse(a.test)
            if "is not None" in t and x in list(ast.walk(a.orelse)):
                return True
            if "is None" in t and "is not None" not in t and x in list(ast.walk(a.body)):
                return True
        if a is fn:
            break
    return any(("is None" in unparse(t) and "not None" not in unparse(t) and pol) or ("is not None" in unparse(t) and not pol)
               for t, pol in guards_of(enclosing_stmt(x), fn))


# ------------------------------------------------------------------------------------------ R5
def r5_cache_copies(ctx):
    ctx.rule("C04.R5", "environments.Cache.filter hands out copies of the cached interactions")
    fn = ctx.fn(EF, "Cache.filter")
    ys = [y for y in walk_shallow(fn) if isinstance(y, (ast.Yield, ast.YieldFrom, ast.Return)) and y.value is not None]
    ctx.floor("C04.R5", "outputs of environments.Cache.filter", len(ys), 1)
    for y in ys:
        v = y.value
        ok = isinstance(v, ast.Call) and call_name(v) == "map" and len(v.args) == 2 and unparse(v.args[0]) in ("methodcaller('copy')", "copy.copy", "dict") \
            and has_call(v.args[1], "filter") and "super()" in unparse(v.args[1])
        if isinstance(v, ast.GeneratorExp):
            ok = has_call(v.elt, "copy")
        ctx.ob("C04.R5", EF, "Cache.filter", y, "cached interactions are copied before they are handed out", ok)


# ------------------------------------------------------------------------------------------ R6
def _cache_slices(fn):
    """[(node, CUR)] statements/tests that read the next slice: CUR := list(islice(self._iter, n)) (walrus or assignment)"""
    out = []
    for x in ast.walk(fn):
        if isinstance(x, ast.NamedExpr) and "islice(self._iter" in unparse(x.value):
            out.append((x, unparse(x.target)))
        if isinstance(x, ast.Assign) and len(x.targets) == 1 and isinstance(x.targets[0], ast.Name) and "islice(self._iter" in unparse(x.value):
            out.append((x, x.targets[0].id))
    return out


def r6_replay_buffer(ctx, rule="C04.R6", base=False):
    """pipes.Cache is the one by-design cross-read state: its protocol must keep 'buffer + saved iterator' equal to the source."""
    ctx.rule(rule, "pipes.Cache: items are appended to the buffer before they are handed out; the saved iterator is dropped with the buffer kept "
                       "(= 'buffer complete') only on the path where a slice came back empty -- never on an abandoned read; a source that fails "
                       "part-way drops buffer and iterator together (the next read starts over) and the error propagates")
    from ..cfg import CFG
    fn = ctx.fn(PF, "Cache.filter")
    g = CFG(fn, base_exceptions=base)   # base: also KeyboardInterrupt & co while the source is read
    reach = g.reachable()

    def none_store(n, attr):
        if n.kind != "stmt" or not isinstance(n.ast, ast.Assign):
            return False
        pairs = []
        for t in n.ast.targets:
            if isinstance(t, ast.Tuple) and isinstance(n.ast.value, ast.Tuple) and len(t.elts) == len(n.ast.value.elts):
                pairs += list(zip(t.elts, n.ast.value.elts))
            else:
                pairs.append((t, n.ast.value))
        return any(is_self_attr(t, attr) and isinstance(v, ast.Constant) and v.value is None for t, v in pairs)
    iter_none = [n for n in g.nodes if n.id in reach and none_store(n, "_iter")]
    resets = [n for n in iter_none if none_store(n, "_cache")]
    done = [n for n in iter_none if not none_store(n, "_cache")]
    ctx.floor(rule, "'buffer complete' stores in pipes.Cache.filter", len(done), 1)
    slices = _cache_slices(fn)
    ctx.floor(rule, "slice reads of the saved iterator", len(slices), 1)
    curs = {c for _, c in slices}
    # nodes reachable after taking an abandon edge
    after_abandon, todo = set(), []
    for a_ in reach:
        for b_, l in g.succ[a_]:
            if l == "abandon" and b_ not in after_abandon:
                after_abandon.add(b_)
                todo.append(b_)
    while todo:
        a_ = todo.pop()
        for b_, l in g.succ[a_]:
            if b_ not in after_abandon:
                after_abandon.add(b_)
                todo.append(b_)

    def witness_edge(a_, l):
        """the edge on which a slice is known to be empty"""
        n = g.nodes[a_]
        if n.kind != "test" or n.ast is None:
            return False
        t = n.ast
        if isinstance(t, ast.NamedExpr) and unparse(t.target) in curs:
            return l == "false"
        if isinstance(t, ast.UnaryOp) and isinstance(t.op, ast.Not) and unparse(t.operand) in curs:
            return l == "true"
        if isinstance(t, ast.Name) and t.id in curs:
            return l == "false"
        if isinstance(t, ast.Compare) and unparse(t) in {f"{c} == []" for c in curs} | {f"len({c}) == 0" for c in curs}:
            return l == "true"
        return False
    # reachability from entry without the witness edges and without exception/abandon edges
    seen, todo = {g.entry}, [g.entry]
    while todo:
        a_ = todo.pop()
        for b_, l in g.succ[a_]:
            if l in ("exc", "abandon") or witness_edge(a_, l) or b_ in seen:
                continue
            seen.add(b_)
            todo.append(b_)
    for d in done:
        ctx.ob(rule, PF, "Cache.filter", d.ast, "the buffer is marked complete only after the source iterator was exhausted (not when a read is abandoned or fails)",
               d.id not in after_abandon, detail=None if d.id not in after_abandon else {"note": "reachable after an abandon edge (e.g. inside a finally)"})
        ctx.ob(rule, PF, "Cache.filter", d.ast, "completion is reached only through the edge on which a slice of the saved iterator came back empty", d.id not in seen,
               stmt="complete after drain loop")
    # failure of the source while a slice is read
    for x, cur in slices:
        nodes = [n for n in g.nodes if n.id in reach and n.ast is not None and (n.ast is x or any(y is x for y in ast.walk(n.ast)))]
        for n in nodes[:1]:
            # follow the exception edge(s) of the slice read: every path to the raising exit passes a reset of buffer and iterator
            bad_path = None
            first = [b_ for b_, l in g.succ[n.id] if l == "exc"]
            seen2, todo2 = set(first), list(first)
            prev = {b_: n.id for b_ in first}
            reset_ids = {r.id for r in resets}
            while todo2:
                a_ = todo2.pop(0)
                if a_ in reset_ids:
                    continue
                if a_ == g.exit_raise:
                    bad_path = a_
                    break
                for b_, l in g.succ[a_]:
                    if b_ not in seen2:
                        seen2.add(b_)
                        prev[b_] = a_
                        todo2.append(b_)
            ctx.ob(rule, PF, "Cache.filter", x, "a source that fails while a slice is read drops the partial buffer together with the dead iterator before the error propagates "
                   "(otherwise the next read completes a truncated buffer)", bool(first) and bad_path is None, stmt="failing source resets the cache")
    for r in resets:
        hs = [a_ for a_ in ancestors(r.ast) if isinstance(a_, ast.ExceptHandler)]
        ok = bool(hs) and any(isinstance(y, ast.Raise) and y.exc is None for y in walk_shallow(hs[0]))
        ctx.ob(rule, PF, "Cache.filter", r.ast, "buffer and iterator are dropped together only in a handler that re-raises", ok, stmt="reset in re-raising handler")
    # buffered before yielded
    for lp in [x for x in walk_shallow(fn) if isinstance(x, ast.While)]:
        ext = [x for x in lp.body if isinstance(x, ast.Expr) and isinstance(x.value, ast.Call) and unparse(x.value.func) == "self._cache.extend"]
        ys = [x for x in lp.body if isinstance(x, ast.Expr) and isinstance(x.value, (ast.Yield, ast.YieldFrom))]
        ok = len(ext) == 1 and len(ys) == 1 and lp.body.index(ext[0]) < lp.body.index(ys[0]) and unparse(ext[0].value.args[0]) == unparse(ys[0].value.value) \
            and unparse(ys[0].value.value) in curs
        ctx.ob(rule, PF, "Cache.filter", lp, "a slice is buffered before it is yielded (an abandoned read loses nothing that was taken from the source)", ok, stmt="buffer before yield")
    first_iter = [x for x in walk_shallow(fn) if isinstance(x, ast.Assign) and any(is_self_attr(t, "_iter") for t in x.targets) and unparse(x.value) == "iter(items)"]
    ok = len(first_iter) == 1 and any("self._iter is None and self._cache is None" == unparse(t) and p for t, p in guards_of(first_iter[0], fn))
    ctx.ob(rule, PF, "Cache.filter", first_iter[0] if first_iter else fn, "the source is opened once per generation of the buffer (first read, or first read after a failed one)", ok, stmt="open source once")
    replays = [x for x in walk_shallow(fn) if isinstance(x, ast.YieldFrom) and unparse(x.value) == "self._cache"]
    ctx.ob(rule, PF, "Cache.filter", fn, "every read first replays the buffer (complete: only the buffer; incomplete: the buffer, then the rest of the saved iterator)", len(replays) == 2, stmt="replay buffer first")
    # the same invariant for the state that is pickled / deep copied: 'buffer without iterator' MEANS complete, so a copy that leaves the iterator of an unfinished read
    # behind leaves the unfinished buffer behind with it
    gs = ctx.model.cls(PF, "Cache").methods.get("__getstate__")
    if gs is not None:
        def pairs_of(st):
            out = []
            for t in st.targets:
                if isinstance(t, ast.Tuple) and isinstance(st.value, ast.Tuple) and len(t.elts) == len(st.value.elts):
                    out += list(zip(t.elts, st.value.elts))
                else:
                    out.append((t, st.value))
            return out

        def drops(st, key):
            return any(isinstance(t, ast.Subscript) and const_str(t.slice) == key and isinstance(v, ast.Constant) and v.value is None for t, v in pairs_of(st))
        it_drops = [st for st in ast.walk(gs) if isinstance(st, ast.Assign) and drops(st, "_iter")]
        ctx.floor(rule, "places where Cache.__getstate__ leaves the iterator behind", len(it_drops), 1)
        for st in it_drops:
            blk = next((body for n_ in ast.walk(gs) for body in (getattr(n_, "body", None), getattr(n_, "orelse", None)) if isinstance(body, list) and st in body), [st])
            ok = drops(st, "_cache") or any(isinstance(x, ast.Assign) and drops(x, "_cache") for x in blk)
            ctx.ob(rule, PF, "Cache.__getstate__", st, "the copy that leaves an unfinished read's iterator behind leaves its partly filled buffer behind too", ok, stmt="getstate drops buffer with iterator")


# ------------------------------------------------------------------------------------------ R7
def r7_held_learners(ctx, fam, rule="C04.R7"):
    ctx.rule(rule, "a learner/evaluator object held by a filter (constructor argument) is only ever trained through a deep copy made in the read")
    n = 0
    for key, c in fam.items():
        for mname, fn in read_path_methods(ctx, c).items():
            for x in walk_shallow(fn):
                if not (isinstance(x, ast.Call) and call_tail(x) in ("evaluate", "learn", "predict") and isinstance(x.func, ast.Attribute)):
                    continue
                cands = list(x.args) + ([x.func.value] if call_tail(x) in ("learn", "predict") else [])
                for a in cands:
                    exprs = [a] + (assigned_value(fn, a.id) if isinstance(a, ast.Name) else [])
                    held = [e for e in exprs for s2 in ast.walk(e) if is_self_attr(s2) and ("learner" in s2.attr or "lrn" in s2.attr)]
                    if not held:
                        continue
                    n += 1
                    ok = all(isinstance(e, ast.Call) and call_name(e) in ("copy.deepcopy", "deepcopy") for e in exprs if any(is_self_attr(s2) for s2 in ast.walk(e)))
                    ctx.ob(rule, c.rel, f"{c.qual}.{mname}", x, "the held learner reaches evaluate/learn/predict only as a deepcopy (the caller's object is never trained)", ok,
                           detail={"argument": [unparse(e) for e in exprs]})
    ctx.floor(rule, "uses of held learners on read paths", n, 1)


def r13_member_numbering(ctx, rule="C04.R13"):
    """save() continues an existing archive one past the largest member index: member names are decimal strings, so every ordering
    operation (max/min/sorted/comparison) over them must act on int(name) -- string order puts '9' after '10'."""
    ctx.rule(rule, "archive members are ordered as numbers: wherever names from ZipFile.namelist() reach max/min/sorted/sort or a comparison they have been converted "
                   "with int() first (a lexicographic maximum re-uses index 10 once members '0'..'10' exist and a continued save() overwrites an environment)")
    n = 0
    for rel in ("coba/environments/serialized.py", "coba/environments/core.py"):
        mod = ctx.model.modules[rel]
        for fn in [x for x in ast.walk(mod.tree) if isinstance(x, ast.FunctionDef)]:
            if not any(isinstance(c, ast.Call) and call_tail(c) == "namelist" for c in ast.walk(fn)):
                continue
            from ..model import qualname
            qual = qualname(fn)
            ctx.touch(rel, qual)
            strs, lists = set(), set()
            changed = True
            while changed:
                changed = False
                for x in ast.walk(fn):
                    its = []
                    if isinstance(x, ast.For):
                        its.append((x.target, x.iter))
                    if isinstance(x, (ast.ListComp, ast.SetComp, ast.GeneratorExp)):
                        its += [(g.target, g.iter) for g in x.generators]
                    for tgt, it in its:
                        src = any(isinstance(c, ast.Call) and call_tail(c) == "namelist" for c in ast.walk(it)) or (isinstance(it, ast.Name) and it.id in lists)
                        if src and isinstance(tgt, ast.Name) and tgt.id not in strs:
                            strs.add(tgt.id)
                            changed = True
                    if isinstance(x, ast.Assign) and len(x.targets) == 1 and isinstance(x.targets[0], ast.Name):
                        v = x.value
                        raw = (isinstance(v, (ast.ListComp, ast.SetComp)) and isinstance(v.elt, ast.Name) and v.elt.id in strs) or \
                              (isinstance(v, ast.Call) and (call_tail(v) == "namelist" or (call_name(v) in ("list", "sorted", "set") and v.args and any(
                                  isinstance(c, ast.Call) and call_tail(c) == "namelist" for c in ast.walk(v.args[0])))))
                        if raw and x.targets[0].id not in lists:
                            lists.add(x.targets[0].id)
                            changed = True

            def raw_use(e):
                """does a member name (or a list of them) occur in e outside an int(...) conversion?"""
                def walk(node, inside_int):
                    if isinstance(node, ast.Call) and call_name(node) == "int":
                        return any(walk(a, True) for a in node.args)
                    if isinstance(node, ast.Name) and (node.id in strs or node.id in lists):
                        return not inside_int
                    if isinstance(node, ast.Call) and call_tail(node) == "namelist":
                        return not inside_int
                    return any(walk(ch, inside_int) for ch in ast.iter_child_nodes(node))
                return walk(e, False)
            for x in ast.walk(fn):
                if isinstance(x, ast.Call) and (call_name(x) in ("max", "min", "sorted") or call_tail(x) == "sort"):
                    args = list(x.args) + ([x.func.value] if call_tail(x) == "sort" and isinstance(x.func, ast.Attribute) else [])
                    keyed = kw(x, "key") is not None and "int" in unparse(kw(x, "key"))
                    involved = [a for a in args if any((isinstance(y, ast.Name) and (y.id in strs or y.id in lists)) or (isinstance(y, ast.Call) and call_tail(y) == "namelist") for y in ast.walk(a))]
                    if not involved:
                        continue
                    n += 1
                    ctx.ob(rule, rel, qual, x, "member names are ordered as numbers (int(name)), not as strings", keyed or not any(raw_use(a) for a in involved))
                if isinstance(x, ast.Compare) and any(isinstance(o, (ast.Lt, ast.LtE, ast.Gt, ast.GtE)) for o in x.ops):
                    parts = [x.left] + list(x.comparators)
                    if any(isinstance(y, ast.Name) and y.id in strs for p_ in parts for y in ast.walk(p_)):
                        n += 1
                        ctx.ob(rule, rel, qual, x, "member names are compared as numbers (int(name)), not as strings", not any(raw_use(p_) for p_ in parts))
    ctx.floor(rule, "ordering operations over archive member names", n, 1)


def r14_text_pickles(ctx, rule="C04.R14"):
    """'after pickling or save()/from_save()': a __getstate__ that answers with repr text which __setstate__ reads back with literal_eval round-trips only
    states made of python literals -- inf, nan and objects (Categorical labels) have a repr that is not one."""
    ctx.rule(rule, "text pickles are guarded: no class answers __getstate__ with a bare repr(...) that its __setstate__ feeds to literal_eval; the shared helper emits the text form only "
                   "after a type-directed check of the whole state (finite floats, ints, strs, bools, None, lists/tuples/dicts of those) and the reader accepts both forms")
    n = 0
    for c in ctx.model.classes:
        if c.rel.startswith("coba/tests"):
            continue
        gs, ss = c.methods.get("__getstate__"), c.methods.get("__setstate__")
        if gs is None or ss is None:
            continue
        evals = [k for k in ast.walk(ss) if isinstance(k, ast.Call) and (call_name(k) or "").split(".")[-1] in ("literal_eval", "eval", "_of_literal")]
        if not evals:
            continue
        n += 1
        ctx.touch(c.rel, f"{c.name}.__getstate__")
        bare = [r for r in ast.walk(gs) if isinstance(r, ast.Return) and isinstance(r.value, ast.Call) and call_name(r.value) in ("repr", "str")]
        ctx.ob(rule, c.rel, f"{c.name}.__getstate__", (bare or [gs])[0], "the state is not handed out as unchecked repr text", not bare)
        raw_eval = [k for k in evals if (call_name(k) or "").split(".")[-1] in ("literal_eval", "eval")]
        ctx.ob(rule, c.rel, f"{c.name}.__setstate__", (raw_eval or [ss])[0], "the reader accepts a state that is not text (it does not literal_eval unconditionally)", not raw_eval)
    ctx.floor(rule, "classes pickling through text", n, 3)
    PR = "coba/primitives.py"
    if ctx.model.has_func(PR, "_as_literal"):
        h = ctx.fn(PR, "_as_literal")
        rets = [r for r in walk_shallow(h) if isinstance(r, ast.Return)]
        ok = bool(rets) and all(isinstance(r.value, ast.IfExp) and isinstance(r.value.body, ast.Call) and call_name(r.value.body) == "repr" for r in rets)
        chk = [f for f in ast.walk(h) if isinstance(f, ast.FunctionDef) and f is not h]
        txt = unparse(chk[0]) if chk else ""
        ok = ok and "inf" in txt and ("x == x" in txt or "isfinite" in txt or "isnan" in txt) and "return False" in txt
        ctx.ob(rule, PR, "_as_literal", h, "the text form is chosen only when a check of the whole state finds nothing but finite plain values (default: not literal)", ok, stmt="literal check")
        o = ctx.fn(PR, "_of_literal")
        ok2 = any(isinstance(r, ast.Return) and isinstance(r.value, ast.IfExp) and "str" in unparse(r.value.test) for r in walk_shallow(o))
        ctx.ob(rule, PR, "_of_literal", o, "text states are parsed, other states are taken as they are", ok2, stmt="reader accepts both forms")


def r15_picklable_state(ctx, fam, rule="C04.R15"):
    """'after pickling': an environment is pickled with everything its filters hold; a lambda, a function defined inside a method, or a generator cannot be."""
    ctx.rule(rule, "picklable pipeline state: a source/filter class of the environment pipelines that stores a lambda, a locally defined function or a container built around one "
                   "(defaultdict(factory)) in an attribute defines its own pickling (__getstate__/__setstate__ or __reduce__) -- otherwise the environment cannot be sent to a worker")
    CONTAINERS = ("defaultdict", "collections.defaultdict", "partial", "functools.partial", "dict", "list", "tuple")
    n = 0
    for key, c in sorted(fam.items()):
        for name, fn in sorted(c.methods.items()):
            local_fns = {x.name for x in ast.walk(fn) if isinstance(x, ast.FunctionDef) and x is not fn}
            for st in walk_shallow(fn):
                if not (isinstance(st, ast.Assign) and any(is_self_attr(t) for t in st.targets)):
                    continue
                v = st.value
                tops = [v] + (list(v.args) + [k.value for k in v.keywords] if isinstance(v, ast.Call) and call_name(v) in CONTAINERS else [])
                closures = [t for t in tops if isinstance(t, ast.Lambda) or (isinstance(t, ast.Name) and t.id in local_fns)]
                maker = isinstance(v, ast.Call) and isinstance(v.func, ast.Name) and v.func.id in local_fns   # e.g. make_noiser(...) returning a lambda
                if not closures and not maker:
                    continue
                n += 1
                hooks = [h for h in ("__getstate__", "__setstate__", "__reduce__", "__reduce_ex__") if h in c.methods]
                ok = "__reduce__" in hooks or "__reduce_ex__" in hooks or {"__getstate__", "__setstate__"} <= set(hooks)
                ctx.ob(rule, c.rel, f"{c.qual}.{name}", st, "the class stores a closure, so it defines how it is pickled", ok, detail={"hooks": hooks})
    ctx.floor(rule, "closure-valued attributes in pipeline classes", n, 2)
    densify_replay(ctx, rule)
    # a live iterator kept between reads (pipes.Cache keeps the iterator of an unfinished read) cannot be pickled or deep copied either: the class's __getstate__ leaves it behind
    m = 0
    classes = dict(fam)
    for c in ctx.model.classes:
        if c.rel == "coba/pipes/filters.py":
            classes.setdefault((c.rel, c.name), c)
    for key, c in sorted(classes.items(), key=lambda kv: str(kv[0])):
        for name, fn in sorted(c.methods.items()):
            for st in walk_shallow(fn):
                if not (isinstance(st, ast.Assign) and isinstance(st.value, (ast.Call, ast.GeneratorExp)) and (isinstance(st.value, ast.GeneratorExp) or call_name(st.value) == "iter")):
                    continue
                for t in [t for t in st.targets if is_self_attr(t)]:
                    m += 1
                    gs = c.methods.get("__getstate__")
                    drops = gs is not None and any(isinstance(x, ast.Assign) and isinstance(x.value, (ast.Constant, ast.Tuple)) and "None" in unparse(x.value)
                                                   and any(isinstance(k, ast.Subscript) and const_str(k.slice) == t.attr for tt in x.targets for k in ast.walk(tt)) for x in ast.walk(gs))
                    ctx.ob(rule, c.rel, f"{c.name}.{name}", st, f"self.{t.attr} holds a live iterator between calls, so __getstate__ leaves it behind (a pipeline read part-way can still be pickled / deep copied)",
                           bool(drops) or "__reduce__" in c.methods, detail={"has __getstate__": gs is not None})
    ctx.floor(rule, "iterator-valued attributes in pipeline classes", m, 1)


def densify_replay(ctx, rule):
    """state that abbreviates a generator by "how many values were drawn" must replay exactly that many draws, BEFORE the stored entries are put back
    (looking an existing key up never calls the default factory)."""
    de = ctx.model.cls("coba/environments/filters.py", "Densify")
    ss = de.methods.get("__setstate__")
    if ss is None:
        return
    replays = [lp for lp in ast.walk(ss) if isinstance(lp, ast.For) and any(isinstance(c, ast.Call) and call_tail(c) == "default_factory" for c in ast.walk(lp))]
    names = {a.id for st in walk_shallow(ss) if isinstance(st, ast.Assign) for t in st.targets for a in ast.walk(t) if isinstance(a, ast.Name)}
    ok = len(replays) == 1 and (unparse(replays[0].iter) in names or (isinstance(replays[0].iter, ast.Call) and call_name(replays[0].iter) == "range" and len(replays[0].iter.args) == 1
                                and isinstance(replays[0].iter.args[0], ast.Call) and call_name(replays[0].iter.args[0]) == "len" and unparse(replays[0].iter.args[0].args[0]) in names))
    ctx.ob(rule, "coba/environments/filters.py", "Densify.__setstate__", replays[0] if replays else ss, "the restored position generator is advanced once for every position that was handed out "
           "(one call of the table's default factory per stored key)", ok, detail={"replay over": unparse(replays[0].iter) if replays else None}, stmt="Densify replay count")


def r17_aliased_state(ctx, fam, rule="C04.R17"):
    """cross-read state through an alias: `x = self._attr` followed by `x[k] = ...` / x.update(...) writes into the filter's own (often the caller's) object."""
    ctx.rule(rule, "no read-path method of a source/filter mutates one of its attributes through a local alias (`enc = self._encoders; enc[k] = fitted`): what a read learns "
                   "(fitted encoders, look-up results) goes into containers made in that read, so the next read -- and the mapping the caller passed in -- are unaffected")
    MUT = {"append", "extend", "update", "pop", "clear", "setdefault", "add", "remove", "insert", "popitem", "discard", "sort", "reverse"}
    classes = dict(fam)
    for c in ctx.model.classes:
        if c.rel == PF:
            classes.setdefault((c.rel, c.qual), c)
    # helper objects that a read creates for itself (e.g. the ARFF line reader built inside ArffReader.filter) hold per-read state by construction
    per_read = set()
    for c in ctx.model.classes:
        if c.rel.startswith("coba/tests"):
            continue
        for mname, fn in c.methods.items():
            if mname in ("filter", "read"):
                per_read |= {call_name(k) for k in ast.walk(fn) if isinstance(k, ast.Call) and call_name(k) and call_name(k)[:1].isupper()}
    n = 0
    for key, c in sorted(classes.items()):
        if c.name in per_read:
            continue
        by_design = {attr for (rel, cname, attr) in BY_DESIGN if cname == c.name}
        for mname, fn in sorted(c.methods.items()):
            if mname in ("__init__", "__setstate__", "__getstate__", "__reduce__"):
                continue
            aliases = {}
            for st in walk_shallow(fn):
                if isinstance(st, ast.Assign) and len(st.targets) == 1 and isinstance(st.targets[0], ast.Name) and is_self_attr(st.value):
                    aliases[st.targets[0].id] = st.value.attr
            if not aliases:
                continue
            for st in ast.walk(fn):
                hit = None
                tg = st.targets if isinstance(st, ast.Assign) else [st.target] if isinstance(st, ast.AugAssign) else st.targets if isinstance(st, ast.Delete) else []
                for t in tg:
                    if isinstance(t, ast.Subscript) and isinstance(t.value, ast.Name) and t.value.id in aliases:
                        hit = (t.value.id, st)
                if isinstance(st, ast.Call) and isinstance(st.func, ast.Attribute) and st.func.attr in MUT and isinstance(st.func.value, ast.Name) and st.func.value.id in aliases:
                    hit = (st.func.value.id, st)
                if hit is None:
                    continue
                n += 1
                attr = aliases[hit[0]]
                ctx.ob(rule, c.rel, f"{c.qual}.{mname}", hit[1], f"the attribute self.{attr} is not modified through its local alias `{hit[0]}`", attr in by_design)
    ctx.ob(rule, PF, "", None, f"alias-mutation scan of {len(classes)} source/filter classes ({n} sites)", True, stmt="alias scan", trivial=True, line=1)


def r18_params_collected_not_changed(ctx, rule="C04.R18"):
    """'reports the same params every time ... never modifies any object the caller passed in': Params, SupervisedSimulation and IdentitySource hand out the very dict they hold;
    resolve_params merges what the pipes report and must leave each reported mapping alone."""
    ctx.rule(rule, "pipes.utilities.resolve_params only reads the mappings it collects: no item store / deletion / pop / update on a name bound to a pipe's params or to an element of the collected list")
    PU = "coba/pipes/utilities.py"
    fn = ctx.fn(PU, "resolve_params")
    holders = set()      # names holding one reported mapping
    lists = set()
    for st in ast.walk(fn):
        if isinstance(st, ast.Assign) and len(st.targets) == 1 and isinstance(st.targets[0], ast.Name):
            if isinstance(st.value, ast.Attribute) and st.value.attr == "params":
                holders.add(st.targets[0].id)
            if isinstance(st.value, (ast.List, ast.ListComp)):
                lists.add(st.targets[0].id)
    for st in ast.walk(fn):
        if isinstance(st, ast.Call) and isinstance(st.func, ast.Attribute) and st.func.attr == "append" and isinstance(st.func.value, ast.Name) and st.args \
                and isinstance(st.args[0], ast.Attribute) and st.args[0].attr == "params":
            lists.add(st.func.value.id)
    for x in ast.walk(fn):
        gens = [(x.target, x.iter)] if isinstance(x, ast.For) else [(g.target, g.iter) for g in x.generators] if isinstance(x, (ast.ListComp, ast.DictComp, ast.SetComp, ast.GeneratorExp)) else []
        for t, it in gens:
            if isinstance(it, ast.Name) and it.id in lists and isinstance(t, ast.Name):
                holders.add(t.id)
    MUT = {"pop", "popitem", "update", "setdefault", "clear"}
    bad = [x for x in ast.walk(fn) if (isinstance(x, (ast.Assign, ast.AugAssign, ast.Delete)) and any(isinstance(t, ast.Subscript) and isinstance(t.value, ast.Name) and t.value.id in holders
                                                                                                     for t in (x.targets if not isinstance(x, ast.AugAssign) else [x.target])))
           or (isinstance(x, ast.Call) and isinstance(x.func, ast.Attribute) and x.func.attr in MUT and isinstance(x.func.value, ast.Name) and x.func.value.id in holders)]
    ctx.ob(rule, PU, "resolve_params", (bad or [fn])[0], "the reported mappings are merged into a new mapping and left as they are", bool(holders) and not bad,
           detail={"mapping names": sorted(holders), "writes": [unparse(b)[:60] for b in bad]}, stmt="resolve_params reads only")


def _drop_methods(tree, cname, members):
    from ..mutate import find_def
    cls = find_def(tree, cname)
    keep = [st for st in cls.body if not (isinstance(st, ast.FunctionDef) and st.name in members)]
    if len(keep) == len(cls.body):
        raise M.TargetMissing(f"{cname}: {members}")
    cls.body = keep


def _bounded_memo(tree):
    from ..mutate import find_def
    fn = find_def(tree, "Grounded.GroundedFeedback.__call__")
    fn.decorator_list = [ast.parse("lru_cache(maxsize=256)", mode="eval").body]


CONTROLS = [
    ("Encode fits into the caller's mapping", PF, M.replace_expr("Encode.filter", "dict(self._encoders)", "self._encoders", nth=0), "C04.R17"),
    ("Densify replays only the started round", "coba/environments/filters.py", M.replace_expr("Densify.__setstate__", "lookup", "range(len(lookup) % self._n_feats)", nth=1), "C04.R15"),
    ("Cache pickles the iterator of an unfinished read", "coba/pipes/filters.py", lambda tree: _drop_methods(tree, "Cache", ("__getstate__",)), "C04.R15"),
    ("a copied Cache keeps the partly filled buffer of an unfinished read", "coba/pipes/filters.py", M.replace_stmt("Cache.__getstate__", M.text_has("state['_iter'], state['_cache'] = (None, None)"), "if state['_iter'] is not None: state['_iter'] = None"), "C04.R6"),
    ("the neighbourhoods of a synthetic simulation are laid out once", "coba/environments/synthetics.py", M.insert_before("NeighborsSyntheticSimulation.read", lambda st: isinstance(st, ast.If) and "n_action_feats == 0" in ast.unparse(st.test), "worlds = getattr(self, 'worlds', None)"), "C04.R2"),
    ("resolve_params renames conflicting keys inside the reported mappings", "coba/pipes/utilities.py", M.insert_before("resolve_params", lambda st: isinstance(st, ast.Return), "for p in params:\n    for key in [k for k in p.keys() if counts[k] > 1]:\n        p[key + '1'] = p.pop(key)"), "C04.R18"),
    ("Densify without pickling hooks", "coba/environments/filters.py", lambda tree: _drop_methods(tree, "Densify", ("__getstate__", "__setstate__")), "C04.R15"),
    ("rewards pickle as unchecked repr text", "coba/primitives.py", M.chain(M.replace_expr("DiscreteReward.__getstate__", "_as_literal((self._state, self._default))", "repr((self._state, self._default))"),
        M.replace_expr("DiscreteReward.__setstate__", "_of_literal(args)", "literal_eval(args)")), "C04.R14"),
    ("next member index from the lexicographic maximum", "coba/environments/serialized.py", M.replace_stmt("ObjectsToZipMember.__init__", lambda st: isinstance(st, ast.For),
        "members = [n for n in ZipFile(self._zip).namelist() if n.isdigit()]\nif members: self._start = int(max(members)) + 1"), "C04.R13"),
    ("one Cache shared through Environments.filter", "coba/environments/core.py", M.replace_expr("Environments.cache", "Environments([Pipes.join(env, Cache(25)) for env in self._envs])", "self.filter(Cache(25))"), "C04.R12"),
    ("save takes the params before reading", "coba/environments/serialized.py", M.swap_stmts("EnvironmentsToObjects._env_to_objects", M.text_has("peek_first(env.read())"), M.simple_has("yield env.params")), "C04.R10"),
    ("feedback memo evicts", EF, _bounded_memo, "C04.R9"),
    ("failing source leaves a truncated buffer", PF, M.replace_stmt("Cache.filter", lambda st: isinstance(st, ast.While),
        "while current := list(islice(self._iter, n_slice)):\n    self._cache.extend(current)\n    yield from current"), "C04.R6"),
    ("save shrinks only one of the aligned lists", "coba/environments/core.py", M.delete_stmt("Environments.save", M.simple_has("self_params.pop(param_index_in_self)")), "C04.R8"),
    ("catset rewrites the nested row in place", PR, M.replace_expr("EncodeCatRows._encode_collection", "mutable(o[k])", "o[k]"), "C04.R3"),
    ("cache complete in finally", PF, M.replace_stmt("Cache.filter", M.simple_has("self._iter = None"), "pass"), "C04.R6") if False else
    ("yield before buffering", PF, M.swap_stmts("Cache.filter", M.simple_has("self._cache.extend(current)"), M.simple_has("yield from current")), "C04.R6"),
    ("logged shallow copy", EF, M.replace_expr("Logged.filter", "copy.deepcopy(self._learner)", "copy.copy(self._learner)"), "C04.R7"),
    ("keep iter of source", SUP, M.replace_expr("CsvSource.__init__", "Pipes.join(source, reader)", "iter(Pipes.join(source, reader).read())"), "C04.R1"),
    ("EmptyCheck without memo guard", EF, M.replace_stmt("EmptyCheck.filter", M.text_has("if self._isempty is None"),
        "interactions = peek_first(interactions)[1]\nself._isempty = interactions == []"), "C04.R2"),
    ("Sparsify mutates input", EF, M.replace_stmt("Sparsify.filter", M.text_has("new = interaction.copy()"), "new = interaction"), "C04.R3"),
    ("Noise keeps rng", EF, M.chain(M.insert_after("Noise.__init__", M.text_has("self._seed = seed"), "self._rng = CobaRandom(seed)"),
                                    M.replace_stmt("Noise.filter", M.text_has("rng = CobaRandom(self._seed)"), "rng = self._rng"),
                                    M.replace_expr("Noise.filter", "self._noises(context, rng, self._context_noise)",
                                                   "context + self._rng.random()")), "C04.R4"),
    ("Cache hands out originals", EF, M.replace_expr("Cache.filter", "map(methodcaller('copy'), super().filter(items))", "super().filter(items)"), "C04.R5"),
]
