"""C07 -- the result log records what evaluators produced (DESIGN.md 5/C07).

Decided: writer/reader table agreement (T-codes, tags, positions, '_packed'), one encoder for every
record, row-order packing and 1..N numbering, one path for file and in-memory results.
Not decided: value normalisation (rounding, tuple/str conversion).
"""
import ast
import re
from ..model import walk_shallow, call_name, is_self_attr, dotted_name, enclosing_function, parent
from ..model import ancestors
from ..util import (has_call, find_calls, assigned_value, const_str, unparse, kw, arg_or_kw, enclosing_stmt,
                    guards_of, call_tail, name_bound, bound_names)
from .. import mutate as M

TECHNIQUE = "static analysis: writer/reader table agreement (tags, positions, '_packed'), loop-nest shape rule for packing, encoder-default rules (ASCII only, key order kept), normaliser shape rule, sink/source predicate agreement"

EXPLANATION = ("Table-agreement and wiring rules over ProcessTasks (producer of T1..T4), Experiment.run (T0, pipelines), "
               "TransactionEncode, TransactionDecode, TransactionResult and Environments.from_result: produced T-codes are "
               "a subset of handled codes, each arm emits one record through the single encoder (minimize applied once), "
               "emitted tags/positions/'_packed' agree with all readers, rows are packed one cell per (row,key) in row "
               "order and numbered range(1,N+1), and the file and in-memory paths share encode/decode.")
EXPLANATION += ' R1 also: key order is kept (sort_keys off); R4 also: sink and source choose gzip by the same predicate; R5: params are normalised one level only (top-level list -> tuple).'
EXPLANATION += ' R5 also: packed interaction columns are converted cell by cell; R6: Table.insert keeps the table rectangular (pad counts by provenance); R7: minimize rounds finite floats only.'

EXP = "coba/experiments/core.py"
PROC = "coba/experiments/process.py"
RES = "coba/results/core.py"
ENVS = "coba/environments/core.py"
TAG_OF = {"T0": "experiment", "T1": "E", "T2": "L", "T3": "V", "T4": "I"}


def run(ctx):
    enc = ctx.fn(RES, "TransactionEncode.filter")
    dec = ctx.fn(RES, "TransactionDecode.filter")
    res = ctx.fn(RES, "TransactionResult.filter")
    proc = ctx.fn(PROC, "ProcessTasks.filter")
    run_ = ctx.fn(EXP, "Experiment.run")
    r1_codes(ctx, enc, proc, run_)
    r2_tags(ctx, enc, dec, res)
    r3_packing(ctx, enc, res)
    r4_one_path(ctx, run_)
    r5_normalisation(ctx, res)
    r6_table_alignment(ctx)
    r7_minimize_guards(ctx)
    # (C07.R8, 'no handler on the decode path swallows a line', was withdrawn in session 3: since d549c89 a resumed run never reads a torn line, so a decoder that
    #  skips undecodable lines no longer loses a completed evaluation on any path the property quantifies over -- the rule would only flag harmless edits)
    # "the Result returned when writing to a result file and the Result returned without a file are identical", also when the pipeline breaks late: every record
    # is on disk before the next one is computed (batch=1) -- a larger batch is filled from the lazy pipeline BEFORE the file is opened and is lost with it
    from . import c02
    c02.r2_append_batch(ctx, rule="C07.R9")
    from . import c12
    c12.gz_predicate(ctx, "C07.R4")
    # a log that ends in a torn record is still a log of what was produced: the repair in front of the restore cuts exactly the torn tail (symbolic check of the block scan)
    ctx.rule("C07.R10", "C02.R6's symbolic check of the repair helper's plain-file scan: kept offset = block start + offset of the last line end + 1 as an identity, sentinel agreement "
                        "between the loop guard and the 'not found' value, blocks tile the file backwards from its end")
    c02.plain_scan(ctx, rule="C07.R10")
    r11_plain_decoder(ctx, dec)
    r12_no_shared_default(ctx)
    # 'the tables contain exactly each component's params' on resumed runs: a params record is written exactly for the ids the file does not hold yet
    sub = type(ctx)(ctx.model, ctx.prop, ctx.tier, silent=True)
    c02.r4_skip_guards(sub)
    ctx.rule("C07.R14", "C02.R4 for the parameter tables: MakeTasks writes a component's params record iff its id is not among the restored ids (a membership test, not a count)")
    for o in sub.obs:
        o.rule = "C07.R14"
        ctx.obs.append(o)
    ctx.files |= sub.files
    ctx.functions |= sub.functions
    r13_rows_unfiltered(ctx, proc)
    r15_stamps_into_a_copy(ctx)


def r12_no_shared_default(ctx, rule="C07.R12"):
    """The Safe* wrappers complete a component's params (family / env_type / eval_type) by writing into the mapping they obtained: a mutable default argument that escapes
    (is returned or stored) is ONE object for every call, so the first component's completion shows up in every later component's params."""
    ctx.rule(rule, "in coba/safety.py no parameter with a mutable literal default ({} / [] / set()) escapes its function: it is neither returned, nor stored on an object, nor written to")
    SAF_ = "coba/safety.py"
    n = 0
    for (rel, qual), fn in sorted(ctx.model.functions.items()):
        if rel != SAF_:
            continue
        args = fn.args
        pos = args.args[len(args.args) - len(args.defaults):] if args.defaults else []
        pairs = list(zip(pos, args.defaults)) + [(a_, d) for a_, d in zip(args.kwonlyargs, args.kw_defaults) if d is not None]
        for a_, d in pairs:
            if not (isinstance(d, (ast.Dict, ast.List, ast.Set)) or (isinstance(d, ast.Call) and call_name(d) in ("dict", "list", "set") and not d.args)):
                continue
            n += 1
            P = a_.arg
            returned = [r for r in ast.walk(fn) if isinstance(r, ast.Return) and r.value is not None and any(isinstance(y, ast.Name) and y.id == P and not isinstance(parent(y), (ast.Call, ast.keyword, ast.Starred)) for y in ast.walk(r.value))]
            stored = [st for st in ast.walk(fn) if isinstance(st, ast.Assign) and isinstance(st.value, ast.Name) and st.value.id == P and any(isinstance(t, (ast.Attribute, ast.Subscript)) for t in st.targets)]
            written = [st for st in ast.walk(fn) if (isinstance(st, (ast.Assign, ast.AugAssign, ast.Delete)) and any(isinstance(t, ast.Subscript) and isinstance(t.value, ast.Name) and t.value.id == P
                                                                                                                       for t in (st.targets if not isinstance(st, ast.AugAssign) else [st.target])))
                       or (isinstance(st, ast.Call) and isinstance(st.func, ast.Attribute) and isinstance(st.func.value, ast.Name) and st.func.value.id == P and st.func.attr in ("update", "setdefault", "append", "extend", "pop", "clear", "add"))]
            ctx.ob(rule, SAF_, qual, (returned + stored + written + [fn])[0], f"the mutable default of `{P}` stays inside the function", not (returned or stored or written),
                   detail={"returned": len(returned), "stored": len(stored), "written": len(written)}, stmt=f"{qual}({P}=<mutable default>)")
    ctx.floor(rule, "parameters with a mutable default in coba/safety.py", n, 1)


def r15_stamps_into_a_copy(ctx, rule="C07.R15"):
    """family / env_type / eval_type are the wrappers' additions: written into the mapping a component handed out they show up in every other component that hands out the
    same mapping (two classes sharing a params dict are recorded with the first one's family) and they change the user's object."""
    ctx.rule(rule, "the params properties of SafeLearner / SafeEnvironment / SafeEvaluator write their additions into a mapping made in the call: every definition of the name "
                   "they store into is a dict(...) call, a dict literal or a comprehension -- never the component's own mapping")
    SAF_ = "coba/safety.py"
    n = 0
    for cname in ("SafeLearner", "SafeEnvironment", "SafeEvaluator"):
        fn = ctx.model.cls(SAF_, cname).methods.get("params")
        if fn is None:
            continue
        from ..cfg import CFG
        from ..dataflow import reaching_defs, PARAM
        g = CFG(fn)
        rd = reaching_defs(g, params=[a.arg for a in fn.args.args])

        def fresh_expr(v):
            if isinstance(v, (ast.Dict, ast.DictComp)) or (isinstance(v, ast.Call) and call_name(v) == "dict"):
                return True
            return isinstance(v, ast.IfExp) and fresh_expr(v.body) and fresh_expr(v.orelse)
        stores = [st for st in ast.walk(fn) if isinstance(st, ast.Assign) and any(isinstance(t, ast.Subscript) and isinstance(t.value, ast.Name) for t in st.targets)]
        for st in stores:
            for t in [t for t in st.targets if isinstance(t, ast.Subscript) and isinstance(t.value, ast.Name)]:
                n += 1
                ok, seen = True, []
                for nid in g.nodes_of(st):
                    for d in rd.get(nid, {}).get(t.value.id, frozenset()):
                        if d == PARAM:
                            ok = False
                            continue
                        a_ = g.nodes[d].ast
                        v = a_.value if isinstance(a_, ast.Assign) else None
                        seen.append(unparse(v)[:60] if v is not None else "?")
                        ok = ok and v is not None and fresh_expr(v)
                ctx.ob(rule, SAF_, f"{cname}.params", st, f"`{unparse(t)}` is written into a mapping made in this call (every definition that reaches the store is a dict(...) / literal)", ok and bool(seen),
                       detail={"reaching definitions": sorted(set(seen))})
    ctx.floor(rule, "additions made by the Safe wrappers' params", n, 3)


def r13_rows_unfiltered(ctx, proc, rule="C07.R13"):
    """'exactly the rows its evaluator yielded, in order and numbered 1..N': an empty mapping is a row (all fields absent); dropping falsy rows renumbers every later one."""
    ctx.rule(rule, "ProcessTasks.filter hands every row of the evaluation on: the payload of the T4 record is list(<evaluate(...)>) (or an unfiltered comprehension over it)")
    recs = [x for x in ast.walk(proc) if isinstance(x, (ast.List, ast.Tuple)) and x.elts and const_str(x.elts[0]) == "T4" and len(x.elts) == 3]
    ctx.floor(rule, "T4 records built in ProcessTasks.filter", len(recs), 1)
    for r in recs:
        v = r.elts[2]
        vs = [v] if not isinstance(v, ast.Name) else assigned_value(proc, v.id)
        ok = bool(vs)
        for x in vs:
            direct = isinstance(x, ast.Call) and call_name(x) in ("list", "tuple") and len(x.args) == 1 and isinstance(x.args[0], ast.Call) and call_tail(x.args[0]) == "evaluate"
            comp = isinstance(x, ast.ListComp) and len(x.generators) == 1 and not x.generators[0].ifs and isinstance(x.generators[0].iter, ast.Call) and call_tail(x.generators[0].iter) == "evaluate" \
                and unparse(x.elt) == unparse(x.generators[0].target)
            ok = ok and (direct or comp)
        ctx.ob(rule, PROC, "ProcessTasks.filter", r, "the rows of an evaluation reach the record unfiltered and in order", ok, detail={"rows": [unparse(x)[:80] for x in vs]})


def r11_plain_decoder(ctx, dec):
    """What is read back is the JSON text as written: a decoder with an object hook (coba.json.loads rebuilds every one-field object named like a registered class,
    e.g. {'L1': 0.5} -> L1Reward(0.5)) returns values that no evaluator, learner or environment produced."""
    ctx.rule("C07.R11", "records are decoded with the standard library's hook-free json.loads: every `loads` used by TransactionDecode.filter resolves to the stdlib module "
                        "bound by `import json` and passes no object_hook / cls (coba.json.loads turns one-field objects named like registered classes into instances)")
    mod = ctx.model.modules[RES]
    std = any(isinstance(st, ast.Import) and any(a_.name == "json" and (a_.asname or "json") == "json" for a_ in st.names) for st in mod.tree.body)
    sites = []
    for n in ast.walk(dec):
        d = dotted_name(n) if isinstance(n, (ast.Attribute, ast.Name)) else None
        if d and d.split(".")[-1] in ("loads", "load") and isinstance(getattr(n, "ctx", None), ast.Load):
            sites.append((n, d))
    ctx.floor("C07.R11", "decode sites in TransactionDecode.filter", len(sites), 1)
    for n, d in sites:
        call = parent(n) if isinstance(parent(n), ast.Call) and parent(n).func is n else None
        hooked = call is not None and any(k.arg in ("object_hook", "object_pairs_hook", "cls") for k in call.keywords)
        ctx.ob("C07.R11", RES, "TransactionDecode.filter", n, "the record is decoded by the stdlib json module without hooks", std and d == "json.loads" and not hooked, detail={"decoder": d})


def _tcodes_produced(fn):
    out = []
    for n in walk_shallow(fn):
        if isinstance(n, (ast.List, ast.Tuple)) and n.elts:
            c = const_str(n.elts[0])
            if c and re.fullmatch(r"T\d+", c):
                out.append((c, n))
    return out


def _item(enc):
    loops = [s for s in enc.body if isinstance(s, ast.For) and unparse(s.iter) == "transactions"]
    return unparse(loops[0].target) if loops else "item"


def _arms(enc):
    """(code, If node) for each `item[0] == "Tn"` arm of the encoder."""
    ITEM = _item(enc)
    arms = []
    for n in walk_shallow(enc):
        if isinstance(n, ast.If) and isinstance(n.test, ast.Compare) and len(n.test.ops) == 1 and isinstance(n.test.ops[0], ast.Eq):
            c = const_str(n.test.comparators[0])
            if c and re.fullmatch(r"T\d+", c) and unparse(n.test.left) == f"{ITEM}[0]":
                arms.append((c, n))
    return arms


def r1_codes(ctx, enc, proc, run_):
    ctx.rule("C07.R1", "every T-code produced (ProcessTasks, Experiment.run) has an arm in TransactionEncode; each arm "
                       "yields exactly one record and every yield goes through the one encoder = dumps(minimize(x))")
    produced = _tcodes_produced(proc) + _tcodes_produced(run_)
    arms = _arms(enc)
    ENCODER = name_bound(enc, lambda v: isinstance(v, ast.Lambda), "encoder")
    handled = {c for c, _ in arms}
    ctx.floor("C07.R1", "T-codes produced", len(produced), 5)
    ctx.floor("C07.R1", "encoder arms", len(arms), 5)
    for c, node in produced:
        f = enclosing_function(node)
        ctx.ob("C07.R1", PROC if f is proc else EXP, "ProcessTasks.filter" if f is proc else "Experiment.run", node,
               f"produced code {c} is handled by TransactionEncode", c in handled, stmt=f"produce {c}")
    for c, arm in arms:
        ys = [y for s in arm.body for y in walk_shallow(s) if isinstance(y, (ast.Yield, ast.YieldFrom))]
        in_loop = [y for y in ys if any(isinstance(a, (ast.For, ast.While)) for a in _ancestors_within(y, arm))]
        ok = len(ys) == 1 and not in_loop and isinstance(ys[0], ast.Yield)
        ctx.ob("C07.R1", RES, "TransactionEncode.filter", arm, f"arm {c} yields exactly one record", ok, stmt=f"arm {c} yields")
        for y in ys:
            v = getattr(y, "value", None)
            if isinstance(v, ast.Name):   # `record = encoder([...])` inside a handler, `yield record` behind it
                vs = assigned_value(enc, v.id)
                v = vs[0] if len(vs) == 1 else v
            ok = isinstance(v, ast.Call) and call_name(v) == ENCODER and len(v.args) == 1
            ctx.ob("C07.R1", RES, "TransactionEncode.filter", y, "record goes through the single encoder", ok)
            if ok and isinstance(v.args[0], (ast.List, ast.Tuple)) and v.args[0].elts:
                tag = const_str(v.args[0].elts[0])
                ctx.ob("C07.R1", RES, "TransactionEncode.filter", y, f"arm {c} emits tag {TAG_OF.get(c)}", tag == TAG_OF.get(c),
                       stmt=f"arm {c} tag", detail={"tag": tag})
    others = [y for y in walk_shallow(enc) if isinstance(y, (ast.Yield, ast.YieldFrom))
              and not any(y in list(walk_shallow(a)) for _, a in arms)]
    for y in others:
        v = getattr(y, "value", None)
        ctx.ob("C07.R1", RES, "TransactionEncode.filter", y, "record goes through the single encoder",
               isinstance(v, ast.Call) and call_name(v) == ENCODER)
    encs = assigned_value(enc, ENCODER)
    ok = len(encs) == 1 and isinstance(encs[0], ast.Lambda) and isinstance(encs[0].body, ast.Call) \
        and (call_name(encs[0].body) or "").endswith("json.dumps") and encs[0].body.args \
        and unparse(encs[0].body.args[0]) == f"minimize({encs[0].args.args[0].arg})"
    ctx.ob("C07.R1", RES, "TransactionEncode.filter", enclosing_stmt(encs[0]) if encs else enc,
           "encoder = json.dumps(minimize(x)) -- normalisation applied exactly once", ok, stmt="encoder")
    # the log must be ASCII-only: DiskSink writes utf-8 bytes but DiskSource decodes with the platform's default encoding,
    # so only \\uXXXX-escaped JSON makes the file path equal the in-memory path on every platform (C07 statement, last sentence)
    kws = {k.arg: unparse(k.value) for e in encs if isinstance(e, ast.Lambda) and isinstance(e.body, ast.Call) for k in e.body.keywords}
    ctx.ob("C07.R1", RES, "TransactionEncode.filter", enclosing_stmt(encs[0]) if encs else enc,
           "records are written as ASCII-only JSON (ensure_ascii is not switched off), so reading back does not depend on the locale", kws.get("ensure_ascii", "True") == "True",
           stmt="encoder ascii", detail={"dumps_keywords": kws})
    jd = ctx.fn("coba/json.py", "dumps")
    names = [a.arg for a in jd.args.kwonlyargs]
    dflt = {a: unparse(d) for a, d in zip(names, jd.args.kw_defaults) if d is not None}
    passes = any(isinstance(c, ast.Call) and call_name(c) == "json.dumps" and any(k.arg == "ensure_ascii" and unparse(k.value) == "ensure_ascii" for k in c.keywords) for c in walk_shallow(jd))
    ctx.ob("C07.R1", "coba/json.py", "dumps", jd, "coba.json.dumps escapes non-ASCII by default and forwards the flag to json.dumps", dflt.get("ensure_ascii") == "True" and passes, stmt="json.dumps default ascii")
    # key order: rows keep the key order the evaluator produced (and mixed-type keys cannot be sorted at all)
    ctx.ob("C07.R1", RES, "TransactionEncode.filter", enclosing_stmt(encs[0]) if encs else enc,
           "records keep their key order (sort_keys is not switched on by the encoder)", kws.get("sort_keys", "False") == "False", stmt="encoder key order", detail={"dumps_keywords": kws})
    passes = any(isinstance(c, ast.Call) and call_name(c) == "json.dumps" and any(k.arg == "sort_keys" and unparse(k.value) == "sort_keys" for k in c.keywords) for c in walk_shallow(jd))
    ctx.ob("C07.R1", "coba/json.py", "dumps", jd, "coba.json.dumps keeps key order by default (sort_keys=False) and forwards the flag to json.dumps", dflt.get("sort_keys") == "False" and passes, stmt="json.dumps default key order")
    # arms are a chain over the transaction stream: every item of the input is dispatched
    loops = [s for s in enc.body if isinstance(s, ast.For) and unparse(s.iter) == "transactions"]
    ctx.ob("C07.R1", RES, "TransactionEncode.filter", loops[0] if loops else enc, "all transactions are dispatched in order (single loop, no break)",
           len(loops) == 1 and not any(isinstance(x, (ast.Break, ast.Continue, ast.Return)) for x in walk_shallow(loops[0])), stmt="dispatch loop")


def _ancestors_within(node, stop):
    from ..model import ancestors
    for a in ancestors(node):
        if a is stop:
            return
        yield a


def r2_tags(ctx, enc, dec, res):
    ctx.rule("C07.R2", "tags, positions [tag,id,payload] and the '_packed' key agree between TransactionEncode, "
                       "TransactionDecode, TransactionResult and Environments.from_result")
    emitted = {}
    ENCODER = name_bound(enc, lambda v: isinstance(v, ast.Lambda), "encoder")
    ITEM = _item(enc)
    for y in walk_shallow(enc):
        if not isinstance(y, ast.Yield):
            continue
        # `yield encoder([...])`, or `record = encoder([...])` ... `yield record` (the record is built inside a handler and yielded outside it)
        vals = [y.value] if isinstance(y.value, ast.Call) else assigned_value(enc, y.value.id) if isinstance(y.value, ast.Name) else []
        for v in vals:
            if isinstance(v, ast.Call) and call_name(v) == ENCODER and v.args:
                a = v.args[0]
                if isinstance(a, (ast.List, ast.Tuple)) and a.elts and const_str(a.elts[0]):
                    emitted[const_str(a.elts[0])] = a
    n_yields = sum(1 for y in walk_shallow(enc) if isinstance(y, (ast.Yield, ast.YieldFrom)))
    ctx.floor("C07.R2", "records yielded by TransactionEncode", n_yields, 6)
    readers = [(RES, "TransactionResult.filter", res)]
    fr = ctx.fn(ENVS, "Environments.from_result")
    readers.append((ENVS, "Environments.from_result", fr))
    def _trx(fn):
        for n in walk_shallow(fn):
            if isinstance(n, ast.Compare) and len(n.ops) == 1 and isinstance(n.ops[0], ast.Eq) and const_str(n.comparators[0]) in ("E", "L", "V", "I") \
                    and isinstance(n.left, ast.Subscript) and unparse(n.left.slice) == "0" and isinstance(n.left.value, ast.Name):
                return n.left.value.id
        return "trx"

    for rel, qual, fn in readers:
        handled = {}
        TRX = _trx(fn)
        for n in walk_shallow(fn):
            if isinstance(n, ast.Compare) and len(n.ops) == 1 and isinstance(n.ops[0], ast.Eq) and unparse(n.left) == f"{TRX}[0]":
                c = const_str(n.comparators[0])
                if c:
                    handled[c] = n
        need = {"E", "L", "V", "I"} | ({"experiment"} if qual.startswith("TransactionResult") else set())
        for tag in sorted(need):
            ctx.ob("C07.R2", rel, qual, handled.get(tag, fn), f"reader handles emitted tag '{tag}'", tag in handled and tag in emitted,
                   stmt=f"handles {tag}")
        for tag in sorted(set(handled) - set(emitted)):
            ctx.ob("C07.R2", rel, qual, handled[tag], f"reader tag '{tag}' is emitted by the writer", False, stmt=f"orphan tag {tag}")
    # positions: E/L/V -> [tag, id, params]; I -> [tag, ids, {"_packed": rows}]
    for tag in ("E", "L", "V"):
        a = emitted.get(tag)
        ok = a is not None and len(a.elts) == 3 and unparse(a.elts[1]) == f"{ITEM}[1]" and unparse(a.elts[2]) == f"{ITEM}[2]"
        ctx.ob("C07.R2", RES, "TransactionEncode.filter", a or enc, f"'{tag}' record is [tag, id, params] taken from item[1], item[2]", ok, stmt=f"layout {tag}")
    a = emitted.get("I")
    ok = a is not None and len(a.elts) == 3 and unparse(a.elts[1]) == f"{ITEM}[1]" and isinstance(a.elts[2], ast.Dict) \
        and [const_str(k) for k in a.elts[2].keys] == ["_packed"]
    ctx.ob("C07.R2", RES, "TransactionEncode.filter", a or enc, "'I' record is [tag, id-triple, {'_packed': columns}]", ok, stmt="layout I")
    a = emitted.get("experiment")
    ctx.ob("C07.R2", RES, "TransactionEncode.filter", a or enc, "'experiment' record carries item[1]",
           a is not None and len(a.elts) == 2 and unparse(a.elts[1]) == f"{ITEM}[1]", stmt="layout experiment")
    # reader side positions: each parameter tag accumulates into its own dict, which later fills its own table
    TRX = _trx(res)
    accs = {}
    for n in walk_shallow(res):
        if isinstance(n, ast.If) and isinstance(n.test, ast.Compare) and unparse(n.test.left) == f"{TRX}[0]":
            tag = const_str(n.test.comparators[0])
            calls = [c for s in n.body for c in walk_shallow(s) if isinstance(c, ast.Call) and call_tail(c) == "update"]
            if tag in ("E", "L", "V"):
                ok = len(calls) == 1 and isinstance(calls[0].func.value, ast.Subscript) and unparse(calls[0].func.value.slice) == f"{TRX}[1]" and f"{TRX}[2]" in unparse(calls[0].args[0])
                if ok:
                    accs[tag] = unparse(calls[0].func.value.value)
                ctx.ob("C07.R2", RES, "TransactionResult.filter", n, f"'{tag}' params (payload) are stored under the record id in that tag's accumulator", ok, stmt=f"read {tag}")
            if tag == "I":
                st = [x for s in n.body for x in walk_shallow(s) if isinstance(x, ast.Assign) and isinstance(x.targets[0], ast.Subscript)
                      and unparse(x.targets[0].slice) == f"tuple({TRX}[1])" and unparse(x.value) == f"{TRX}[2]"]
                if st:
                    accs["I"] = unparse(st[0].targets[0].value)
                ctx.ob("C07.R2", RES, "TransactionResult.filter", n, "'I' payload is stored under the id triple", len(st) == 1, stmt="read I")
            if tag == "experiment":
                st = [x for s in n.body if isinstance(s, ast.Assign) for x in [s] if unparse(x.value) == f"{TRX}[1]"]
                ctx.ob("C07.R2", RES, "TransactionResult.filter", n, "experiment meta is the record's second field", len(st) == 1, stmt="read experiment")
    ctx.ob("C07.R2", RES, "TransactionResult.filter", res, "the four tags accumulate into four distinct containers", len(set(accs.values())) == 4 and len(accs) == 4,
           detail={"accumulators": accs}, stmt="distinct accumulators")
    # each accumulator fills the table of its own kind: <table>.insert([{"<kind>_id": id, **row} for id,row in sorted(acc.items())])
    for tag, col in (("E", "environment_id"), ("L", "learner_id"), ("V", "evaluator_id")):
        ins = [c for c in walk_shallow(res) if isinstance(c, ast.Call) and call_tail(c) == "insert" and c.args and isinstance(c.args[0], ast.ListComp)
               and accs.get(tag) and f"sorted({accs[tag]}.items())" == unparse(c.args[0].generators[0].iter)]
        ok = len(ins) == 1 and isinstance(ins[0].args[0].elt, ast.Dict) and const_str(ins[0].args[0].elt.keys[0]) == col
        tbl = unparse(ins[0].func.value) if ins else None
        cols = [unparse(v) for v in assigned_value(res, tbl)] if tbl else []
        ok = ok and bool(cols) and f"columns=['{col}']" in cols[0]
        ctx.ob("C07.R2", RES, "TransactionResult.filter", ins[0] if ins else res, f"'{tag}' rows fill the table whose id column is {col}", ok, stmt=f"table for {tag}")
    for rel, qual, fn in readers:
        uses = [x for x in walk_shallow(fn) if isinstance(x, ast.Constant) and x.value == "_packed"]
        inner = []
        for (r2, q2), f2 in ctx.model.functions.items():
            if r2 == rel and q2.startswith(qual + "."):
                inner += [x for x in ast.walk(f2) if isinstance(x, ast.Constant) and x.value == "_packed"]
        ctx.ob("C07.R2", rel, qual, (uses + inner)[0] if uses + inner else fn, "reader unpacks the '_packed' payload key", bool(uses + inner), stmt="_packed key")
    # decoder: version first, everything else json-decoded in order
    VROW = name_bound(dec, lambda v: "json.loads(next(transactions))" == unparse(v), "ver_row")
    ver = [x for x in walk_shallow(dec) if isinstance(x, ast.Compare) and f"{VROW}[1]" in unparse(x.left)]
    ok = bool(ver) and all(isinstance(v.comparators[0], ast.Constant) and v.comparators[0].value == 4 for v in ver)
    ev = emitted.get("version")
    okw = ev is not None and len(ev.elts) == 2 and isinstance(ev.elts[1], ast.Constant) and ev.elts[1].value == 4
    ctx.ob("C07.R2", RES, "TransactionDecode.filter", ver[0] if ver else dec, "reader's accepted version equals the version the writer emits (4)", ok and okw, stmt="version agreement")
    VER = name_bound(res, lambda v: "next(transactions)[1]" == unparse(v), "version")
    vchecks = [x for x in walk_shallow(res) if isinstance(x, ast.Compare) and unparse(x.left) == VER and isinstance(x.ops[0], ast.NotEq)]
    ctx.ob("C07.R2", RES, "TransactionResult.filter", vchecks[0] if vchecks else res, "TransactionResult rejects versions other than the writer's",
           bool(vchecks) and all(isinstance(v.comparators[0], ast.Constant) and v.comparators[0].value == 4 for v in vchecks), stmt="version check")


def r3_packing(ctx, enc, res):
    ctx.rule("C07.R3", "T4 rows are packed by one loop nest in row order, one cell per (row,key) with None for absent "
                       "keys; the reader numbers rows range(1,N+1) with N the length of a packed column")
    arm = dict(_arms(enc)).get("T4")
    if arm is None:
        ctx.ob("C07.R3", RES, "TransactionEncode.filter", enc, "T4 arm exists", False, stmt="T4 arm")
        return
    ITEM = _item(enc)
    ROWS_T = name_bound(arm, lambda v: isinstance(v, ast.Call) and call_name(v) in ("collections.defaultdict", "defaultdict"), "rows_T")
    KEYS = name_bound(arm, lambda v: isinstance(v, ast.Call) and call_name(v) == "sorted", "keys")
    # the arm may build its record inside a handler (rows that cannot be written cost their own triple only): look through the try
    body = [x for s_ in arm.body for x in ((s_.body + s_.orelse) if isinstance(s_, ast.Try) else [s_])]
    for t_ in [s_ for s_ in arm.body if isinstance(s_, ast.Try)]:
        for h in t_.handlers:
            logs = any(isinstance(c, ast.Call) and unparse(c.func) in ("CobaContext.logger.log",) for x in h.body for c in ast.walk(x))
            ctx.ob("C07.R3", RES, "TransactionEncode.filter", h, "a record that cannot be written is reported in the log (never dropped silently) and only its own triple is lost",
                   logs and h.name is not None and not any(isinstance(x, (ast.Break, ast.Return)) for b_ in h.body for x in ast.walk(b_)), stmt="unwritable record reported")
    outer = [s for s in body if isinstance(s, ast.For)]
    ok = False
    detail = {}
    if len(outer) == 1 and unparse(outer[0].iter) == f"{ITEM}[2]" and len(outer[0].body) == 1 and isinstance(outer[0].body[0], ast.For):
        inner = outer[0].body[0]
        row, key = unparse(outer[0].target), unparse(inner.target)
        detail = {"outer": unparse(outer[0].iter), "inner": unparse(inner.iter)}
        if unparse(inner.iter) == KEYS and len(inner.body) == 1:
            b_ = unparse(inner.body[0])
            ok = b_ == f"{ROWS_T}[str({key})].append({row}.get({key}, None))"
            detail["cell"] = b_
    ctx.ob("C07.R3", RES, "TransactionEncode.filter", outer[0] if outer else arm, "one append per (row,key) in row order; absent keys become None", ok, detail=detail, stmt="pack loop")
    keys = assigned_value(enc, KEYS)
    ok = len(keys) == 1 and isinstance(keys[0], ast.Call) and call_name(keys[0]) == "sorted" and isinstance(keys[0].args[0], ast.Call) and "union" in unparse(keys[0].args[0].func) \
        and f".keys() for " in unparse(keys[0]) and f" in {ITEM}[2]" in unparse(keys[0]) and kw(keys[0], "key") is not None and unparse(kw(keys[0], "key")) == "str"
    ctx.ob("C07.R3", RES, "TransactionEncode.filter", enclosing_stmt(keys[0]) if keys else arm, "packed key set is the union of all row keys, sorted by str", ok, stmt="key union")
    ys = [y for s in arm.body for y in walk_shallow(s) if isinstance(y, ast.Yield)]
    shown = unparse(ys[0]) if ys else ""
    if ys and isinstance(ys[0].value, ast.Name):
        shown = " ".join(unparse(v) for v in assigned_value(enc, ys[0].value.id))
    ok = bool(ys) and f"'_packed': {ROWS_T}" in shown
    ctx.ob("C07.R3", RES, "TransactionEncode.filter", ys[0] if ys else arm, "the packed columns are what is emitted", ok, stmt="emit packed columns")
    # reader numbering
    PACKED = name_bound(res, lambda v: isinstance(v, ast.Call) and "_packed" in unparse(v), "packed")
    NN = name_bound(res, lambda v: unparse(v) == f"len(next(iter({PACKED}.values())))", "N")
    idx = [x for x in walk_shallow(res) if isinstance(x, ast.Assign) and unparse(x.targets[0]) == f"{PACKED}['index']"]
    if not idx:
        ctx.ob("C07.R3", RES, "TransactionResult.filter", res, "rows are numbered range(1, N+1)", False, stmt="no index column assignment")
    for s_ in idx:
        ctx.ob("C07.R3", RES, "TransactionResult.filter", s_, "rows are numbered range(1, N+1)", unparse(s_.value) == f"range(1, {NN} + 1)")
    ns = assigned_value(res, NN)
    ctx.ob("C07.R3", RES, "TransactionResult.filter", enclosing_stmt(ns[0]) if ns else res, "N is the length of a packed column",
           len(ns) == 1 and unparse(ns[0]) == f"len(next(iter({PACKED}.values())))", stmt="N")
    loops = [x for x in walk_shallow(res) if isinstance(x, ast.For) and isinstance(x.iter, ast.Call) and call_name(x.iter) == "sorted" and isinstance(x.target, ast.Tuple)
             and isinstance(x.target.elts[0], ast.Tuple) and len(x.target.elts[0].elts) == 3]
    ok = len(loops) == 1
    ids = [unparse(e) for e in loops[0].target.elts[0].elts] if ok else ["env_id", "lrn_id", "val_id"]
    ctx.ob("C07.R3", RES, "TransactionResult.filter", loops[0] if loops else res, "id triple is unpacked from the sorted interaction records", ok, stmt="unpack triple")
    for col, src in zip(("environment_id", "learner_id", "evaluator_id"), ids):
        st = [x for x in walk_shallow(res) if isinstance(x, ast.Assign) and unparse(x.targets[0]) == f"{PACKED}['{col}']"]
        ctx.ob("C07.R3", RES, "TransactionResult.filter", st[0] if st else res, f"{col} column repeats the record's id (position {('environment_id', 'learner_id', 'evaluator_id').index(col) + 1} of the triple) N times",
               bool(st) and unparse(st[0].value) == f"repeat({src}, {NN})", stmt=f"packed[{col}]")
    ins = [x for l in loops for x in walk_shallow(l) if isinstance(x, ast.Call) and call_tail(x) == "insert" and x.args and unparse(x.args[0]) == PACKED]
    ctx.ob("C07.R3", RES, "TransactionResult.filter", ins[0] if ins else res, "every non-empty packed record is inserted once", len(ins) == 1, stmt="insert packed")
    if ins:
        tbl = unparse(ins[0].func.value)
        cols = [unparse(v) for v in assigned_value(res, tbl)]
        ctx.ob("C07.R3", RES, "TransactionResult.filter", ins[0], "packed records fill the interactions table (environment_id, learner_id, evaluator_id, index)",
               bool(cols) and "'environment_id', 'learner_id', 'evaluator_id', 'index'" in cols[0], stmt="interactions table")


def r4_one_path(ctx, run_):
    ctx.rule("C07.R4", "Experiment.run selects sink and source by the same test, writes through encode and reads "
                       "through decode->result on both paths, and the in-memory source reads the sink's own list")
    SINK = name_bound(run_, lambda v: isinstance(v, ast.IfExp) and has_call(v, "DiskSink"), "sink")
    SRC = name_bound(run_, lambda v: isinstance(v, ast.IfExp) and has_call(v, "DiskSource"), "source")
    sink = assigned_value(run_, SINK)
    src = assigned_value(run_, SRC)
    ok = len(sink) == 1 and len(src) == 1 and isinstance(sink[0], ast.IfExp) and isinstance(src[0], ast.IfExp) \
        and unparse(sink[0].test) == unparse(src[0].test) == "result_file"
    ctx.ob("C07.R4", EXP, "Experiment.run", enclosing_stmt(sink[0]) if sink else run_, "sink and source are chosen by the same test", ok, stmt="sink/source test")
    if ok:
        s_, r = sink[0], src[0]
        ctx.ob("C07.R4", EXP, "Experiment.run", s_, "file path: DiskSink(result_file) / DiskSource(result_file)",
               call_name(s_.body) == "DiskSink" and call_name(r.body) == "DiskSource" and unparse(s_.body.args[0]) == unparse(r.body.args[0]) == "result_file",
               stmt="disk pair")
        ctx.ob("C07.R4", EXP, "Experiment.run", r, "memory path: ListSource reads the ListSink's items",
               call_name(s_.orelse) == "ListSink" and call_name(r.orelse) == "ListSource" and unparse(r.orelse.args[0]) == f"{SINK}.items"
               and kw(s_.orelse, "foreach") is not None and unparse(kw(s_.orelse, "foreach")) == "True", stmt="memory pair")
    role = {}
    for nm, cls in (("encode", "TransactionEncode"), ("decode", "TransactionDecode"), ("result", "TransactionResult"), ("workitems", "MakeTasks"),
                    ("process", "CobaMultiprocessor"), ("chunker", "ChunkTasks")):
        role[nm] = name_bound(run_, lambda v, cls=cls: isinstance(v, ast.Call) and call_name(v) == cls, nm)
        v = assigned_value(run_, role[nm])
        ctx.ob("C07.R4", EXP, "Experiment.run", enclosing_stmt(v[0]) if v else run_, f"{nm} is a {cls}", len(v) == 1 and call_name(v[0]) == cls, stmt=f"{nm} := {cls}")
    role["preamble"] = name_bound(run_, lambda v: isinstance(v, ast.IfExp) and has_call(v, "Insert"), "preamble")
    joins = [c for c in walk_shallow(run_) if isinstance(c, ast.Call) and (call_name(c) or "").endswith("join")]
    w = [c for c in joins if c.args and unparse(c.args[-1]) == SINK]
    r = [c for c in joins if c.args and unparse(c.args[0]) == SRC]
    ctx.floor("C07.R4", "write/read pipelines", len(w) + len(r), 2)
    for c in w:
        names = [unparse(a) for a in c.args]
        ok = names[-2:] == [role["encode"], SINK] and names[0] == role["workitems"] and role["process"] in names and role["preamble"] in names \
            and names.index(role["process"]) < names.index(role["preamble"]) < names.index(role["encode"])
        ctx.ob("C07.R4", EXP, "Experiment.run", c, "write pipeline is workitems..process, preamble, encode, sink", ok, detail={"pipeline": names})
    for c in r:
        names = [unparse(a) for a in c.args]
        ctx.ob("C07.R4", EXP, "Experiment.run", c, "read pipeline is source, decode, result", names == [SRC, role["decode"], role["result"]], detail={"pipeline": names})
    rets = [x for x in walk_shallow(run_) if isinstance(x, ast.Return) and x.value is not None]
    ctx.ob("C07.R4", EXP, "Experiment.run", rets[-1] if rets else run_, "run() returns the Result read back from the log",
           bool(rets) and all(isinstance(x.value, ast.Call) and call_tail(x.value) == "read" and x.value.func.value in r for x in rets), stmt="return read-back")


def r6_table_alignment(ctx):
    """Table.insert with a mapping: rows whose key sets differ are aligned by padding.  Every column must grow by the number of rows
    being inserted: a column the new data lacks is padded with that many Missing, a column the table lacked is prefixed with one Missing
    per row already in the table."""
    ctx.rule("C07.R6", "Table.insert keeps the table rectangular: a column absent from the inserted rows is padded with len(<inserted data>) Missing values, "
                       "a new column is prefixed with len(self) Missing values, an existing column is extended with the inserted values")
    fn = ctx.fn(RES, "Table.insert")

    def origin(e):
        """'table' if the count is the table's current length, 'data' if it is derived from the inserted data"""
        if isinstance(e, ast.Name):
            vs = assigned_value(fn, e.id)
            kinds = {origin(v) for v in vs}
            return kinds.pop() if len(kinds) == 1 else "mixed"
        txt = unparse(e)
        if txt == "len(self)":
            return "table"
        if "data" in {x.id for x in ast.walk(e) if isinstance(x, ast.Name)} and "self" not in {x.id for x in ast.walk(e) if isinstance(x, ast.Name)}:
            return "data"
        return "other"
    pads = [c for c in ast.walk(fn) if isinstance(c, ast.Call) and call_name(c) == "repeat" and len(c.args) == 2 and unparse(c.args[0]) == "Missing"]
    ctx.floor("C07.R6", "Missing paddings in Table.insert", len(pads), 2)
    for c in pads:
        par = parent(c)
        prefix = isinstance(par, ast.Call) and call_name(par) == "chain" and par.args and par.args[0] is c   # Missing first, then the new values: a new column
        want = "table" if prefix else "data"
        got = origin(c.args[1])
        ctx.ob("C07.R6", RES, "Table.insert", c, ("a new column is prefixed with one Missing per existing row" if prefix else "a column absent from the inserted rows is padded with one Missing per inserted row"),
               got == want, detail={"count": unparse(c.args[1]), "count is the length of": got}, stmt="prefix new column" if prefix else "pad absent column")


def r7_minimize_guards(ctx):
    ctx.rule("C07.R7", "minimize never rounds a non-finite float (NaN/inf survive normalisation, nested or not): every round(...) of a value is guarded by "
                       "isfinite(<that value>), locally or at every call site of the helper it sits in")
    UT = "coba/utilities.py"
    fn = ctx.fn(UT, "minimize")
    from ..util import all_guards
    rounds = [c for c in ast.walk(fn) if isinstance(c, ast.Call) and call_name(c) == "round" and c.args]
    ctx.floor("C07.R7", "rounding sites in minimize", len(rounds), 1)

    def guarded(node, var, holder):
        for t, pol in all_guards(node, holder):
            if pol and isinstance(t, ast.Call) and call_name(t) in ("isfinite", "math.isfinite") and t.args and unparse(t.args[0]) == var:
                return True
        return False
    for c in rounds:
        names = [x.id for x in ast.walk(c.args[0]) if isinstance(x, ast.Name) and x.id not in ("P", "precision")]
        var = names[0] if names else None
        holder = enclosing_function(c)
        ok = var is not None and guarded(c, var, holder)
        where = "locally"
        if not ok and var is not None and holder is not fn and isinstance(holder, ast.FunctionDef) and var in [a.arg for a in holder.args.args]:
            # a helper: every call site must pass a value it has checked
            i = [a.arg for a in holder.args.args].index(var)
            calls = [k for k in ast.walk(fn) if isinstance(k, ast.Call) and isinstance(k.func, ast.Name) and k.func.id == holder.name and k is not c]
            ok = bool(calls) and all(len(k.args) > i and guarded(k, unparse(k.args[i]), enclosing_function(k) or fn) for k in calls)
            where = f"at the {len(calls)} call site(s) of {holder.name}"
        ctx.ob("C07.R7", UT, "minimize", c, "rounding is applied to finite floats only", ok, detail={"value": var, "checked": where})


def r5_normalisation(ctx, res):
    ctx.rule("C07.R5", "the reader applies exactly the documented normalisation to params: a top-level list value is read back as a tuple of the "
                       "same elements (nested values untouched)")
    helpers = {g.name: g for g in ast.walk(res) if isinstance(g, ast.FunctionDef) and g is not res}
    norm_calls = [c.args[0] for c in ast.walk(res) if isinstance(c, ast.Call) and call_tail(c) == "update" and c.args and isinstance(c.args[0], ast.Call)
                  and isinstance(c.args[0].func, ast.Name) and c.args[0].func.id in helpers]
    shallow = sorted({c.func.id for c in norm_calls})
    for nm in shallow:
        g = helpers[nm]
        rets = [r for r in walk_shallow(g) if isinstance(r, ast.Return)]
        ok, shown = False, None
        if len(rets) == 1 and isinstance(rets[0].value, ast.DictComp) and isinstance(rets[0].value.value, ast.IfExp):
            dc = rets[0].value
            v = dc.generators[0].target.elts[1].id if isinstance(dc.generators[0].target, ast.Tuple) and len(dc.generators[0].target.elts) == 2 else None
            ie = dc.value
            shown = unparse(ie)
            inner = [x for x in ast.walk(g) if isinstance(x, ast.FunctionDef) and x is not g]
            ok = bool(v) and unparse(ie.test) == f"isinstance({v}, list)" and unparse(ie.body) == f"tuple({v})" and unparse(ie.orelse) == v and not inner \
                and unparse(dc.key) == dc.generators[0].target.elts[0].id
        ctx.ob("C07.R5", RES, "TransactionResult.filter", rets[0] if rets else g, f"`{nm}` reads a list-valued param back as tuple(<the list>) -- one level, keys and every other value unchanged", ok,
               detail={"value": shown}, stmt=f"normaliser {nm}")
    ctx.floor("C07.R5", "param normalisers applied in TransactionResult.filter", len(shallow), 1)
    # packed interaction columns: the list -> tuple conversion is decided cell by cell
    packers = sorted({c.func.id for c in ast.walk(res) if isinstance(c, ast.Call) and isinstance(c.func, ast.Name) and c.func.id in helpers
                      and c.args and "_packed" in unparse(c.args[0])})
    ctx.floor("C07.R5", "normalisers applied to packed interaction columns", len(packers), 1)
    for nm in packers:
        g = helpers[nm]
        first_cell = [x for x in ast.walk(g) if isinstance(x, ast.Subscript) and unparse(x.slice) == "0" and any(isinstance(a, (ast.IfExp, ast.If)) and x in list(ast.walk(a.test)) for a in ast.walk(g) if isinstance(a, (ast.IfExp, ast.If)))]
        per_cell = [c for c in ast.walk(g) if isinstance(c, ast.ListComp) and isinstance(c.elt, ast.IfExp) and isinstance(c.generators[0].target, ast.Name)
                    and c.generators[0].target.id in {x.id for x in ast.walk(c.elt.test) if isinstance(x, ast.Name)}]
        ctx.ob("C07.R5", RES, "TransactionResult.filter", g, f"`{nm}` converts list cells to tuples cell by cell (a column may hold lists in some rows and None / other values in others)",
               bool(per_cell) and not first_cell, detail={"decided from the first cell": [unparse(x) for x in first_cell]}, stmt=f"packed normaliser {nm}")
    for tag in ("E", "L", "V"):
        arms = [x for x in ast.walk(res) if isinstance(x, ast.If) and isinstance(x.test, ast.Compare) and const_str(x.test.comparators[0]) == tag and len(x.test.ops) == 1 and isinstance(x.test.ops[0], ast.Eq)]
        ok = bool(arms) and all(any(isinstance(c, ast.Call) and call_tail(c) == "update" and c.args and isinstance(c.args[0], ast.Call) and isinstance(c.args[0].func, ast.Name) and c.args[0].func.id in shallow
                                    for c in ast.walk(a)) for a in arms)
        ctx.ob("C07.R5", RES, "TransactionResult.filter", arms[0] if arms else res, f"'{tag}' params go through the top-level list->tuple normaliser", ok, stmt=f"normalise {tag}")


def _sort_keys_default(tree):
    from ..mutate import find_def
    fn = find_def(tree, "dumps")
    i = [a.arg for a in fn.args.kwonlyargs].index("sort_keys")
    fn.args.kw_defaults[i] = ast.Constant(True)


CONTROLS = [
    ("SafeLearner stamps the family into the learner's own mapping", "coba/safety.py", M.replace_expr("SafeLearner.params", "dict(params) if isinstance(params, dict) else {'params': str(params)}", "params if isinstance(params, dict) else {'params': str(params)}"), "C07.R15"),
    ("SafeEvaluator stamps eval_type into the evaluator's own mapping", "coba/safety.py", M.replace_expr("SafeEvaluator.params", "dict(self.evaluator.params)", "self.evaluator.params"), "C07.R15"),
    ("params records skipped by counting the restored ids", PROC, M.replace_expr("MakeTasks.read", "eid not in restored_envs", "eid >= len(restored_envs)"), "C07.R14"),
    ("empty rows of an evaluation are dropped", PROC, M.replace_expr("ProcessTasks.filter", "list(SafeEvaluator(val).evaluate(env, lrn))", "[row for row in SafeEvaluator(val).evaluate(env, lrn) if row]"), "C07.R13"),
    ("the call-style helper hands its default kwargs out", "coba/safety.py", M.insert_before("SafeLearner._safe_call", lambda st: True, "self._last_kwargs = kwargs"), "C07.R12"),
    ("records decoded with the class-rebuilding decoder", RES, M.replace_expr("TransactionDecode.filter", "map(json.loads, transactions)", "map(coba.json.loads, transactions)"), "C07.R11"),
    ("repair counts the kept offset from the end of the file", EXP, M.replace_expr("_drop_partial_record", "start + end + 1 if end >= 0 else 0", "size - (pos - start - end - 1) if end >= 0 else 0"), "C07.R10"),
    ("result records written eight at a time", EXP, M.replace_expr("Experiment.run", "DiskSink(result_file, batch=1)", "DiskSink(result_file, batch=8)"), "C07.R9"),
    ("packed column converted by its first cell", RES, M.replace_expr("TransactionResult.filter", "[tuple(c) if c.__class__ is list else c for c in v] if k != 'rewards' else v",
                                                                     "list(map(tuple, v)) if k != 'rewards' and isinstance(v[0], list) else v"), "C07.R5"),
    ("absent column padded with the table length", RES, M.replace_expr("Table.insert", "repeat(Missing, dat_len)", "repeat(Missing, old_len)"), "C07.R6"),
    ("nested floats rounded without isfinite", "coba/utilities.py", M.replace_expr("minimize", "isinstance(v, float) and isfinite(v)", "isinstance(v, float)"), "C07.R7"),
    ("params tuple-d recursively", RES, M.replace_expr("TransactionResult.filter", "tuple(v) if isinstance(v, list) else v", "tuple(map(tuple, v)) if isinstance(v, list) else v"), "C07.R5"),
    ("sorted keys by default", "coba/json.py", _sort_keys_default, "C07.R1"),
    ("non-ascii log", RES, M.replace_expr("TransactionEncode.filter", "coba.json.dumps(minimize(x), separators=(',', ':'))", "coba.json.dumps(minimize(x), separators=(',', ':'), ensure_ascii=False)"), "C07.R1"),
    ("emit T5", PROC, M.replace_expr("ProcessTasks.filter", "'T3'", "'T5'"), "C07.R1"),
    ("bypass encoder", RES, M.replace_expr("TransactionEncode.filter", "encoder(['L', item[1], item[2]])", "coba.json.dumps(['L', item[1], item[2]])"), "C07.R1"),
    ("rename _packed on writer", RES, M.replace_expr("TransactionEncode.filter", "{'_packed': rows_T}", "{'_rows': rows_T}"), "C07.R2"),
    ("index from 0", RES, M.replace_expr("TransactionResult.filter", "range(1, N + 1)", "range(N)"), "C07.R3"),
    ("skip missing keys", RES, M.replace_expr("TransactionEncode.filter", "row.get(key, None)", "row[key]"), "C07.R3"),
    ("read pipeline without decode", EXP, M.replace_expr("Experiment.run", "Pipes.join(source, decode, result)", "Pipes.join(source, result)"), "C07.R4"),
]
