"""C01 -- results independent of execution configuration (DESIGN.md 5/C01).

Decided: the structural preconditions (seed marshalling, seed fall-back, dense first-appearance
ids assigned in exactly one place, chunking loses/duplicates nothing, order-insensitive rebuild,
no process-dependent value or hash-order reaches a recorded value).  Equality of Results is not decided.
"""
import ast

from ..cfg import CFG
from ..model import walk_shallow, call_name, is_self_attr, dotted_name, parent, ancestors, enclosing_function
from ..util import (has_call, find_calls, assigned_value, const_str, unparse, kw, arg_or_kw, enclosing_stmt,
                    control_ancestors, guards_of, call_tail, nodes_where, node_ast_for_effects)
from .. import mutate as M
from . import c02

TECHNIQUE = 'static analysis: AST def-use and CFG dominance rules (seed store precedes every run path, natural-order sort keys), package scan for process-dependent sources, composed copy-flag / cross-read-state / chunk-limit rules of C03, C04, C08'

EXPLANATION = ("Static rules over Experiment.run, MakeTasks/ChunkTasks, CobaMultiprocessor, the evaluators and "
               "TransactionResult: the experiment seed is stored before and deleted after the pipeline run on every CFG "
               "path and is marshalled into every worker; every evaluator seeds SafeLearner/CobaRandom with "
               "'own seed else experiment_seed'; ids are dense first-appearance numbers assigned only in MakeTasks.read; "
               "chunking partitions the tasks; the result rebuild iterates only through sorted(); no time/hash/id/"
               "unseeded randomness reaches a recorded value; no set is iterated into ordered output.")
EXPLANATION += ' R8: state cannot flow between tasks through shared objects (copy flag over all triples, no cross-read filter state, per-child limit counts input chunks).'
EXPLANATION += ' Also composed into R8: filters never train a learner they hold (C04.R7), learning_info cleared per evaluation (C03.R5), maxtasksperchunk batching partitions the tasks (cardinality domain).'

EXP = "coba/experiments/core.py"
PROC = "coba/experiments/process.py"
CMP = "coba/multiprocessing.py"
RES = "coba/results/core.py"
SEQ = "coba/evaluators/sequential.py"


def run(ctx):
    r1_seed_marshalling(ctx)
    r2_seed_fallback(ctx)
    r3_ids(ctx)
    r4_chunking(ctx)
    r5_sorted_rebuild(ctx)
    r6_process_dependent(ctx)
    r7_hash_order(ctx)
    r8_shared_objects(ctx)
    r9_generators_travel_with_their_position(ctx)
    r10_reduce_covers_constructor(ctx)
    # the record of an evaluation is a function of that evaluation alone: records reach the parent in any order when several processes work
    from . import c02
    ctx.rule("C01.R11", "TransactionEncode is stateless across records (C02.R8): it keeps nothing but the restored flag, so what is written for one triple cannot depend on which records arrived before it")
    c02.encoder_stateless(ctx, "C01.R11")


def r10_reduce_covers_constructor(ctx, rule="C01.R10"):
    """A component reaches a worker process as `Cls(*args)` when its class defines __reduce__: a constructor argument that is not among `args` silently falls back
    to its default there (a noise seed, a level list ...), while the in-process run keeps the given value."""
    ctx.rule(rule, "pickling keeps every constructor argument: wherever a class of the package returns `(OwnClass, args)` from __reduce__, args carries one value per "
                   "constructor parameter -- a tuple literal of that length, or an attribute that __init__ binds to the tuple of its parameters in their order")
    n = 0
    for rel, mod in sorted(ctx.model.modules.items()):
        if rel.startswith("coba/tests"):
            continue
        for cls in [c for c in ast.walk(mod.tree) if isinstance(c, ast.ClassDef)]:
            red = next((f for f in cls.body if isinstance(f, ast.FunctionDef) and f.name == "__reduce__"), None)
            if red is None:
                continue
            ctor = next((f for f in cls.body if isinstance(f, ast.FunctionDef) and f.name == "__init__"), None) or next((f for f in cls.body if isinstance(f, ast.FunctionDef) and f.name == "__new__"), None)
            if ctor is None or ctor.args.vararg or ctor.args.kwarg:
                continue
            params = [a.arg for a in ctor.args.args[1:]] + [a.arg for a in ctor.args.kwonlyargs]
            for r in [x for x in walk_shallow(red) if isinstance(x, ast.Return) and isinstance(x.value, ast.Tuple) and len(x.value.elts) >= 2
                      and isinstance(x.value.elts[0], ast.Name) and x.value.elts[0].id == cls.name]:
                n += 1
                args = r.value.elts[1]
                detail = {"parameters": params}
                if isinstance(args, ast.Tuple):
                    ok = len(args.elts) == len(ctor.args.args) - 1 and not ctor.args.kwonlyargs
                    detail["args"] = [unparse(e) for e in args.elts]
                elif is_self_attr(args):
                    binds = [st for st in ast.walk(ctor) if isinstance(st, ast.Assign) and any(unparse(t) == unparse(args) for t in st.targets)]
                    ok = len(binds) == 1 and isinstance(binds[0].value, ast.Tuple) and [unparse(e) for e in binds[0].value.elts] == params
                    detail["args"] = [unparse(b.value) for b in binds]
                else:
                    ok = False
                    detail["args"] = unparse(args)
                ctx.ob(rule, rel, f"{cls.name}.__reduce__", r, "the arguments handed to the constructor on unpickling are all of its parameters, in order", ok, detail=detail)
    ctx.floor(rule, "__reduce__ implementations returning (OwnClass, args)", n, 3)


# ------------------------------------------------------------------------------------------ R1
def _is_store_seed(a):
    return isinstance(a, ast.Assign) and any(unparse(t).replace('"', "'") == "CobaContext.store['experiment_seed']" for t in a.targets)


def _is_del_seed(a):
    return isinstance(a, ast.Delete) and any(unparse(t).replace('"', "'") == "CobaContext.store['experiment_seed']" for t in a.targets)


def r1_seed_marshalling(ctx, rule="C01.R1"):
    ctx.rule(rule, "the experiment seed is in CobaContext.store on every path before the pipeline runs and is removed "
                       "only afterwards; the worker store is built from **CobaContext.store and installed in each worker "
                       "before the wrapped filter runs")
    run = ctx.fn(EXP, "Experiment.run")
    cfg = CFG(run)
    runs = nodes_where(cfg, lambda n: n.kind == "stmt" and any(
        isinstance(c, ast.Call) and call_tail(c) == "run" and isinstance(c.func, ast.Attribute) and isinstance(c.func.value, ast.Call)
        for c in walk_shallow(n.ast)))
    stores = nodes_where(cfg, lambda n: n.kind == "stmt" and _is_store_seed(n.ast))
    dels = nodes_where(cfg, lambda n: n.kind == "stmt" and _is_del_seed(n.ast))
    ctx.floor(rule, "pipeline .run() statements in Experiment.run", len(runs), 1)
    dom = cfg.dominators()
    for r in runs:
        ok = any(s in dom[r] for s in stores)
        ctx.ob(rule, EXP, "Experiment.run", cfg.nodes[r].ast, "store['experiment_seed'] = seed dominates the pipeline run", ok)
        # no delete can precede the run
        bad = [d for d in dels if r in cfg.reachable(d)]
        ctx.ob(rule, EXP, "Experiment.run", cfg.nodes[r].ast, "the seed is not deleted on any path before the pipeline run", not bad,
               stmt="no-del-before:" + unparse(cfg.nodes[r].ast))
    for s in stores:
        a = cfg.nodes[s].ast
        ctx.ob(rule, EXP, "Experiment.run", a, "the stored experiment seed is run()'s seed argument", unparse(a.value) == "seed")
    # (b) worker store built from **CobaContext.store and handed to ProcessFilter
    flt = ctx.fn(CMP, "CobaMultiprocessor.filter")
    pfs = find_calls(flt, "ProcessFilter")
    ctx.floor(rule, "ProcessFilter constructions", len(pfs), 1)
    for c in pfs:
        a = arg_or_kw(c, 3, "store")
        vals = assigned_value(flt, a.id) if isinstance(a, ast.Name) else ([a] if a is not None else [])
        ok = bool(vals) and all(isinstance(v, ast.Dict) and any(k is None and unparse(x) == "CobaContext.store" for k, x in zip(v.keys, v.values))
                                for v in vals)
        ctx.ob(rule, CMP, "CobaMultiprocessor.filter", c, "the store marshalled to workers contains **CobaContext.store", ok)
        a0 = arg_or_kw(c, 0, "filter")
        ctx.ob(rule, CMP, "CobaMultiprocessor.filter", c, "the worker wraps the same filter as the in-process arm",
               a0 is not None and unparse(a0) == "self._filter", stmt="wrapped:" + unparse(c))
    mps = find_calls(flt, "Multiprocessor")
    for c in mps:
        a0 = c.args[0] if c.args else None
        vals = assigned_value(flt, a0.id) if isinstance(a0, ast.Name) else []
        ok = bool(vals) and all(unparse(v) == "self._filter" or has_call(v, "ProcessFilter") for v in vals)
        ctx.ob(rule, CMP, "CobaMultiprocessor.filter", c, "Multiprocessor runs either the bare filter (in-process) or its ProcessFilter wrapper", ok)
    # (c) ProcessFilter.filter installs the marshalled context before the wrapped filter is entered
    pf = ctx.fn(CMP, "CobaMultiprocessor.ProcessFilter.filter")
    init = ctx.fn(CMP, "CobaMultiprocessor.ProcessFilter.__init__")
    pcfg = CFG(pf)
    inner = nodes_where(pcfg, lambda n: n.ast is not None and node_ast_for_effects(n) is not None
                        and any(isinstance(c, ast.Call) and unparse(c.func) == "self._filter.filter" for c in walk_shallow(node_ast_for_effects(n))))
    ctx.floor(rule, "wrapped filter call in ProcessFilter.filter", len(inner), 1)
    pdom = pcfg.dominators()
    for field in ("store", "cacher", "logger"):
        sts = nodes_where(pcfg, lambda n: n.kind == "stmt" and isinstance(n.ast, ast.Assign) and
                          any(unparse(t) == f"CobaContext.{field}" for t in n.ast.targets) and unparse(n.ast.value) == f"self._{field}")
        for i in inner:
            ctx.ob(rule, CMP, "CobaMultiprocessor.ProcessFilter.filter", pcfg.nodes[i].ast,
                   f"CobaContext.{field} = self._{field} dominates the wrapped filter call", any(s in pdom[i] for s in sts),
                   stmt=f"install {field} before " + unparse(pcfg.nodes[i].ast))
        st = [n for n in walk_shallow(init) if isinstance(n, ast.Assign) and any(is_self_attr(t, f"_{field}") for t in n.targets)]
        ctx.ob(rule, CMP, "CobaMultiprocessor.ProcessFilter.__init__", st[0] if st else init,
               f"self._{field} is the constructor's {field}", bool(st) and all(unparse(s.value) == field for s in st), stmt=f"self._{field} store")


# ------------------------------------------------------------------------------------------ R2
def _is_seed_fallback(e, fn, depth=0):
    """e == `S if S is not None else CobaContext.store.get('experiment_seed')` (or a local bound to it)."""
    if isinstance(e, ast.Name) and depth < 2:
        vals = assigned_value(fn, e.id)
        return len(vals) == 1 and _is_seed_fallback(vals[0], fn, depth + 1)
    if not isinstance(e, ast.IfExp):
        return False
    t = e.test
    if not (isinstance(t, ast.Compare) and len(t.ops) == 1 and isinstance(t.ops[0], ast.IsNot)
            and isinstance(t.comparators[0], ast.Constant) and t.comparators[0].value is None):
        return False
    if unparse(t.left) != unparse(e.body) or unparse(e.body) != "self._seed":
        return False
    o = e.orelse
    return isinstance(o, ast.Call) and unparse(o.func) == "CobaContext.store.get" and o.args and const_str(o.args[0]) == "experiment_seed"


def r2_seed_fallback(ctx):
    ctx.rule("C01.R2", "every SafeLearner(...)/CobaRandom(...) constructed in an evaluator's evaluate() is seeded with "
                       "'self._seed if self._seed is not None else CobaContext.store.get(\"experiment_seed\")' or forwards "
                       "self._seed to an evaluator for which that holds")
    n = 0
    ev_files = sorted(r for r in ctx.model.modules if r.startswith("coba/evaluators/") and not r.endswith("__init__.py"))
    good_forward = set()
    for rel in ev_files:
        for (r, qual), fn in sorted(ctx.model.functions.items()):
            if r != rel or not qual.endswith(".evaluate") or qual.count(".") != 1:
                continue
            ctx.touch(rel, qual)
            for c in walk_shallow(fn):
                if not isinstance(c, ast.Call):
                    continue
                if enclosing_function(c) is not fn:
                    continue
                nm = call_name(c)
                if nm == "SafeLearner":
                    n += 1
                    s = arg_or_kw(c, 1, "seed")
                    ctx.ob("C01.R2", rel, qual, c, "SafeLearner is seeded with own-seed-else-experiment-seed", s is not None and _is_seed_fallback(s, fn))
                elif nm == "CobaRandom":
                    n += 1
                    s = arg_or_kw(c, 0, "seed")
                    ctx.ob("C01.R2", rel, qual, c, "evaluator rng is seeded with own-seed-else-experiment-seed", s is not None and _is_seed_fallback(s, fn))
                elif nm in ("SequentialCB", "RejectionCB"):
                    n += 1
                    s = kw(c, "seed")
                    ok = s is not None and (unparse(s) == "self._seed" or (isinstance(s, ast.Name) and
                                            [unparse(v) for v in assigned_value(fn, s.id)] == ["self._seed"]))
                    ctx.ob("C01.R2", rel, qual, c, "inner evaluator receives this evaluator's seed (it applies the fall-back itself)", ok)
    ctx.floor("C01.R2", "seeded constructions in evaluators", n, 4)
    # SafeLearner really seeds its rng from the seed it is given
    init = ctx.fn("coba/safety.py", "SafeLearner.__init__")
    st = [x for x in walk_shallow(init) if isinstance(x, ast.Assign) and any(is_self_attr(t, "_rng") for t in x.targets)]
    ctx.ob("C01.R2", "coba/safety.py", "SafeLearner.__init__", st[0] if st else init, "SafeLearner._rng = CobaRandom(seed)",
           bool(st) and all(unparse(s.value) == "CobaRandom(seed)" for s in st), stmt="self._rng store")
    for qual in ("SequentialCB.__init__", "RejectionCB.__init__"):
        f = ctx.fn(SEQ, qual)
        st = [x for x in walk_shallow(f) if isinstance(x, ast.Assign) and any(is_self_attr(t, "_seed") for t in x.targets)]
        ctx.ob("C01.R2", SEQ, qual, st[0] if st else f, "self._seed is the constructor's seed",
               bool(st) and all(unparse(s.value) == "seed" for s in st), stmt="self._seed store")


# ------------------------------------------------------------------------------------------ R3
def r3_ids(ctx):
    ctx.rule("C01.R3", "MakeTasks.read numbers environments/learners/evaluators densely by first appearance "
                       "(m[k] = len(m) guarded by 'k not in m'); Task objects are built only there and the id "
                       "attributes are stored only in Task.__init__")
    fn = ctx.fn(PROC, "MakeTasks.read")
    maps = [t.id for s in fn.body if isinstance(s, ast.Assign) and isinstance(s.value, ast.Dict) and not s.value.keys
            for t in s.targets if isinstance(t, ast.Name)]
    stores = []
    for x in walk_shallow(fn):
        if isinstance(x, ast.Assign):
            for t in x.targets:
                if isinstance(t, ast.Subscript) and isinstance(t.value, ast.Name) and t.value.id in maps:
                    stores.append((x, t))
        if isinstance(x, ast.Call) and call_tail(x) == "setdefault" and isinstance(x.func, ast.Attribute) \
                and isinstance(x.func.value, ast.Name) and x.func.value.id in maps:
            m = x.func.value.id
            ok = len(x.args) == 2 and unparse(x.args[1]) == f"len({m})"
            stores.append((x, None))
            ctx.ob("C01.R3", PROC, "MakeTasks.read", x, "id is len(map) at first appearance (setdefault idiom)", ok)
    ctx.floor("C01.R3", "id-map stores in MakeTasks.read", len(stores), 3)
    id_of_key = {}
    for st, t in stores:
        if t is None:
            continue
        m, key = t.value.id, unparse(t.slice)
        val = st.value
        ok_val = unparse(val) == f"len({m})"
        tmp = None
        if isinstance(val, ast.Name):
            # temporary bound to len(m) immediately before with no mutation of m in between
            body = _containing_body(st)
            i = body.index(st)
            prev = body[i - 1] if i > 0 else None
            if isinstance(prev, ast.Assign) and len(prev.targets) == 1 and isinstance(prev.targets[0], ast.Name) \
                    and prev.targets[0].id == val.id and unparse(prev.value) == f"len({m})":
                ok_val = True
                tmp = val.id
        guard_ok = any(isinstance(tst, ast.Compare) and len(tst.ops) == 1 and isinstance(tst.ops[0], ast.NotIn) and pol
                       and unparse(tst.left) == key and unparse(tst.comparators[0]) == m for tst, pol in guards_of(st, fn))
        id_of_key[(m, key)] = tmp
        ctx.ob("C01.R3", PROC, "MakeTasks.read", st, "id stored for a new key is len(map) and the store is guarded by 'key not in map'",
               ok_val and guard_ok, detail={"value_is_len": ok_val, "guarded": guard_ok})
    # the three key variables are exactly the loop's (env, lrn, val) targets
    loops = [s for s in fn.body if isinstance(s, ast.For) and unparse(s.iter) == "self._triples"]
    ctx.ob("C01.R3", PROC, "MakeTasks.read", loops[0] if loops else fn, "ids are assigned while iterating self._triples in the given order",
           len(loops) == 1, stmt="for ... in self._triples")
    # ids in Tasks come from the maps
    for y in c02.task_yields(fn):
        for slot, idexpr in c02._task_ids(y.value):
            if idexpr is None:
                continue
            ok = False
            if isinstance(idexpr, ast.Name):
                nm = idexpr.id
                if nm in [v for v in id_of_key.values() if v]:
                    ok = True
                else:
                    for v in _all_bindings(fn, nm):
                        if isinstance(v, ast.Subscript) and isinstance(v.value, ast.Name) and v.value.id in maps:
                            ok = True
            elif isinstance(idexpr, ast.Subscript) and isinstance(idexpr.value, ast.Name) and idexpr.value.id in maps:
                ok = True
            ctx.ob("C01.R3", PROC, "MakeTasks.read", y, f"{slot} id of the task is looked up in / taken from its id map", ok,
                   stmt=f"{slot}-id of " + unparse(y.value))
    # who may construct Task / write the id attributes
    n_task = 0
    for rel, qual, f in ctx.model.all_functions():
        for x in walk_shallow(f):
            if isinstance(x, ast.Call) and call_name(x) == "Task" and enclosing_function(x) is f:
                res = ctx.model.resolve_in(ctx.model.module(rel), x.func)
                if res != (PROC, "Task"):
                    continue
                n_task += 1
                ctx.call_sites += 1
                ctx.ob("C01.R3", rel, qual, x, "Task objects are constructed only in MakeTasks.read", (rel, qual) == (PROC, "MakeTasks.read"))
            if isinstance(x, (ast.Assign, ast.AugAssign)):
                for t in (x.targets if isinstance(x, ast.Assign) else [x.target]):
                    for tt in ast.walk(t):
                        if isinstance(tt, ast.Attribute) and tt.attr in ("env_id", "lrn_id", "val_id") and isinstance(tt.ctx, ast.Store):
                            ctx.ob("C01.R3", rel, qual, x, "task ids are written only in Task.__init__", (rel, qual) == (PROC, "Task.__init__"))
    ctx.floor("C01.R3", "Task(...) constructions in the package", n_task, 4)


def _containing_body(st):
    p = parent(st)
    for field in ("body", "orelse", "finalbody"):
        b = getattr(p, field, None)
        if isinstance(b, list) and st in b:
            return b
    return [st]


def _all_bindings(fn, name):
    out = []
    for n in walk_shallow(fn):
        if isinstance(n, ast.Assign) and len(n.targets) == 1:
            t = n.targets[0]
            if isinstance(t, ast.Name) and t.id == name:
                out.append(n.value)
            elif isinstance(t, ast.Tuple) and isinstance(n.value, ast.Tuple) and len(t.elts) == len(n.value.elts):
                for a, v in zip(t.elts, n.value.elts):
                    if isinstance(a, ast.Name) and a.id == name:
                        out.append(v)
    return out


# ------------------------------------------------------------------------------------------ R4
def r4_chunking(ctx):
    ctx.rule("C01.R4", "ChunkTasks partitions the tasks: complementary predicates, every bucket yielded, "
                       "_max_chunker drains one shared iterator until it is empty")
    fn = ctx.fn(PROC, "ChunkTasks._chunks")
    comps = []
    for s in fn.body:
        if isinstance(s, ast.Assign) and isinstance(s.value, ast.ListComp) and len(s.value.generators) == 1 \
                and unparse(s.value.generators[0].iter) == "items" and isinstance(s.targets[0], ast.Name):
            comps.append((s.targets[0].id, s.value, s))
    ctx.floor("C01.R4", "partitioning comprehensions over items", len(comps), 2)
    if len(comps) == 2:
        (n1, c1, s1), (n2, c2, s2) = comps
        p1 = [unparse(i) for i in c1.generators[0].ifs]
        p2 = [unparse(i) for i in c2.generators[0].ifs]
        compl = len(p1) == 1 and len(p2) == 1 and (p1[0] == "not " + p2[0] or p2[0] == "not " + p1[0])
        same_elt = unparse(c1.elt) == unparse(c1.generators[0].target) and unparse(c2.elt) == unparse(c2.generators[0].target)
        ctx.ob("C01.R4", PROC, "ChunkTasks._chunks", s1, "the two task lists partition items (complementary predicates, identity elements)",
               compl and same_elt, detail={"predicates": [p1, p2]})
    else:
        ctx.ob("C01.R4", PROC, "ChunkTasks._chunks", fn, "exactly two partitioning comprehensions", False, stmt="partition")
    from ..util import name_bound
    CH = name_bound(fn, lambda v: isinstance(v, ast.Call) and call_name(v) in ("defaultdict", "collections.defaultdict"), "chunks")
    names = [n for n, _, _ in comps]
    for nm in names:
        loops = [s for s in fn.body if isinstance(s, ast.For) and unparse(s.iter) == nm]
        ok = False
        for lp in loops:
            tgt = unparse(lp.target)
            for x in walk_shallow(lp):
                if isinstance(x, ast.Yield) and x.value is not None and unparse(x.value) == f"[{tgt}]" and not guards_of(x, lp):
                    ok = True
                if isinstance(x, ast.Call) and call_tail(x) == "append" and x.args and unparse(x.args[0]) == tgt \
                        and isinstance(x.func.value, ast.Subscript) and unparse(x.func.value.value) == CH and not guards_of(x, lp):
                    ok = True
        ctx.ob("C01.R4", PROC, "ChunkTasks._chunks", loops[0] if loops else fn, f"every task in {nm} is yielded or put in exactly one bucket", ok and len(loops) == 1,
               stmt=f"consume {nm}")
    # buckets: 'not_chunked' popped & yielded singly; remaining buckets all yielded via _max_chunker
    pops = [s for s in fn.body if isinstance(s, ast.For) and f"{CH}.pop('not_chunked'" in unparse(s.iter)]
    ok = bool(pops) and any(isinstance(x, ast.Yield) and x.value is not None and unparse(x.value) == f"[{unparse(pops[0].target)}]" for x in walk_shallow(pops[0]))
    ctx.ob("C01.R4", PROC, "ChunkTasks._chunks", pops[0] if pops else fn, "un-chunked tasks are each yielded", ok, stmt="not_chunked bucket")
    vals = [s for s in fn.body if isinstance(s, ast.For) and f"{CH}.values()" in unparse(s.iter)]
    ok = False
    for lp in vals:
        tgt = unparse(lp.target)
        for x in walk_shallow(lp):
            if isinstance(x, ast.YieldFrom) and isinstance(x.value, ast.Call) and call_tail(x.value) == "_max_chunker" and x.value.args:
                a0 = x.value.args[0]
                if unparse(a0) == tgt or (isinstance(a0, ast.Call) and call_name(a0) == "sorted" and unparse(a0.args[0]) == tgt):
                    ok = not guards_of(x, lp)
        so = isinstance(lp.iter, ast.Call) and call_name(lp.iter) == "sorted"
        ctx.ob("C01.R4", PROC, "ChunkTasks._chunks", lp, "chunks are emitted in sorted (configuration-independent) order", so, stmt="sorted chunks")
    ctx.ob("C01.R4", PROC, "ChunkTasks._chunks", vals[0] if vals else fn, "every chunk bucket is passed whole to _max_chunker", ok, stmt="chunk buckets")
    order_ok = pops and vals and pops[0].lineno < vals[0].lineno
    ctx.ob("C01.R4", PROC, "ChunkTasks._chunks", fn, "'not_chunked' is removed before the remaining buckets are iterated", bool(order_ok), stmt="pop-before-values", trivial=True)
    mc = ctx.fn(PROC, "ChunkTasks._max_chunker")
    its = [s for s in mc.body if isinstance(s, ast.Assign) and unparse(s.value) == "iter(chunk)"]
    BT = name_bound(mc, lambda v: unparse(v) == "list(islice(chunk, max_tasks))", "batch")
    bs = [x for x in walk_shallow(mc) if isinstance(x, ast.Assign) and unparse(x.targets[0]) == BT]
    ok_b = len(bs) >= 2 and all(unparse(b.value) == "list(islice(chunk, max_tasks))" for b in bs)
    wl = [s for s in mc.body if isinstance(s, ast.While)]
    ok_w = len(wl) == 1 and unparse(wl[0].test) in (f"{BT} != []", BT) and any(
        isinstance(x, ast.Yield) and x.value is not None and unparse(x.value) == BT for x in walk_shallow(wl[0])) \
        and isinstance(wl[0].body[-1], ast.Assign) and unparse(wl[0].body[-1].targets[0]) == BT
    ctx.ob("C01.R4", PROC, "ChunkTasks._max_chunker", mc, "one shared iterator is drained in islice batches until empty",
           bool(its) and ok_b and ok_w and not any(isinstance(x, (ast.Break, ast.Return)) for x in walk_shallow(mc)),
           detail={"iter": bool(its), "batches": ok_b, "loop": ok_w}, stmt="_max_chunker")
    flt = ctx.fn(PROC, "ChunkTasks.filter")
    ctx.ob("C01.R4", PROC, "ChunkTasks.filter", flt, "filter returns _chunks(items)", any(
        isinstance(x, ast.Return) and x.value is not None and unparse(x.value) == "self._chunks(items)" for x in walk_shallow(flt)), stmt="filter->_chunks")


# ------------------------------------------------------------------------------------------ R5
ORDER_FREE = {"any", "all", "sum", "len", "set", "frozenset", "max", "min", "sorted", "dict", "Counter"}


def _order_free_context(node):
    """node is (transitively) an argument of an order-insensitive aggregate."""
    for a in ancestors(node):
        if isinstance(a, ast.Call) and call_name(a) in ORDER_FREE:
            return True
        if isinstance(a, ast.stmt):
            return False
    return False


def r5_sorted_rebuild(ctx):
    ctx.rule("C01.R5", "TransactionResult.filter iterates the accumulated env/lrn/val/int row dictionaries only through "
                       "sorted(...) (or inside order-insensitive aggregates); interaction records are keyed by the id triple")
    fn = ctx.fn(RES, "TransactionResult.filter")
    from ..util import bound_names
    accs = set(bound_names(fn, lambda v: (isinstance(v, ast.Call) and call_name(v) in ("collections.defaultdict", "defaultdict")) or (isinstance(v, ast.Dict) and not v.keys)))
    loops_t = [x for x in fn.body if isinstance(x, ast.For) and isinstance(x.iter, ast.Name) and x.iter.id == "transactions"]
    TRX = unparse(loops_t[0].target) if loops_t else "trx"
    n = 0
    for x in walk_shallow(fn):
        iters = []
        if isinstance(x, ast.For):
            iters.append(x.iter)
        if isinstance(x, (ast.ListComp, ast.GeneratorExp, ast.DictComp, ast.SetComp)):
            iters += [g.iter for g in x.generators]
        for it in iters:
            names = {nm.id for nm in ast.walk(it) if isinstance(nm, ast.Name)}
            if not (names & accs):
                continue
            n += 1
            is_sorted = isinstance(it, ast.Call) and call_name(it) == "sorted"
            natural = is_sorted and not it.keywords and len(it.args) == 1 and isinstance(it.args[0], ast.Call) and call_tail(it.args[0]) in ("items", "keys")
            ok = natural or _order_free_context(it) or isinstance(x, ast.SetComp)
            ctx.ob("C01.R5", RES, "TransactionResult.filter", it, "accumulated rows are traversed in the natural order of their complete ids (sorted(acc.items()), no partial key)", ok,
                   detail=None if ok else {"sorted": is_sorted, "note": "a key= that looks at part of the id leaves ties in arrival order"})
    ctx.floor("C01.R5", "iterations over accumulated rows", n, 4)
    st = [x for x in walk_shallow(fn) if isinstance(x, ast.Assign) and isinstance(x.targets[0], ast.Subscript)
          and unparse(x.targets[0].value) in accs and unparse(x.value) == f"{TRX}[2]"]
    ok = bool(st) and all(unparse(s.targets[0].slice) == f"tuple({TRX}[1])" for s in st)
    ctx.ob("C01.R5", RES, "TransactionResult.filter", st[0] if st else fn, "interaction records are stored under their id triple (duplicates fold)", ok,
           stmt="interaction rows stored under tuple(ids)")


# ------------------------------------------------------------------------------------------ R6
R6_QUICK = [EXP, PROC, CMP, "coba/pipes/multiprocessing.py", "coba/safety.py", SEQ, RES]
TIME_FUNCS = {"time.time", "time.perf_counter", "time.monotonic", "time.time_ns", "time.process_time"}
BAD_FUNCS = {"id", "hash", "os.getpid", "getpid", "uuid.uuid4", "uuid.uuid1", "uuid4", "uuid1", "os.urandom",
             "random.random", "random.randint", "random.shuffle", "random.choice", "random.seed", "random.sample"}


def r6_process_dependent(ctx):
    ctx.rule("C01.R6", "time/hash/id/pid/uuid/stdlib-random/unseeded CobaRandom calls in the experiment path are either "
                       "timing values that flow only into '*_time' fields, or are guarded by an 'is None' seed test")
    files = list(R6_QUICK)
    if ctx.thorough:
        files = sorted(r for r in ctx.model.modules if not r.startswith("coba/context/loggers")
                       and not r.endswith("__init__.py"))
    n = 0
    for rel in files:
        mod = ctx.model.module(rel)
        for (r, qual), fn in sorted(ctx.model.functions.items()):
            if r != rel:
                continue
            if rel == RES and not qual.startswith("Transaction"):
                continue  # only the log encode/decode/rebuild classes are on the experiment path; the rest is analysis/plotting
            for c in walk_shallow(fn):
                if not isinstance(c, ast.Call) or enclosing_function(c) not in (fn,) and not isinstance(enclosing_function(c), ast.Lambda):
                    continue
                nm = call_name(c)
                if nm is None:
                    continue
                if nm in TIME_FUNCS:
                    n += 1
                    ctx.call_sites += 1
                    ok, why = _time_only(c, fn)
                    ctx.ob("C01.R6", rel, qual, c, "clock value flows only into timing fields", ok, detail=why,
                           stmt=unparse(enclosing_stmt(c)))
                elif nm in BAD_FUNCS:
                    if nm in ("id", "hash") and (qual.endswith("__hash__") or qual.endswith("__eq__") or qual.endswith("__reduce__")):
                        continue
                    if nm.startswith("random.") and mod.imports.get("random", "").startswith("coba"):
                        continue
                    n += 1
                    ctx.call_sites += 1
                    ok = nm == "hash" and _hash_for_lookup_only(c)
                    ctx.ob("C01.R6", rel, qual, c, f"process-dependent source {nm}() does not reach a recorded value", ok,
                           stmt=unparse(enclosing_stmt(c)))
                elif nm == "CobaRandom" and not c.args and not c.keywords:
                    n += 1
                    ctx.call_sites += 1
                    ok = _under_none_seed_test(c, fn)
                    ctx.ob("C01.R6", rel, qual, c, "unseeded CobaRandom() only on the explicit seed-is-None branch", ok,
                           stmt=unparse(enclosing_stmt(c)))
    ctx.floor("C01.R6", "process-dependent call sites examined", n, 4)


def _under_none_seed_test(c, fn):
    for a in ancestors(c):
        if isinstance(a, ast.IfExp) and "is not None" in unparse(a.test) and c in list(ast.walk(a.orelse)):
            return True
        if isinstance(a, ast.IfExp) and "is None" in unparse(a.test) and "is not None" not in unparse(a.test) and c in list(ast.walk(a.body)):
            return True
        if a is fn:
            break
    st = enclosing_stmt(c)
    return any(("is None" in unparse(t) and "is not None" not in unparse(t) and pol) or ("is not None" in unparse(t) and not pol)
               for t, pol in guards_of(st, fn))


def _hash_for_lookup_only(c):
    p = parent(c)
    return isinstance(p, ast.Subscript) and p.slice is c


def _time_only(c, fn):
    """taint: names derived from the clock may only feed other clock arithmetic or '*_time' stores / logger text."""
    st = enclosing_stmt(c)
    p = parent(c)
    if isinstance(p, ast.BoolOp) and isinstance(p.op, ast.Or) and p.values[-1] is c and all(isinstance(v, ast.Name) and "seed" in v.id for v in p.values[:-1]):
        return True, {"idiom": "<seed> or time.time(): clock used only when no seed is given (time-seeding is by design, C05.R2 decides the guard)"}
    if _under_none_seed_test(c, fn):
        return True, {"idiom": "clock used only on the seed-is-None branch"}
    tainted = set()
    if isinstance(st, ast.Assign) and all(isinstance(t, ast.Name) for t in st.targets):
        tainted |= {t.id for t in st.targets}
    elif isinstance(st, ast.Assign) and all(isinstance(t, ast.Subscript) for t in st.targets):
        ok = all(isinstance(t.slice, ast.Constant) and isinstance(t.slice.value, str) and t.slice.value.endswith("time") for t in st.targets)
        return ok, {"stored_to": [unparse(t) for t in st.targets]}
    elif isinstance(st, ast.Assign) and all(is_self_attr(t) or isinstance(t, ast.Attribute) for t in st.targets):
        # object attribute (e.g. logger/timer state): only acceptable for attribute names mentioning time/start
        ok = all(any(w in t.attr.lower() for w in ("time", "start", "stamp")) for t in st.targets)
        return ok, {"stored_to": [unparse(t) for t in st.targets]}
    else:
        # direct use inside an expression statement / call argument
        txt = unparse(st)
        ok = "logger" in txt or "_time" in txt or "time" in txt.split("(")[0]
        return ok, {"used_in": txt[:120]}
    changed = True
    while changed:
        changed = False
        for x in walk_shallow(fn):
            if isinstance(x, ast.Assign) and all(isinstance(t, ast.Name) for t in x.targets):
                if {n.id for n in ast.walk(x.value) if isinstance(n, ast.Name)} & tainted:
                    new = {t.id for t in x.targets} - tainted
                    if new:
                        tainted |= new
                        changed = True
    bad = []
    for x in walk_shallow(fn):
        if isinstance(x, ast.Name) and isinstance(x.ctx, ast.Load) and x.id in tainted:
            s = enclosing_stmt(x)
            if isinstance(s, ast.Assign) and all(isinstance(t, ast.Name) and t.id in tainted for t in s.targets):
                continue
            if isinstance(s, ast.Assign) and all(isinstance(t, ast.Subscript) and isinstance(t.slice, ast.Constant)
                                                 and isinstance(t.slice.value, str) and t.slice.value.endswith("time") for t in s.targets):
                continue
            if isinstance(s, ast.If) and any(isinstance(s2, ast.Assign) for s2 in s.body):
                # `if out_time: out['predict_time'] = pred_time` is unparsed as the If head only when x in test
                if x in list(ast.walk(s.test)):
                    bad.append(unparse(s.test))
                continue
            if isinstance(s, (ast.AugAssign,)) and isinstance(s.target, (ast.Attribute, ast.Subscript)) and "time" in unparse(s.target).lower():
                continue
            if "logger" in unparse(s) or "log(" in unparse(s):
                continue
            bad.append(unparse(s)[:100])
    return not bad, {"clock_names": sorted(tainted), "other_uses": bad}


# ------------------------------------------------------------------------------------------ R7
R7_FUNCS = [(PROC, "MakeTasks.read"), (PROC, "ChunkTasks._chunks"), (PROC, "ProcessTasks.filter"),
            (RES, "TransactionEncode.filter"), (RES, "TransactionResult.filter"), (EXP, "Experiment.run"), (EXP, "Experiment._parse_init_args"), (EXP, "Experiment.__init__")]
SET_METHODS = {"union", "intersection", "difference", "symmetric_difference"}


def _is_set_expr(e, fn, depth=0):
    if isinstance(e, (ast.Set, ast.SetComp)):
        return True
    if isinstance(e, ast.Call):
        nm = call_name(e)
        if nm in ("set", "frozenset"):
            return True
        if isinstance(e.func, ast.Attribute) and e.func.attr in SET_METHODS:
            return _is_set_expr(e.func.value, fn, depth) or True
        if isinstance(e.func, ast.Attribute) and e.func.attr == "keys":
            return False  # dict views keep insertion order
    if isinstance(e, ast.BinOp) and isinstance(e.op, (ast.Sub, ast.BitAnd, ast.BitOr, ast.BitXor)):
        def setish(x):
            return _is_set_expr(x, fn, depth) or (isinstance(x, ast.Call) and isinstance(x.func, ast.Attribute) and x.func.attr in ("keys", "items"))
        return setish(e.left) or setish(e.right)
    if isinstance(e, ast.Name) and depth < 2:
        vals = assigned_value(fn, e.id)
        return bool(vals) and all(_is_set_expr(v, fn, depth + 1) for v in vals)
    return False


def _encode_sorts_keys(ctx):
    fn = ctx.fn(RES, "TransactionEncode.filter")
    from ..util import name_bound
    K = name_bound(fn, lambda v: isinstance(v, ast.Call) and call_name(v) == "sorted" and ".keys()" in unparse(v), "keys")
    vals = assigned_value(fn, K)
    return bool(vals) and all(isinstance(v, ast.Call) and call_name(v) == "sorted" for v in vals) and any(
        isinstance(x, ast.For) and unparse(x.iter) == K for x in walk_shallow(fn))


def r7_hash_order(ctx, rule="C01.R7"):
    ctx.rule(rule, "no set-typed expression is iterated into ordered output (for / comprehension / list / tuple / zip / "
                       "enumerate / next(iter)) without sorted(): spawned workers have independent string-hash seeds")
    funcs = list(R7_FUNCS)
    if ctx.thorough:
        funcs += [(SEQ, "SequentialCB._results"), (SEQ, "RejectionCB.evaluate"), (RES, "TransactionDecode.filter")]
    # learners run inside the evaluation of a triple: a hash-ordered feature / term list makes a learner's rows depend on the worker's string-hash seed
    from ..model import qualname as _qn
    for rel_, mod_ in sorted(ctx.model.modules.items()):
        if rel_.startswith("coba/learners/"):
            for f_ in ast.walk(mod_.tree):
                if isinstance(f_, ast.FunctionDef) and isinstance(getattr(f_, "_parent", None) or ast.Module, type) is False:
                    q_ = _qn(f_)
                    if ctx.model.has_func(rel_, q_) and (rel_, q_) not in funcs:
                        funcs.append((rel_, q_))
    n = 0
    for rel, qual in funcs:
        fn = ctx.fn(rel, qual)
        for x in walk_shallow(fn):
            sites = []
            if isinstance(x, ast.For):
                sites.append((x.iter, "for"))
            if isinstance(x, (ast.ListComp, ast.GeneratorExp, ast.DictComp)):
                sites += [(g.iter, "comprehension") for g in x.generators]
            if isinstance(x, ast.Call) and call_name(x) in ("list", "tuple", "zip", "enumerate", "iter", "next", "map", "sorted") and x.args:
                sites += [(a.value if isinstance(a, ast.Starred) else a, call_name(x)) for a in x.args]
            if isinstance(x, ast.Starred):
                sites.append((x.value, "star"))
            for e, how in sites:
                if not _is_set_expr(e, fn):
                    continue
                n += 1
                ok = _order_free_context(e)
                detail = None
                if not ok and isinstance(x, ast.DictComp):
                    # key order of a row dict: normalised by TransactionEncode (sorted keys) -- itself an R7 obligation
                    ok = _encode_sorts_keys(ctx)
                    detail = {"note": "dict key order only; TransactionEncode sorts row keys"}
                ctx.ob(rule, rel, qual, e, f"set iterated via {how} only under sorted()/an order-insensitive aggregate", ok,
                       stmt=f"{how}:{unparse(e)}", detail=detail)
    ctx.floor(rule, "set-typed iteration sites", n, 1)


def r9_generators_travel_with_their_position(ctx, rule="C01.R9"):
    """a component that reaches a worker is a pickled copy: a CobaRandom it holds must arrive at the position it had (a component used by one triple is NOT copied
    in-process, so there it simply continues)."""
    ctx.rule(rule, "pickling / deep-copying a CobaRandom preserves its stream position: __reduce__ (or __getstate__) carries more than the seed -- otherwise a deterministic user "
                   "component that drew from its generator before the run continues in-process but restarts its stream on a worker")
    RNDF = "coba/random.py"
    c = ctx.model.cls(RNDF, "CobaRandom")
    red = c.methods.get("__reduce__")
    gs = c.methods.get("__getstate__")
    carries = False
    node = red or gs or c.node
    if red is not None:
        for r in [r for r in walk_shallow(red) if isinstance(r, ast.Return) and isinstance(r.value, ast.Tuple)]:
            t = r.value
            carries = len(t.elts) >= 3 or (len(t.elts) == 2 and isinstance(t.elts[1], ast.Tuple) and len(t.elts[1].elts) >= 2)
    elif gs is not None:
        carries = True
    else:
        carries = False   # default pickling fails on the generator objects
    ctx.ob(rule, RNDF, "CobaRandom.__reduce__", node, "the pickled form of a generator includes its position in the stream, not only its seed", carries, stmt="CobaRandom pickled with its position")


def r8_shared_objects(ctx):
    """An in-process run shares one learner / environment object between tasks while worker processes get pickled copies,
    and a worker line handles whole chunks: anything that lets state flow between tasks through a shared object, or that
    counts something other than chunks, makes the result depend on the execution configuration."""
    from . import c03, c04, c08
    ctx.rule("C01.R8", "state cannot flow between tasks through shared objects: learners occurring in several triples are deep-copied (C03.R1/R2), "
                       "no environment filter keeps cross-read state (C04.R2: ProcessTasks peeks and abandons reads) or trains a learner it holds "
                       "(C04.R7), process-global scratch state is cleared at the start of every evaluation (C03.R5), the per-child limit counts "
                       "input chunks before the filter (C08.R5)")
    sub = type(ctx)(ctx.model, ctx.prop, ctx.tier, silent=True)
    c03.r1_copy_reaches_evaluate(sub)
    c03.r2_copy_flag(sub)
    c04.r2_cross_read_state(sub, c04.family(sub))
    c04.r7_held_learners(sub, c04.family(sub), rule="C01.R8")   # a filter that trains the object it holds behaves differently on a re-read (in-process) than on a fresh pickle (worker)
    c03.r5_shared_state(sub)                                     # process-global scratch state (learning_info) is cleared at the start of every evaluation
    c08.ROLES = c08.Roles(sub.fn(c08.PMP, "Multiprocessor.filter"))
    c08.r5_limit(sub, sub.fn(c08.PMP, "Multiprocessor.filter"))
    from . import c02
    c02.chunker_partitions(sub, "C01.R8")   # maxtasksperchunk only re-groups the tasks
    c03.r13_evaluators_hold_no_generator(sub)   # an evaluator object shared by several triples in one process but pickled afresh per chunk for workers
    c03.r12_copy_flag_owner(sub)
    # ProcessTasks peeks at a cached environment and drops the read: in-process the next task replays the SAME Cache object (a truncated-but-complete buffer),
    # a worker gets a freshly pickled one
    c04.r6_replay_buffer(sub, rule="C01.R8")
    for o in sub.obs:
        o.rule = "C01.R8"
        ctx.obs.append(o)
    ctx.files |= sub.files
    ctx.functions |= sub.functions
    ctx.floor("C01.R8", "shared-object obligations", len(sub.obs), 15)


def _cache_finally(tree):
    """Cache.filter drops the saved iterator in a finally around the drain loop (which also runs when the read is abandoned)."""
    from ..mutate import find_def
    fn = find_def(tree, "Cache.filter")
    loops = [i for i, st in enumerate(fn.body) if isinstance(st, ast.While)]
    if not loops:
        raise M.TargetMissing("drain loop of Cache.filter")
    i = loops[-1]
    tail = fn.body[i + 1:]
    fn.body[i:] = [ast.Try(body=[fn.body[i]], handlers=[], orelse=[], finalbody=tail or [ast.Pass()])]


CONTROLS = [
    ("the encoder remembers the columns of the first record of an evaluator", RES, M.insert_after("TransactionEncode.__init__", M.text_has("self._restored = restored"), "self._columns = {}"), "C01.R11"),
    ("duplicate triples removed through a set", EXP, M.insert_before("Experiment._parse_init_args", lambda st: isinstance(st, ast.Return) and "triples" in ast.unparse(st), "triples = list(set(map(tuple, triples)))"), "C01.R7"),
    ("Noise pickled without its seed", "coba/environments/filters.py", M.replace_stmt("Noise.__init__", M.text_has("self._args ="), "self._args = (context, action, reward)"), "C01.R10"),
    ("cache marked complete in a finally", "coba/pipes/filters.py", lambda tree: _cache_finally(tree), "C01.R8"),
    ("vw arguments in hash order", "coba/learners/vowpal.py", M.replace_expr("make_args", "sorted(ignore_linear)", "ignore_linear"), "C01.R7"),
    ("LinUCB terms in hash order", "coba/learners/linucb.py", M.replace_expr("LinUCBLearner._initialize", "list(dict.fromkeys(filter(None, [f.replace('x', '') if isinstance(f, str) else f for f in self._X])))",
        "list(set(filter(None, [f.replace('x', '') if isinstance(f, str) else f for f in self._X])))"), "C01.R7"),
    ("RejectionCB keeps its generator", SEQ, M.insert_after("RejectionCB.__init__", M.text_has("self._seed"), "self._rng = CobaRandom(seed)"), "C01.R8"),
    ("copy flag by (env,lrn) pairs", PROC, M.replace_expr("MakeTasks.read", "Counter([l for _, l, _ in self._triples])", "Counter([l for _, l in set(((e, l) for e, l, _ in self._triples))])"), "C01.R8"),
    ("delete seed before run", EXP, M.insert_before("Experiment.run", M.text_has("CobaContext.logger.log('Experiment Started')"),
                                                     "del CobaContext.store['experiment_seed']"), "C01.R1"),
    ("worker store without context store", CMP, M.replace_expr("CobaMultiprocessor.filter",
        "{'openml_semaphore': spawn_context.Semaphore(3), **CobaContext.store}", "{'openml_semaphore': spawn_context.Semaphore(3)}"), "C01.R1"),
    ("no seed fallback", SEQ, M.replace_expr("SequentialCB.evaluate", "SafeLearner(learner, seed)", "SafeLearner(learner, self._seed)"), "C01.R2"),
    ("ids by len+1", PROC, M.replace_expr("MakeTasks.read", "len(lrns)", "len(lrns) + 1"), "C01.R3"),
    ("non-complementary partition", PROC, M.replace_expr("ChunkTasks._chunks", "[t for t in items if t.env]", "[t for t in items if t.env and t.lrn]"), "C01.R4"),
    ("unsorted rebuild", RES, M.replace_expr("TransactionResult.filter", "sorted(int_rows.items())", "int_rows.items()"), "C01.R5"),
    ("pid into rows", SEQ, M.insert_after("SequentialCB._results", M.text_has("out = {}"), "out['pid'] = os.getpid()"), "C01.R6"),
    ("unsorted key set", RES, M.replace_expr("TransactionEncode.filter", "sorted(set().union(*[r.keys() for r in item[2]]), key=str)",
                                              "list(set().union(*[r.keys() for r in item[2]]))"), "C01.R7"),
]
