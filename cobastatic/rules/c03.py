"""C03 -- each evaluation is isolated (DESIGN.md 5/C03)."""
import ast
import itertools

from ..absint import FlagEval, TOP
from ..cfg import CFG, handler_admits, EXC
from ..dataflow import reaching_defs, PARAM
from ..model import walk_shallow, call_name, is_self_attr, dotted_name, ancestors
from ..util import (has_call, find_calls, assigned_value, const_str, unparse, kw, arg_or_kw, enclosing_stmt,
                    control_ancestors, guards_of, call_tail)
from .. import mutate as M
from . import c02

TECHNIQUE = 'static analysis: who-may-call/provenance rule (the learner reaching evaluate is a deepcopy when shared), CFG handler-write rule, module-level mutable-state scan, held-object rule (long-lived learners only used through deepcopy)'

EXPLANATION = ("Static rules over ProcessTasks/MakeTasks/Multiprocessor: under task.copy the only learner definition "
               "reaching evaluate() is deepcopy(task learner) (reaching definitions on the CFG specialised over the "
               "task-kind flags), the copy flag counts occurrences over ALL given triples, T4 payloads are materialised "
               "before the yield, the per-task try/except contains every failure, shared evaluation state "
               "(CobaContext.learning_info) is cleared per evaluation, and chunks cross the process boundary pickled.")
EXPLANATION += ' R7: learners held by environment filters reach evaluate/learn/predict only as deep copies.'
EXPLANATION += ' R11: learning_info cleared before every copy into a row (must-pass, every evaluator); R12: Task.copy written only by the constructor; R13: evaluators hold no generator.'
EXPLANATION += ' R8: no class-level mutable container on the evaluation path and stateless built-in evaluators; R9: __reduce__ passes every constructor parameter; R10: a failing source cannot leave a truncated replay buffer to the other triples.'

PROC = "coba/experiments/process.py"
PMP = "coba/pipes/multiprocessing.py"
SEQ = "coba/evaluators/sequential.py"
FLAGS = ("is_e", "is_l", "is_v")


def run(ctx):
    r1_copy_reaches_evaluate(ctx)
    r2_copy_flag(ctx)
    c02.r3_materialise(ctx, rule="C03.R3")
    r4_containment(ctx)
    r5_shared_state(ctx)
    r6_pickled(ctx)
    from . import c04
    c04.r7_held_learners(ctx, c04.family(ctx), rule="C03.R7")
    r8_stateless_wrappers(ctx)
    r9_pickle_covers_constructor(ctx)
    # a source that fails in one triple must not leave a truncated replay buffer for the triples that share the cached environment
    c04.r6_replay_buffer(ctx, rule="C03.R10")
    r11_learning_info(ctx)
    r12_copy_flag_owner(ctx)
    r13_evaluators_hold_no_generator(ctx)
    # an evaluation writes only into its own copies: an in-memory / materialised environment hands the SAME dicts to the next triple
    c04.r3_copy_before_mutate(ctx, rule="C03.R14", only={"SequentialCB", "SequentialIGL", "RejectionCB"})
    r15_unwritable_rows(ctx)
    # "every other triple still completes and is recorded ... in all execution configurations": a worker handles whole chunks -- the per-child limit counts the chunks it
    # takes in, not the outputs (one per task) it hands on; otherwise a child ends normally in the middle of a chunk and the rest of the chunk is dropped without any error
    from . import c08
    ctx.rule("C03.R16", "C08.R5 for the experiment pipeline: in the worker line the per-child limit sits between the unpickler and the filter (it counts input chunks), and CobaMultiprocessor stores the limit it was given")
    sub = type(ctx)(ctx.model, ctx.prop, ctx.tier, silent=True)
    c08.ROLES = c08.Roles(sub.fn(c08.PMP, "Multiprocessor.filter"))
    c08.r5_limit(sub, sub.fn(c08.PMP, "Multiprocessor.filter"))
    for o in sub.obs:
        o.rule = "C03.R16"
        ctx.obs.append(o)
    ctx.files |= sub.files
    ctx.functions |= sub.functions
    r17_no_bound_builtin_methods(ctx)
    ctx.rules["C03.R14"] = ("freshness analysis of the evaluators' read loops (incl. the reader SequentialIGL defines locally): an in-place mutation never targets an interaction "
                            "borrowed from the environment -- otherwise the next triple on a materialised environment sees the rewritten interactions")


def r15_unwritable_rows(ctx, rule="C03.R15"):
    """ProcessTasks contains what an evaluation raises; what it RETURNS is written by TransactionEncode in the main pipeline.  Rows that cannot be written (not mappings,
    a value json has no form for, e.g. a set in learning_info) must cost that triple only -- outside a handler the exception ends the pipeline and every later triple."""
    ctx.rule(rule, "TransactionEncode.filter builds the record of an evaluation (the T4 arm) inside `try ... except Exception` whose handler reports to the log and goes on to the "
                   "next item (no raise / return / break), and yields the record outside the handler")
    RES_ = "coba/results/core.py"
    enc = ctx.fn(RES_, "TransactionEncode.filter")
    arms = [x for x in ast.walk(enc) if isinstance(x, ast.If) and any(isinstance(k, ast.Constant) and k.value == "T4" for k in ast.walk(x.test))]
    ctx.floor(rule, "T4 arm in TransactionEncode.filter", len(arms), 1)
    for arm in arms[:1]:
        calls = [c for st in arm.body for c in ast.walk(st) if isinstance(c, ast.Call) and isinstance(c.func, ast.Name) and c.func.id != "str" and any(isinstance(a, (ast.List, ast.Tuple)) and a.elts and const_str(a.elts[0]) == "I" for a in c.args)]
        ctx.floor(rule, "record constructions in the T4 arm", len(calls), 1)
        for c in calls:
            tries = [t for t in ancestors(c) if isinstance(t, ast.Try) and any(c in list(ast.walk(b)) for b in t.body)]
            ok = False
            for t in tries:
                for h in t.handlers:
                    wide = h.type is not None and unparse(h.type) == "Exception"
                    logs = any(isinstance(k, ast.Call) and unparse(k.func) == "CobaContext.logger.log" for x in h.body for k in ast.walk(x))
                    leaves = any(isinstance(x, (ast.Raise, ast.Return, ast.Break)) for b_ in h.body for x in ast.walk(b_))
                    ok = ok or (wide and logs and not leaves)
            ctx.ob(rule, RES_, "TransactionEncode.filter", c, "the record of one evaluation is built inside a handler that reports the failure and goes on", ok)


def r17_no_bound_builtin_methods(ctx, rule="C03.R17"):
    """copy.deepcopy treats a bound method of a built-in container (`self._Q.__getitem__`, `self._seen.add`) as atomic: the deep copy of a learner that keeps one still
    reads / writes the ORIGINAL's container -- the copy learns into its own table and predicts from the user's object (pickle rebinds it, deepcopy does not)."""
    ctx.rule(rule, "no built-in learner keeps a bound method of one of its own containers in an attribute: in coba/learners no `self.<a> = self.<b>.<method>` "
                   "(an attribute of an attribute that is not called) with a container method name")
    METHODS = {"__getitem__", "__setitem__", "__contains__", "__delitem__", "get", "setdefault", "pop", "append", "extend", "add", "update", "keys", "values", "items", "index", "count", "remove", "discard", "insert"}
    n = 0
    for rel, mod in sorted(ctx.model.modules.items()):
        if not rel.startswith("coba/learners/"):
            continue
        for st in [x for x in ast.walk(mod.tree) if isinstance(x, ast.Assign) and any(is_self_attr(t) for t in x.targets)]:
            n += 1
            v = st.value
            bound = isinstance(v, ast.Attribute) and is_self_attr(v.value) and v.attr in METHODS
            if bound:
                from ..model import qualname
                ctx.ob(rule, rel, qualname(st), st, "a learner attribute is data or a python-level callable, never the bound method of one of its containers", False, detail={"stored": unparse(v)})
    ctx.floor(rule, "attribute stores in coba/learners", n, 20)


def evaluate_calls(fn):
    return [c for c in walk_shallow(fn) if isinstance(c, ast.Call) and call_tail(c) == "evaluate"]


# ------------------------------------------------------------------------------------------ R1
def r1_copy_reaches_evaluate(ctx):
    ctx.rule("C03.R1", "ProcessTasks.filter: for every task-kind configuration in which evaluate() is reachable with "
                       "task.copy set, the only definition of the learner argument reaching evaluate() is "
                       "deepcopy(<the task's learner>)")
    fn = ctx.fn(PROC, "ProcessTasks.filter")
    evs = evaluate_calls(fn)
    ctx.floor("C03.R1", ".evaluate( call sites in ProcessTasks.filter", len(evs), 1)
    # flags = locals bound once to `<id> is not None` (task-kind flags); they must be assigned exactly once for the
    # flow-insensitive specialisation to be sound
    from ..util import bound_names, name_bound
    cand = bound_names(fn, lambda v: isinstance(v, ast.Compare) and len(v.ops) == 1 and isinstance(v.ops[0], (ast.IsNot, ast.Is))
                       and isinstance(v.comparators[0], ast.Constant) and v.comparators[0].value is None)
    flag_defs = {f: assigned_value(fn, f) for f in cand}
    usable = [f for f in cand if len(flag_defs[f]) == 1]
    TASK = name_bound(fn, lambda v: isinstance(v, ast.Call) and call_tail(v) == "pop", "task")
    configs = list(itertools.product([True, False], repeat=len(usable)))
    n_reach = 0
    for cfgvals in configs:
        env = dict(zip(usable, cfgvals))
        env[f"{TASK}.copy"] = True
        fe = FlagEval(env)
        cfg = CFG(fn, test_eval=fe.test)
        ctx.configurations += 1
        reach = cfg.reachable()
        rd = None
        for ev in evs:
            st = enclosing_stmt(ev)
            nodes = [i for i in cfg.nodes_of(st) if i in reach]
            if not nodes:
                continue
            n_reach += 1
            if rd is None:
                rd = reaching_defs(cfg, params=[a.arg for a in fn.args.args])
            larg = arg_or_kw(ev, 1, "learner")
            for nid in nodes:
                ok, detail = _learner_is_copy(cfg, rd, nid, larg, fn, TASK)
                ctx.ob("C03.R1", PROC, "ProcessTasks.filter", ev,
                       "learner passed to evaluate() is a deep copy whenever task.copy is set", ok,
                       detail={"config": {**{k: v for k, v in env.items()}}, **detail},
                       stmt=unparse(ev) + " @" + ",".join(f"{k}={int(v)}" for k, v in sorted(env.items())))
    ctx.floor("C03.R1", "configurations in which evaluate() is reachable", n_reach, 1)


def _is_deepcopy(e):
    return isinstance(e, ast.Call) and call_name(e) in ("deepcopy", "copy.deepcopy") and len(e.args) == 1


def _task_learner_expr(e, cfg, rd, nid, depth=0, task="task"):
    """is expression `e` (evaluated at node nid) the task's learner (task.lrn), possibly via a local?"""
    if isinstance(e, ast.Attribute) and isinstance(e.value, ast.Name) and e.value.id == task and e.attr == "lrn":
        return True
    if isinstance(e, ast.Name) and depth < 3:
        defs = rd.get(nid, {}).get(e.id, frozenset())
        if not defs:
            return False
        for d in defs:
            if d == PARAM:
                return False
            a = cfg.nodes[d].ast
            v = _value_bound_to(a, e.id)
            if v is None or not _task_learner_expr(v, cfg, rd, d, depth + 1, task):
                return False
        return True
    return False


def _value_bound_to(stmt, name):
    """value expression bound to `name` by an Assign (supports parallel tuple assignment)."""
    if not isinstance(stmt, ast.Assign) or len(stmt.targets) != 1:
        return None
    t = stmt.targets[0]
    if isinstance(t, ast.Name) and t.id == name:
        return stmt.value
    if isinstance(t, ast.Tuple) and isinstance(stmt.value, ast.Tuple) and len(t.elts) == len(stmt.value.elts):
        for x, v in zip(t.elts, stmt.value.elts):
            if isinstance(x, ast.Name) and x.id == name:
                return v
    return None


def _learner_is_copy(cfg, rd, nid, larg, fn, task="task"):
    if larg is None:
        return False, {"why": "no learner argument"}
    if _is_deepcopy(larg):
        return _task_learner_expr(larg.args[0], cfg, rd, nid, 0, task), {"arg": unparse(larg)}
    if not isinstance(larg, ast.Name):
        return False, {"why": "learner argument is neither a local nor deepcopy(...)", "arg": unparse(larg)}
    defs = rd.get(nid, {}).get(larg.id, frozenset())
    bad = []
    for d in sorted(defs):
        if d == PARAM:
            bad.append("parameter")
            continue
        a = cfg.nodes[d].ast
        v = _value_bound_to(a, larg.id)
        if v is not None and _is_deepcopy(v) and _task_learner_expr(v.args[0], cfg, rd, d, 0, task):
            continue
        bad.append(f"line {cfg.nodes[d].line}: {unparse(a) if a is not None else '?'}")
    return (not bad and bool(defs)), {"non_copy_definitions_reaching_evaluate": bad}


# ------------------------------------------------------------------------------------------ R2
def r2_copy_flag(ctx):
    ctx.rule("C03.R2", "MakeTasks.read: copy= of a triple task is True or 'count of this learner over ALL self._triples > 1'")
    fn = ctx.fn(PROC, "MakeTasks.read")
    ys = [y for y in c02.task_yields(fn) if sum(1 for _, e in c02._task_ids(y.value) if e is not None) == 3]
    ctx.floor("C03.R2", "triple Task yields in MakeTasks.read", len(ys), 1)
    for y in ys:
        call = y.value
        cp = arg_or_kw(call, 3, "copy")
        lrn_arg = arg_or_kw(call, 1, "lrn")
        lrn_obj = lrn_arg.elts[1] if isinstance(lrn_arg, ast.Tuple) and len(lrn_arg.elts) >= 2 else None
        ok, why = False, ""
        if isinstance(cp, ast.Constant) and cp.value is True:
            ok = True
        elif isinstance(cp, ast.Compare) and len(cp.ops) == 1 and isinstance(cp.left, ast.Subscript) \
                and isinstance(cp.left.value, ast.Name):
            op, rhs = cp.ops[0], cp.comparators[0]
            thr_ok = isinstance(rhs, ast.Constant) and ((isinstance(op, ast.Gt) and rhs.value == 1) or
                                                        (isinstance(op, ast.GtE) and rhs.value == 2) or
                                                        (isinstance(op, ast.NotEq) and rhs.value == 1))
            key_ok = lrn_obj is not None and unparse(cp.left.slice) == unparse(lrn_obj)
            cnt_ok = _counter_over_all_triples(fn, cp.left.value.id)
            ok = thr_ok and key_ok and cnt_ok
            why = f"threshold_ok={thr_ok} key_is_learner={key_ok} counter_over_self._triples={cnt_ok}"
        else:
            why = "copy is missing/False or not a recognised count comparison"
        ctx.ob("C03.R2", PROC, "MakeTasks.read", y, "a learner object occurring in >= 2 of all given triples is marked copy", ok,
               detail={"copy": unparse(cp) if cp is not None else None, "why": why})
    init = ctx.fn(PROC, "Task.__init__")
    st = [n for n in walk_shallow(init) if isinstance(n, ast.Assign) and any(is_self_attr(t, "copy") for t in n.targets)]
    ctx.ob("C03.R2", PROC, "Task.__init__", st[0] if st else init, "Task stores the copy flag it was given",
           bool(st) and all(unparse(s.value) == "copy" for s in st), stmt="self.copy store")


def _counter_over_all_triples(fn, name):
    vals = assigned_value(fn, name)
    if len(vals) != 1:
        return False
    v = vals[0]
    if not (isinstance(v, ast.Call) and call_name(v) in ("Counter", "collections.Counter") and len(v.args) == 1):
        return False
    comp = v.args[0]
    if not isinstance(comp, (ast.ListComp, ast.GeneratorExp)) or len(comp.generators) != 1:
        return False
    g = comp.generators[0]
    if g.ifs or unparse(g.iter) != "self._triples":
        return False
    # element is the 2nd component of the unpacked triple
    if isinstance(g.target, ast.Tuple) and len(g.target.elts) == 3 and isinstance(comp.elt, ast.Name):
        t = g.target.elts[1]
        return isinstance(t, ast.Name) and t.id == comp.elt.id
    if isinstance(g.target, ast.Name) and isinstance(comp.elt, ast.Subscript):
        return unparse(comp.elt) == f"{g.target.id}[1]"
    return False


# ------------------------------------------------------------------------------------------ R4
def r4_containment(ctx):
    ctx.rule("C03.R4", "ProcessTasks.filter: every may-raise statement of the task loop lies in a try whose handler "
                       "catches Exception, only logs, and has no raise/break/return; the chunk list is only popped")
    fn = ctx.fn(PROC, "ProcessTasks.filter")
    loops = [n for n in walk_shallow(fn) if isinstance(n, ast.While)]
    ctx.floor("C03.R4", "task loop in ProcessTasks.filter", len(loops), 1)
    from ..cfg import may_raise
    for loop in loops:
        for st in loop.body:
            if isinstance(st, ast.Try):
                admits = [h for h in st.handlers if handler_admits(h, EXC) == "yes"]
                ok = bool(admits)
                ctx.ob("C03.R4", PROC, "ProcessTasks.filter", st, "per-task try has a handler for Exception", ok, stmt="try@task-loop:handler")
                for h in admits[:1]:
                    esc = [x for s in h.body for x in walk_shallow(s) if isinstance(x, (ast.Raise, ast.Break, ast.Return))]
                    ctx.ob("C03.R4", PROC, "ProcessTasks.filter", h, "handler neither re-raises nor leaves the task loop", not esc,
                           stmt="try@task-loop:handler-body")
                    # the handler may not change anything that decides whether / how OTHER tasks run
                    guard_names = set()
                    for t in walk_shallow(loop):
                        if isinstance(t, ast.If):
                            guard_names |= {x.id for x in ast.walk(t.test) if isinstance(x, ast.Name)}
                    guard_names |= {x.id for x in ast.walk(loop.test) if isinstance(x, ast.Name)}
                    writes = []
                    for st2 in h.body:
                        for x in walk_shallow(st2):
                            if isinstance(x, ast.Name) and isinstance(x.ctx, (ast.Store, ast.Del)) and x.id != (h.name or ""):
                                writes.append(x.id)
                            if isinstance(x, ast.Call) and isinstance(x.func, ast.Attribute) and isinstance(x.func.value, ast.Name) \
                                    and x.func.attr in ("add", "append", "extend", "update", "pop", "remove", "clear", "discard", "insert", "setdefault"):
                                writes.append(x.func.value.id)
                            if isinstance(x, (ast.Assign, ast.AugAssign)):
                                for tg in (x.targets if isinstance(x, ast.Assign) else [x.target]):
                                    b = tg
                                    while isinstance(b, (ast.Subscript, ast.Attribute)):
                                        b = b.value
                                    if isinstance(b, ast.Name) and not isinstance(tg, ast.Name):
                                        writes.append(b.id)
                    leak = sorted(set(writes) & guard_names)
                    ctx.ob("C03.R4", PROC, "ProcessTasks.filter", h, "a failure changes no state that decides whether or how other tasks are evaluated", not leak,
                           stmt="try@task-loop:handler-writes", detail=None if not leak else {"written_and_tested_by_task_guards": leak})
                    logs = any(has_call(s, "logger.log") for s in h.body)
                    ctx.ob("C03.R4", PROC, "ProcessTasks.filter", h, "handler reports the failure to the logger", logs,
                           stmt="try@task-loop:handler-logs")
                fin_esc = [x for s in st.finalbody for x in walk_shallow(s) if isinstance(x, (ast.Raise, ast.Break, ast.Return))]
                ctx.ob("C03.R4", PROC, "ProcessTasks.filter", st, "no finally clause leaves the task loop", not fin_esc,
                       stmt="try@task-loop:finally", trivial=True)
            else:
                ctx.ob("C03.R4", PROC, "ProcessTasks.filter", st, "statement of the task loop outside the try cannot raise",
                       not may_raise(st))
        # evaluate call must be inside that try
        for ev in evaluate_calls(loop):
            inside = any(isinstance(c, ast.Try) and b == "body" and any(handler_admits(h, EXC) == "yes" for h in c.handlers)
                         for c, b in control_ancestors(ev, loop))
            ctx.ob("C03.R4", PROC, "ProcessTasks.filter", ev, "evaluate() runs inside the per-task try", inside, stmt="evaluate-in-try")
    # writes to the shared chunk list
    CHUNK = unparse(loops[0].test) if loops and isinstance(loops[0].test, ast.Name) else "chunk"
    muts = []
    for n in walk_shallow(fn):
        if isinstance(n, ast.Call) and isinstance(n.func, ast.Attribute) and isinstance(n.func.value, ast.Name) \
                and n.func.value.id in ("chunk", CHUNK) and n.func.attr in ("pop", "append", "extend", "insert", "remove", "clear", "sort", "reverse"):
            muts.append(n)
    ctx.floor("C03.R4", "mutations of the chunk list", len(muts), 1)
    for m in muts:
        ctx.ob("C03.R4", PROC, "ProcessTasks.filter", m, "the task list is only consumed (pop), never re-filled or reordered in the loop",
               m.func.attr == "pop" and not m.args)
    # the loop ends only when the chunk is exhausted
    for loop in loops:
        ctx.ob("C03.R4", PROC, "ProcessTasks.filter", loop, "the loop runs until the task list is empty", unparse(loop.test) == CHUNK and any(m.func.attr == "pop" for m in muts),
               stmt="while-test")


# ------------------------------------------------------------------------------------------ R5
def r5_shared_state(ctx):
    ctx.rule("C03.R5", "evaluation code writes no module-/class-level state except CobaContext.learning_info, which "
                       "SequentialCB._results clears before its loop and after each use")
    files = [SEQ, "coba/safety.py", PROC]
    if ctx.thorough:
        files += sorted(r for r in ctx.model.modules if r.startswith("coba/evaluators/") or r.startswith("coba/learners/"))
    seen = set()
    n = 0
    for rel in files:
        if rel in seen:
            continue
        seen.add(rel)
        mod = ctx.model.module(rel)
        ctx.touch(rel)
        for (r, qual), f in sorted(ctx.model.functions.items()):
            if r != rel:
                continue
            for x in walk_shallow(f):
                bad = None
                if isinstance(x, ast.Global):
                    # import memo idiom: globals()[...] / global name bound to an imported module
                    bad = ("global statement", x)
                targets = []
                if isinstance(x, ast.Assign):
                    targets = x.targets
                elif isinstance(x, (ast.AugAssign, ast.AnnAssign)):
                    targets = [x.target]
                for t in targets:
                    base = t
                    while isinstance(base, (ast.Subscript, ast.Attribute)):
                        if isinstance(base, ast.Attribute) and isinstance(base.value, ast.Name) and base.value.id[:1].isupper() \
                                and ctx.model.resolve_in(mod, base.value) is not None:
                            res = ctx.model.resolve_in(mod, base.value)
                            if res in ctx.model.class_index or base.value.id == "CobaContext":
                                bad = (f"store into class-level state {unparse(t)}", x)
                            break
                        base = base.value
                if bad is None:
                    continue
                n += 1
                why, node = bad
                ok = False
                # idiom: memo of an imported module/class object, written once: value is __import__/module attr
                if isinstance(node, ast.Assign) and (has_call(node.value, "__import__") or has_call(node.value, "import_module")):
                    ok = True
                ctx.ob("C03.R5", rel, qual, node, f"no cross-evaluation channel ({why})", ok)
    ctx.note(f"C03.R5 examined {len(seen)} modules; {n} class/module-level writes found")
    fn = ctx.fn(SEQ, "SequentialCB._results")
    from ..util import name_bound
    INFO = name_bound(fn, lambda v: unparse(v) == "CobaContext.learning_info", "info")
    info_vals = assigned_value(fn, INFO)
    is_info = bool(info_vals) and all(unparse(v) == "CobaContext.learning_info" for v in info_vals)
    ctx.ob("C03.R5", SEQ, "SequentialCB._results", enclosing_stmt(info_vals[0]) if info_vals else fn,
           "the shared learning_info dict is bound once", is_info, stmt="info := CobaContext.learning_info")
    loops = [s for s in fn.body if isinstance(s, ast.For)]
    clears_before = [s for s in fn.body if isinstance(s, ast.Expr) and unparse(s.value) == f"{INFO}.clear()"
                     and loops and s.lineno < loops[-1].lineno]
    ctx.ob("C03.R5", SEQ, "SequentialCB._results", clears_before[0] if clears_before else fn,
           "learning_info is cleared before the interaction loop (nothing leaks in from an earlier evaluation)",
           bool(clears_before), stmt="info.clear() before loop")
    for loop in loops[-1:]:
        ups = [x for x in walk_shallow(loop) if isinstance(x, ast.Call) and call_tail(x) == "update" and x.args and unparse(x.args[0]) == INFO]
        for u in ups:
            st = enclosing_stmt(u)
            from ..model import parent
            body = None
            p = parent(st)
            for field in ("body", "orelse"):
                if st in (getattr(p, field, None) or []):
                    body = getattr(p, field)
            after = body[body.index(st) + 1:] if body else []
            ok = any(isinstance(s, ast.Expr) and unparse(s.value) == f"{INFO}.clear()" for s in after)
            ctx.ob("C03.R5", SEQ, "SequentialCB._results", u, "learning_info is cleared after it was copied into a row", ok)


# ------------------------------------------------------------------------------------------ R6
def r6_pickled(ctx, rule="C03.R6"):
    ctx.rule(rule, "Multiprocessor.filter: the loader line pickles items before the in-queue sink and the worker line "
                   "unpickles after the in-queue source (workers operate on their own copies)")
    fn = ctx.fn(PMP, "Multiprocessor.filter")
    from ..util import bound_names, name_bound
    lines = [v for nm in bound_names(fn, lambda v: isinstance(v, ast.Call) and call_name(v) == "SourceSink") for v in assigned_value(fn, nm)]
    load = [v for v in lines if v.args and isinstance(v.args[0], ast.Call) and call_name(v.args[0]) == "IterableSource"]
    work = [v for v in lines if v not in load]
    INQ = name_bound(fn, lambda v: isinstance(v, ast.Call) and call_tail(v) == "Queue" and v.keywords, "in_queue")
    ctx.floor(rule, "load_line/filter_line pipelines", len(load) + len(work), 2)

    def kinds(call):
        out = []
        for a in call.args:
            if isinstance(a, ast.Name):
                vs = assigned_value(fn, a.id)
                out.append((a.id, unparse(vs[0]) if vs else a.id))
            else:
                out.append((unparse(a), unparse(a)))
        return out

    for v in load:
        ks = kinds(v) if isinstance(v, ast.Call) else []
        idx_p = [i for i, (_, k) in enumerate(ks) if k.startswith("Pickler(")]
        idx_s = [i for i, (_, k) in enumerate(ks) if k.startswith(f"QueueSink({INQ}")]
        ok = bool(idx_p) and bool(idx_s) and idx_p[0] < idx_s[0] and idx_s[0] == len(ks) - 1
        ctx.ob(rule, PMP, "Multiprocessor.filter", v, "items are pickled before they enter the in-queue", ok,
               detail={"pipeline": [k for _, k in ks]}, stmt="load_line")
    for v in work:
        ks = kinds(v) if isinstance(v, ast.Call) else []
        idx_u = [i for i, (_, k) in enumerate(ks) if k.startswith("Unpickler(")]
        idx_q = [i for i, (_, k) in enumerate(ks) if k.startswith(f"QueueSource({INQ}")]
        idx_f = [i for i, (_, k) in enumerate(ks) if "self._filter" in k]
        ok = bool(idx_u) and bool(idx_q) and bool(idx_f) and idx_q[0] == 0 and idx_q[0] < idx_u[0] < idx_f[0]
        ctx.ob(rule, PMP, "Multiprocessor.filter", v, "workers unpickle their own copy before applying the filter", ok,
               detail={"pipeline": [k for _, k in ks]}, stmt="filter_line")
    for cname, fnname in (("Pickler", "dumps"), ("Unpickler", "loads")):
        f = ctx.fn(PMP, f"{cname}.filter")
        maps = [c for c in walk_shallow(f) if isinstance(c, ast.Call) and call_name(c) == "map"]
        ok = bool(maps) and all(c.args and (dotted_name(c.args[0]) or "").endswith("." + fnname) and unparse(c.args[1]) == "items"
                                for c in maps)
        ctx.ob(rule, PMP, f"{cname}.filter", f, f"{cname} maps {fnname} over every item", ok, stmt=f"{cname}.filter maps {fnname}")


_MUTABLE_CALLS = ("dict", "list", "set", "defaultdict", "OrderedDict", "Counter", "deque", "collections.defaultdict", "WeakKeyDictionary", "weakref.WeakKeyDictionary")


def class_level_containers(tree):
    """[(class, attr, node)] mutable containers created in a class body (shared by every instance in the process)."""
    out = []
    for c in ast.walk(tree):
        if isinstance(c, ast.ClassDef):
            for st in c.body:
                if isinstance(st, (ast.Assign, ast.AnnAssign)) and st.value is not None:
                    v = st.value
                    if isinstance(v, (ast.Dict, ast.List, ast.Set, ast.DictComp, ast.ListComp, ast.SetComp)) or (isinstance(v, ast.Call) and call_name(v) in _MUTABLE_CALLS):
                        for t in (st.targets if isinstance(st, ast.Assign) else [st.target]):
                            if isinstance(t, ast.Name) and not t.id.startswith("__"):
                                out.append((c.name, t.id, st))
    return out


def r8_stateless_wrappers(ctx):
    from ..util import self_state_stores
    ctx.rule("C03.R8", "nothing an evaluation touches outlives it in the process: the classes of the evaluation path (SafeLearner/SafeEvaluator/"
                       "SafeEnvironment, Task/ProcessTasks, the built-in evaluators) own no class-level mutable container, and the built-in "
                       "evaluators' evaluate() stores nothing on the (shared, never copied) evaluator object")
    files = [SEQ, "coba/safety.py", PROC, "coba/evaluators/primitives.py"] + (sorted(r for r in ctx.model.modules if r.startswith("coba/evaluators/")) if ctx.thorough else [])
    n = 0
    for rel in dict.fromkeys(files):
        if rel not in ctx.model.modules:
            continue
        ctx.touch(rel)
        tree = ctx.model.modules[rel].tree
        n += sum(1 for c in ast.walk(tree) if isinstance(c, ast.ClassDef))
        for cname, attr, st in class_level_containers(tree):
            # a class-level constant that is only ever read is fine; what matters is a container somebody grows or rewrites
            muts = []
            for x in ast.walk(tree):
                if isinstance(x, ast.Attribute) and x.attr == attr and isinstance(x.value, (ast.Name, ast.Call)):
                    par = getattr(x, "_parent", None)
                    from ..model import parent as _par
                    p1 = _par(x)
                    if isinstance(p1, ast.Attribute) and p1.attr in ("setdefault", "update", "append", "add", "extend", "pop", "clear", "insert", "remove", "popitem", "discard") and isinstance(_par(p1), ast.Call):
                        muts.append(x.lineno)
                    if isinstance(p1, ast.Subscript) and isinstance(p1.ctx, (ast.Store, ast.Del)):
                        muts.append(x.lineno)
                    if isinstance(x.ctx, ast.Store):
                        muts.append(x.lineno)
            ctx.ob("C03.R8", rel, cname, st, f"class-level container {cname}.{attr} is a constant: nothing grows or rewrites it (it is shared by every evaluation in the process)", not muts,
                   detail={"attribute": attr, "mutated at": muts})
    ctx.floor("C03.R8", "classes examined on the evaluation path", n, 6)
    base = ctx.model.cls("coba/primitives.py", "Evaluator")
    m = 0
    for c in ctx.model.subclasses(base):
        if not c.rel.startswith("coba/evaluators/") and c.rel != "coba/safety.py":
            continue
        for name, fn in sorted(c.methods.items()):
            if name in ("__init__", "params"):
                continue
            m += 1
            ctx.touch(c.rel, f"{c.name}.{name}")
            stores = self_state_stores(fn, c.methods.values())
            from ..util import alias_mutations
            via_alias = [f"{al} is self.{attr}: {unparse(node)[:50]}" for al, attr, node in alias_mutations(fn)]
            ctx.ob("C03.R8", c.rel, f"{c.name}.{name}", fn, "the evaluator method stores nothing on the evaluator object (nor changes one of its containers through a local alias)", not stores and not via_alias,
                   detail={"stores": stores, "through aliases": via_alias}, stmt=f"{c.name}.{name} stateless")
    ctx.floor("C03.R8", "evaluator methods examined", m, 3)


def r9_pickle_covers_constructor(ctx):
    ctx.rule("C03.R9", "what reaches a worker process is what was built: a class whose __reduce__ rebuilds it through its own constructor passes every "
                       "constructor parameter (a parameter left out silently falls back to its default, e.g. Task.copy)")
    n = 0
    for c in ctx.model.classes:
        if c.rel.startswith("coba/tests"):
            continue
        red = c.methods.get("__reduce__")
        if red is None:
            continue
        init = c.methods.get("__init__") or c.methods.get("__new__")
        for r in [x for x in walk_shallow(red) if isinstance(x, ast.Return) and isinstance(x.value, ast.Tuple)]:
            t = r.value
            if len(t.elts) < 2 or not isinstance(t.elts[1], ast.Tuple):
                continue
            callee = unparse(t.elts[0])
            if callee not in (c.name, "type(self)", "self.__class__"):
                continue
            n += 1
            ctx.touch(c.rel, f"{c.name}.__reduce__")
            params = [a.arg for a in init.args.args[1:]] + [a.arg for a in init.args.kwonlyargs] if init is not None else []
            has_state = len(t.elts) >= 3
            ok = has_state or init is None or init.args.vararg is not None or len(t.elts[1].elts) == len(params)
            ctx.ob("C03.R9", c.rel, f"{c.name}.__reduce__", r, f"{c.name}.__reduce__ passes all {len(params)} constructor parameters (or carries the state separately)", ok,
                   detail={"constructor": params, "passed": [unparse(e) for e in t.elts[1].elts]})
    ctx.floor("C03.R9", "classes rebuilding themselves through their constructor on unpickling", n, 2)
    task = ctx.model.cls(PROC, "Task")
    hooks = [m_ for m_ in ("__reduce__", "__reduce_ex__", "__getstate__", "__setstate__", "__copy__", "__deepcopy__") if m_ in task.methods]
    if not hooks:
        ctx.ob("C03.R9", PROC, "Task", task.node if hasattr(task, "node") else None, "Task is pickled by the default protocol (every attribute, incl. the copy flag, travels to the worker)", True, stmt="Task default pickling", line=1)


def r11_learning_info(ctx, rule="C03.R11"):
    """must-pass: CobaContext.learning_info is process-global; an evaluator that copies it into its rows has cleared it first."""
    from ..cfg import forward
    from ..util import name_bound, node_ast_for_effects
    ctx.rule(rule, "every evaluator function that copies the process-global CobaContext.learning_info into a row has cleared it on every path from "
                   "its entry to that copy (must-pass-through on the CFG): what an earlier evaluation left there never reaches another triple's rows")
    n = 0
    for mod_rel, tree in sorted((r_, m_.tree) for r_, m_ in ctx.model.modules.items()):
        if not mod_rel.startswith("coba/evaluators/"):
            continue
        for fn in [x for x in ast.walk(tree) if isinstance(x, (ast.FunctionDef,))]:
            if not any(unparse(v) == "CobaContext.learning_info" for v in ast.walk(fn) if isinstance(v, ast.Attribute)):
                continue
            if any(isinstance(x, ast.FunctionDef) and x is not fn and any(unparse(v) == "CobaContext.learning_info" for v in ast.walk(x) if isinstance(v, ast.Attribute)) for x in ast.walk(fn)):
                continue  # judged at the inner function
            INFO = name_bound(fn, lambda v: unparse(v) == "CobaContext.learning_info", None)
            names = {"CobaContext.learning_info"} | ({INFO} if INFO else set())
            from ..model import qualname as _qn; qual = _qn(fn)
            g = CFG(fn)

            def is_clear(node):
                a = node_ast_for_effects(node)
                return a is not None and any(isinstance(c, ast.Call) and isinstance(c.func, ast.Attribute) and c.func.attr == "clear"
                                             and unparse(c.func.value) in names for c in ast.walk(a))

            def reads(node):
                a = node_ast_for_effects(node)
                if a is None:
                    return []
                return [c for c in ast.walk(a) if isinstance(c, ast.Call) and isinstance(c.func, ast.Attribute) and c.func.attr in ("update",)
                        and c.args and unparse(c.args[0]) in names] + \
                       [c for c in ast.walk(a) if isinstance(c, ast.Call) and call_name(c) in ("dict", "list") and c.args and unparse(c.args[0]) in names] + \
                       [c for c in ast.walk(a) if isinstance(c, ast.Starred) and unparse(c.value) in names] + \
                       [k for k in ast.walk(a) if isinstance(k, ast.Dict) for kk, vv in zip(k.keys, k.values) if kk is None and unparse(vv) in names]

            def transfer(node, st, label):
                if label in ("exc", "abandon"):
                    return st
                return True if is_clear(node) else st
            IN = forward(g, False, transfer, lambda a, b: a and b)
            for node in g.nodes:
                if node.id not in IN:
                    continue
                for r in reads(node):
                    n += 1
                    ctx.ob(rule, mod_rel, qual, r, "learning_info was cleared on every path from the function's entry to this copy into a row", bool(IN[node.id]))
    ctx.floor(rule, "copies of learning_info into evaluator rows", n, 2)


def r12_copy_flag_owner(ctx, rule="C03.R12"):
    ctx.rule(rule, "who-may-write: the copy flag of a Task is decided where the occurrences over ALL triples are known (the Task constructor called "
                   "from MakeTasks); no other function of the experiment machinery rewrites it (a chunk-local count is wrong whenever chunks share a process)")
    n = 0
    for mod_rel, tree in sorted((r_, m_.tree) for r_, m_ in ctx.model.modules.items()):
        if not (mod_rel.startswith("coba/experiments/") or mod_rel.startswith("coba/pipes/")) or "/tests/" in mod_rel:
            continue
        for fn in [x for x in ast.walk(tree) if isinstance(x, ast.FunctionDef)]:
            from ..model import qualname as _qn; qual = _qn(fn)
            for st in walk_shallow(fn):
                tg = []
                if isinstance(st, ast.Assign):
                    tg = [t for t0 in st.targets for t in (t0.elts if isinstance(t0, (ast.Tuple, ast.List)) else [t0])]
                elif isinstance(st, (ast.AugAssign, ast.AnnAssign)):
                    tg = [st.target]
                elif isinstance(st, ast.Call) and call_name(st) == "setattr" and len(st.args) >= 2 and const_str(st.args[1]) == "copy":
                    tg = [ast.Attribute(value=st.args[0], attr="copy", ctx=ast.Store())]
                for t in tg:
                    if isinstance(t, ast.Attribute) and t.attr == "copy":
                        n += 1
                        ok = qual == "Task.__init__" and is_self_attr(t)
                        ctx.ob(rule, mod_rel, qual, st, "the copy flag is written only by the Task constructor", ok)
    ctx.floor(rule, "writes of a .copy attribute in the experiment machinery", n, 1)


def r13_evaluators_hold_no_generator(ctx, rule="C03.R13"):
    ctx.rule(rule, "an evaluator object is shared by every triple that names it: no evaluator attribute holds a random generator or an iterator "
                   "(its position would carry from one evaluation into the next); generators are created inside evaluate()")
    base = ctx.model.cls("coba/primitives.py", "Evaluator")
    n = 0
    for c in ctx.model.subclasses(base):
        if not c.rel.startswith("coba/evaluators/") and c.rel != "coba/safety.py":
            continue
        for name, fn in sorted(c.methods.items()):
            for st in walk_shallow(fn):
                if not isinstance(st, (ast.Assign, ast.AnnAssign)) or st.value is None:
                    continue
                tg = st.targets if isinstance(st, ast.Assign) else [st.target]
                if not any(is_self_attr(t) for t in tg):
                    continue
                n += 1
                gens = [cl for cl in ast.walk(st.value) if isinstance(cl, ast.Call) and (call_name(cl) or "").split(".")[-1] in ("CobaRandom", "Random", "iter", "count", "cycle")]
                ctx.ob(rule, c.rel, f"{c.name}.{name}", st, "the stored value is not a generator/iterator object", not gens)
    ctx.floor(rule, "attribute stores in evaluator classes", n, 10)


def _no_entry_clear(tree):
    """RejectionCB clears learning_info only after it was copied into a row (never on entry / per iteration)."""
    from ..mutate import find_def
    fn = find_def(tree, "RejectionCB.evaluate")
    hit = 0
    for node in ast.walk(fn):
        for field in ("body", "orelse"):
            body = getattr(node, field, None)
            if isinstance(body, list):
                keep = [s for s in body if not (isinstance(s, ast.Expr) and ast.unparse(s).endswith(".clear()") and "info" in ast.unparse(s))]
                hit += len(body) - len(keep)
                if len(keep) != len(body):
                    body[:] = keep or [ast.Pass()]
    if not hit:
        raise M.TargetMissing("no info.clear() in RejectionCB.evaluate")


def _task_reduce(tree):
    from ..mutate import find_def
    cls = find_def(tree, "Task")
    cls.body.append(ast.parse("def __reduce__(self):\n    return (Task, ((self.env_id, self.env), (self.lrn_id, self.lrn), (self.val_id, self.val)))").body[0])


def _class_cache(tree):
    from ..mutate import find_def
    cls = find_def(tree, "SafeLearner")
    cls.body.insert(1, ast.parse("_METHODS = {}").body[0])
    init = find_def(tree, "SafeLearner.__init__")
    for st in ast.walk(init):
        if isinstance(st, ast.Assign) and ast.unparse(st.targets[0]) == "self._method":
            st.value = ast.parse("SafeLearner._METHODS.setdefault(type(self.learner), {})", mode="eval").body


CONTROLS = [
    ("SequentialIGL appends to its own record list", SEQ, M.replace_stmt("SequentialIGL.evaluate", M.text_has("record = self._record + ['action']"), "record = self._record\nrecord.append('action')"), "C03.R8"),
    ("epsilon learner keeps its value table's __getitem__", "coba/learners/bandit.py", M.insert_after("BanditEpsilonLearner.__init__", M.text_has("self._Q"), "self._value_of = self._Q.__getitem__"), "C03.R17"),
    ("the per-child limit counts outputs", "coba/pipes/multiprocessing.py", M.replace_expr("Multiprocessor.filter", "SourceSink(in_get, setter, unpickler, get_max, Safe(Foreach(self._filter)), pickler, out_put)",
        "SourceSink(in_get, setter, unpickler, Safe(Foreach(self._filter)), get_max, pickler, out_put)"), "C03.R16"),
    ("rows that cannot be written end the whole experiment", "coba/results/core.py", M.replace_stmt("TransactionEncode.filter", lambda st: isinstance(st, ast.Try),
        "yield encoder(['I', item[1], {'_packed': {str(k): [r.get(k) for r in item[2]] for k in sorted(set().union(*[r.keys() for r in item[2]]), key=str)}}])"), "C03.R15"),
    ("IGL reader rewrites the environment's own interactions", SEQ, M.replace_stmt("SequentialIGL.evaluate", M.simple_has("new = interaction.copy()"), "new = interaction"), "C03.R14"),
    ("RejectionCB no longer clears learning_info on entry", SEQ, _no_entry_clear, "C03.R11"),
    ("chunk-local copy flag", PROC, M.insert_after("ChunkTasks._chunks", M.text_has("chunk_sorter ="), "for c in chunks.values():\n    for t in c: t.copy = False"), "C03.R12"),
    ("RejectionCB keeps its generator", SEQ, M.insert_after("RejectionCB.__init__", M.text_has("self._seed"), "self._rng = CobaRandom(seed)"), "C03.R13"),
    ("Task.__reduce__ forgets the copy flag", PROC, _task_reduce, "C03.R9"),
    ("call convention remembered per learner class", "coba/safety.py", _class_cache, "C03.R8"),
    ("drop deepcopy", PROC, M.replace_stmt("ProcessTasks.filter", M.text_has("lrn = deepcopy(lrn)"), "pass"), "C03.R1"),
    ("copy=False", PROC, M.replace_expr("MakeTasks.read", "learner_counts[lrn] > 1", "False"), "C03.R2"),
    ("count over remaining", PROC, M.replace_expr("MakeTasks.read", "Counter([l for _, l, _ in self._triples])",
                                                    "Counter([l for _, l, _ in self._triples[1:]])"), "C03.R2"),
    ("reraise in handler", PROC, M.insert_after("ProcessTasks.filter", M.text_has("CobaContext.logger.log(e)"), "raise"), "C03.R4"),
    ("drop pickler", PMP, M.replace_expr("Multiprocessor.filter", "SourceSink(IterableSource(items), self._load_stopper, pickler, in_put)",
                                          "SourceSink(IterableSource(items), self._load_stopper, in_put)"), "C03.R6"),
    ("drop info.clear", SEQ, M.delete_stmt("SequentialCB._results", M.text_has("info.clear()")), "C03.R5"),
]
