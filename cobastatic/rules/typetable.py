"""Shared rule: the repo's abstract container types and the dispatch sites that rely on them.

coba recognises "dense" and "sparse" values through two ABCs in coba/primitives.py (Dense, Sparse) that are
populated with `X.register(...)` calls.  A dispatch site that tests a concrete builtin (list/tuple/dict) instead of the
ABC, or a registration that names a concrete type where the abstract one was registered, silently excludes the lazy row
views, HashableDense/HashableSparse and user mappings -- values the properties quantify over.
"""
import ast

from ..model import walk_shallow, call_name
from ..util import unparse

PRIM = "coba/primitives.py"
# the registrations confirmed on the pinned tree; each line is what the value families of the properties need
REQUIRED = {
    "Dense": {"list": "plain lists are dense values", "tuple": "tuples are dense values", "Dense_": "lazy dense row views", "HashableDense": "hashable wrapper"},
    "Sparse": {"abc.Mapping": "EVERY mapping is a sparse value (dict, MappingProxyType, UserDict, user classes)", "Sparse_": "lazy sparse row views",
               "HashableSparse": "hashable wrapper"},
}


def registrations(ctx, rule):
    tree = ctx.model.modules[PRIM].tree
    got = {"Dense": set(), "Sparse": set()}
    for st in tree.body:
        if isinstance(st, ast.Expr) and isinstance(st.value, ast.Call) and isinstance(st.value.func, ast.Attribute) and st.value.func.attr == "register" \
                and isinstance(st.value.func.value, ast.Name) and st.value.func.value.id in got and len(st.value.args) == 1:
            got[st.value.func.value.id].add(unparse(st.value.args[0]).replace("collections.abc.", "abc."))
    ctx.files.add(PRIM)
    for abc_, need in REQUIRED.items():
        for t, why in need.items():
            ctx.ob(rule, PRIM, "<module>", tree, f"{abc_}.register({t}) -- {why}", t in got[abc_], detail={"registered": sorted(got[abc_])}, stmt=f"{abc_}.register({t})", line=1)


def dispatch_uses_abcs(ctx, rule, rel, qual, wrappers=None):
    """every isinstance test in `qual` whose arm builds a dense/sparse wrapper (or that is named as a dense/sparse classifier) tests the ABC"""
    fn = ctx.fn(rel, qual)
    n = 0
    for c in ast.walk(fn):
        if not (isinstance(c, ast.Call) and call_name(c) == "isinstance" and len(c.args) == 2):
            continue
        classes = [unparse(e) for e in (c.args[1].elts if isinstance(c.args[1], ast.Tuple) else [c.args[1]])]
        concrete = [k for k in classes if k in ("list", "tuple", "dict", "set", "frozenset")]
        abstract = [k for k in classes if k in ("Dense", "Sparse")]
        if not concrete and not abstract:
            continue
        n += 1
        ctx.ob(rule, rel, qual, c, "dense/sparse values are recognised through the Dense/Sparse ABCs, not through concrete builtin types", not concrete,
               detail={"tested": classes})
    return n
