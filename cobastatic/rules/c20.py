"""C20 -- interaction encoding (DESIGN.md 5/C20).

Decided: the namespace key-domain of the dictionaries encode() builds and subscripts, and the
alignment of the key path with the value path (same iteration skeleton in the string and numeric
arms of _pows/_cross; keys and values derived from the same dict and crossed over the same terms).
Not decided: that the set of monomials is the mathematical one (F-C20b in DESIGN.md).
"""
import ast
import copy

from ..model import walk_shallow, call_name, is_self_attr, dotted_name, parent, ancestors, enclosing_function, rename_copy
from ..util import (has_call, find_calls, assigned_value, const_str, unparse, kw, arg_or_kw, enclosing_stmt,
                    guards_of, call_tail, control_ancestors)
from .. import mutate as M

TECHNIQUE = 'static analysis: key-domain inclusion of namespace dictionaries, sibling skeleton agreement (key path vs value path), abstract interpretation of _pows in the cardinality domain (n <= 8, degree <= 6) against C(n+k-1,k), ABC registration table, statelessness of the encoder'

EXPLANATION = ("Key-domain inclusion: a dict built by a comprehension filtered on `ns in self._ns_max_pow` is subscripted only with "
               "keys from an iteration whose domain is included in the dict's domain (either the iteration is restricted to the "
               "dict, or the raw namespaces were first completed with every namespace a term names). Alignment: the string and "
               "numeric arms of _pows and _cross are the same comprehension skeleton up to the element operator; in the sparse "
               "path keys and values come from .keys()/.values() of the same dict and are crossed over the same term list.")
EXPLANATION += ' R4: cardinality abstract interpretation of _pows (C(n+k-1,k) entries); R5: ABC dispatch/registrations and a stateless encoder.'
EXPLANATION += ' R2 also: the term table is keyed by the list its powers are computed from; R5 also: no custom pickling / copy hooks.'

ENC = "coba/encodings.py"


def _roles_encode(fn):
    from ..util import bound_names
    m = {}

    def put(pred, role):
        for n in bound_names(fn, pred):
            m.setdefault(n, role)
    put(lambda v: isinstance(v, ast.DictComp) and unparse(v.generators[0].iter) == "ns_raw_values.items()" and v.generators[0].ifs, "ns_values")
    put(lambda v: unparse(v) == "self._pows", "pows")
    put(lambda v: unparse(v) == "self._cross", "cross")
    nv = next((k for k, v in m.items() if v == "ns_values"), "ns_values")
    pw = next((k for k, v in m.items() if v == "pows"), "pows")
    cr = next((k for k, v in m.items() if v == "cross"), "cross")
    put(lambda v: isinstance(v, ast.DictComp) and ".keys()" in unparse(v.value) and pw + "(" in unparse(v.value), "key_pows")
    put(lambda v: isinstance(v, ast.DictComp) and ".keys()" not in unparse(v.value) and pw + "(" in unparse(v.value), "val_pows")
    kp = next((k for k, v in m.items() if v == "key_pows"), "key_pows")
    vp = next((k for k, v in m.items() if v == "val_pows"), "val_pows")
    put(lambda v: isinstance(v, ast.ListComp) and unparse(v.elt).startswith(f"{cr}({kp},"), "key_crosses")
    put(lambda v: isinstance(v, ast.ListComp) and unparse(v.elt).startswith(f"{cr}({vp},"), "val_crosses")
    put(lambda v: isinstance(v, ast.Call) and call_name(v) in ("dict", "sum"), "encoded")
    for x in ast.walk(fn):
        if isinstance(x, ast.comprehension) and isinstance(x.target, ast.Tuple) and len(x.target.elts) == 2 and unparse(x.iter) == "self._ns_max_pow.items()":
            m.setdefault(unparse(x.target.elts[0]), "ns")
            m.setdefault(unparse(x.target.elts[1]), "max_pow")
        if isinstance(x, ast.comprehension) and isinstance(x.target, ast.Name) and unparse(x.iter) == "self._cross_pows.values()":
            m.setdefault(x.target.id, "cross_pow")
    return m


def _roles_pows(fn):
    from ..util import bound_names
    m = {}
    for n in bound_names(fn, lambda v: unparse(v) == "[1] * len(values)"):
        m[n] = "starts"
    for n in bound_names(fn, lambda v: isinstance(v, ast.IfExp) and "[['']]" in unparse(v)):
        m[n] = "terms"
    for x in walk_shallow(fn):
        if isinstance(x, ast.For) and isinstance(x.target, ast.Name) and unparse(x.iter) == "range(degree)":
            m[x.target.id] = "d"
    return m


def _roles_cross(fn):
    from ..util import bound_names
    m = {}
    for n in bound_names(fn, lambda v: isinstance(v, ast.ListComp) and "ns_pows[" in unparse(v)):
        m[n] = "values"
    vals = next(iter(m), "values")
    for n in bound_names(fn, lambda v: unparse(v) == f"{vals}[0]"):
        m[n] = "cross"
    for x in walk_shallow(fn):
        if isinstance(x, ast.For) and isinstance(x.target, ast.Name) and unparse(x.iter) == f"{vals}[1:]":
            m[x.target.id] = "vs"
    return m


def _init(ctx):
    from ..util import bound_names
    f = ctx.fn(ENC, "InteractionsEncoder.__init__")
    m = {}
    for n in bound_names(f, lambda v: isinstance(v, ast.ListComp) and "isinstance" in unparse(v) and "str" in unparse(v)):
        m[n] = "str_interactions"
    for n in bound_names(f, lambda v: isinstance(v, ast.ListComp) and "isinstance" in unparse(v) and "Number" in unparse(v)):
        m[n] = "num_interactions"
    return rename_copy(f, m)


_ROLES = {"InteractionsEncoder.encode": _roles_encode, "InteractionsEncoder._pows": _roles_pows, "InteractionsEncoder._cross": _roles_cross}


def _fn(ctx, qual):
    f = ctx.fn(ENC, qual)
    r = _ROLES.get(qual)
    return rename_copy(f, r(f)) if r else f


def run(ctx):
    r1_key_domain(ctx)
    r2_alignment(ctx)
    r3_none_normalisation(ctx)
    r4_cardinality(ctx)
    r5_types_and_state(ctx)
    # what reaches encode() is the vector as last written: the mutable dense rows handed to LinUCB/LinTS are write-through
    from . import c11
    c11.write_through(ctx, "C20.R6")
    r7_length_authority(ctx)
    r8_term_lists(ctx)
    # encode() sizes its work by len(<dense row>) and then walks the row: a row view whose len is smaller than what it iterates loses its trailing features silently
    from . import c13
    c13.r19_len_iter_agreement(ctx, rule="C20.R9")
    # the rows handed to encode() answer the same whatever was encoded before them, and are empty exactly when they hold nothing
    ctx.rule("C20.R10", "C13.R4 for the rows handed to encode(): accessors of row views mutate nothing the view (or its sibling rows) shares, also not through a local alias")
    c13.r4_purity(ctx, rule="C20.R10")
    c13.r20_truthiness(ctx, rule="C20.R11")
    # 'terms in the order given': the term list a learner hands to InteractionsEncoder is never rebuilt through a set (string-hash order differs from process to process)
    from . import c01
    ctx.rule("C20.R12", "C01.R7 for the learners: no set-typed expression is iterated into the ordered term list handed to InteractionsEncoder (de-duplication keeps the given order: dict.fromkeys)")
    sub = type(ctx)(ctx.model, ctx.prop, ctx.tier, silent=True)
    c01.r7_hash_order(sub)
    for o in [o for o in sub.obs if o.file.startswith("coba/learners/")]:
        o.rule = "C20.R12"
        ctx.obs.append(o)
    ctx.files |= sub.files
    ctx.functions |= sub.functions


def r1_key_domain(ctx):
    ctx.rule("C20.R1", "InteractionsEncoder.encode: every subscript ns_values[ns] uses a key from an iteration whose domain is included in ns_values' domain")
    fn = _fn(ctx, "InteractionsEncoder.encode")
    # domain of ns_values
    defs = [x for x in walk_shallow(fn) if isinstance(x, ast.Assign) and unparse(x.targets[0]) == "ns_values" and isinstance(x.value, ast.DictComp)]
    ctx.floor("C20.R1", "definitions of ns_values", len(defs), 2)
    filtered = all(any(unparse(i) == "ns in self._ns_max_pow" for i in d.value.generators[0].ifs) for d in defs)
    sources = {unparse(d.value.generators[0].iter) for d in defs}
    # is the raw mapping completed with every namespace of M before ns_values is built?
    completed = False
    first = min(d.lineno for d in defs)
    for x in walk_shallow(fn):
        if isinstance(x, ast.For) and unparse(x.iter) in ("self._ns_max_pow", "self._ns_max_pow.keys()") and x.lineno < first:
            body = " ".join(unparse(s) for s in x.body)
            if f"ns_raw_values.setdefault({unparse(x.target)}," in body:
                completed = True
        if isinstance(x, ast.Assign) and unparse(x.targets[0]) == "ns_raw_values" and x.lineno < first and "self._ns_max_pow" in unparse(x.value) and \
                ("fromkeys" in unparse(x.value) or "for" in unparse(x.value)) and "ns_raw_values" in unparse(x.value):
            if isinstance(x.value, ast.Dict) and any(k is None for k in x.value.keys):
                completed = True
    domain = "M (all namespaces named by a term)" if completed else "raw ∩ M (only the namespaces that were passed)"
    n = 0
    for x in walk_shallow(fn):
        if isinstance(x, ast.Subscript) and unparse(x.value) == "ns_values" and isinstance(x.ctx, ast.Load):
            n += 1
            comp = next((a for a in ancestors(x) if isinstance(a, (ast.DictComp, ast.ListComp, ast.GeneratorExp))), None)
            ok, why = False, "subscript outside a comprehension"
            if comp is not None:
                g = comp.generators[0]
                key = unparse(x.slice)
                it = unparse(g.iter)
                tnames = [unparse(t) for t in (g.target.elts if isinstance(g.target, ast.Tuple) else [g.target])]
                restricted = any(unparse(i) in (f"{key} in ns_values",) for i in g.ifs)
                if key in tnames and it in ("ns_values.items()", "ns_values", "ns_values.keys()"):
                    ok, why = True, "iterates ns_values itself"
                elif key in tnames and it in ("self._ns_max_pow.items()", "self._ns_max_pow", "self._ns_max_pow.keys()"):
                    ok = restricted or completed
                    why = "iterates all namespaces M named by the terms; ns_values has domain " + domain + ("; restricted by `in ns_values`" if restricted else "")
                else:
                    why = f"iteration over {it} not related to ns_values"
            ctx.ob("C20.R1", ENC, "InteractionsEncoder.encode", x, "the subscripted namespace is always a key of ns_values (a term may name a namespace that was not passed)", ok,
                   detail={"why": why, "filtered_on_M": filtered, "sources": sorted(sources)}, stmt=unparse(comp)[:120] if comp is not None else unparse(x))
    ctx.floor("C20.R1", "subscripts of ns_values", n, 2)
    cr = _fn(ctx, "InteractionsEncoder._cross")
    subs = [x for x in walk_shallow(cr) if isinstance(x, ast.Subscript) and unparse(x.value) == "ns_pows" and isinstance(x.ctx, ast.Load)]
    ok = all(isinstance(s.slice, ast.Name) for s in subs) and bool(subs)
    # ns_pows (val_pows/key_pows) is built over M, cross_pow keys are namespaces of one term (subset of M by construction of _ns_max_pow)
    init = _init(ctx)
    mp = [x for x in walk_shallow(init) if isinstance(x, ast.Assign) and any(is_self_attr(t, "_ns_max_pow") for t in x.targets)]
    ok2 = len(mp) == 1 and isinstance(mp[0].value, ast.DictComp) and unparse(mp[0].value.generators[0].iter) == "set(''.join(str_interactions))" \
        and unparse(mp[0].value.key) == unparse(mp[0].value.generators[0].target)
    ctx.ob("C20.R1", ENC, "InteractionsEncoder.__init__", mp[0] if mp else init, "_ns_max_pow has an entry for every namespace letter of every term (so per-term look-ups in *_pows cannot miss)", ok and ok2,
           stmt="_ns_max_pow domain")


def _skeleton(comp, op_types):
    """comprehension with names alpha-renamed and the element's top-level operator abstracted."""
    c = copy.deepcopy(comp)
    names = {}

    class R(ast.NodeTransformer):
        def visit_Name(self, n):
            if n.id not in names:
                names[n.id] = f"v{len(names)}"
            return ast.copy_location(ast.Name(id=names[n.id], ctx=n.ctx), n)

    for g in c.generators:
        R().visit(g)
    R().visit(c.elt)
    elt = c.elt
    op = type(elt.op).__name__ if isinstance(elt, ast.BinOp) else None
    if isinstance(elt, ast.BinOp):
        elt_txt = f"OP({unparse(elt.left)}, {unparse(elt.right)})"
    else:
        elt_txt = unparse(elt)
    gens = [f"for {unparse(g.target)} in {unparse(g.iter)}" + "".join(f" if {unparse(i)}" for i in g.ifs) for g in c.generators]
    return (elt_txt, tuple(gens)), op


def r2_alignment(ctx):
    ctx.rule("C20.R2", "the string (key) arm and the numeric (value) arm of _pows and of _cross have the same iteration skeleton; the sparse "
                       "path derives keys and values from the same dict and crosses both over the same terms")
    for qual, test in (("InteractionsEncoder._pows", "isinstance(values[0], str)"), ("InteractionsEncoder._cross", "isinstance(cross[0], str)")):
        fn = _fn(ctx, qual)
        arms = [x for x in walk_shallow(fn) if isinstance(x, ast.If) and unparse(x.test) == test and x.orelse]
        ok, d = False, {}
        if len(arms) == 1:
            c1 = [c for s in arms[0].body for c in walk_shallow(s) if isinstance(c, ast.ListComp)]
            c2 = [c for s in arms[0].orelse for c in walk_shallow(s) if isinstance(c, ast.ListComp)]
            if len(c1) == 1 and len(c2) == 1:
                s1, op1 = _skeleton(c1[0], None)
                s2, op2 = _skeleton(c2[0], None)
                ok = s1 == s2 and op1 == "Add" and op2 == "Mult"
                d = {"string_arm": s1, "numeric_arm": s2, "ops": [op1, op2]}
                # same surrounding statement shape (append / assignment in a loop)
                w1 = unparse(arms[0].body[0]).replace(unparse(c1[0]), "COMP")
                w2 = unparse(arms[0].orelse[0]).replace(unparse(c2[0]), "COMP")
                ok = ok and w1 == w2
        ctx.ob("C20.R2", ENC, qual, arms[0] if arms else fn, "both arms iterate identically and differ only in the element operator (concatenate vs multiply)", ok, detail=d, stmt=f"{qual} arms")
    fn = _fn(ctx, "InteractionsEncoder.encode")
    kp = assigned_value(fn, "key_pows")
    vp = [v for v in assigned_value(fn, "val_pows") if ".values()" in unparse(v)]
    ok = len(kp) == 1 and len(vp) == 1 and unparse(kp[0]).replace(".keys()", ".X()") == unparse(vp[0]).replace(".values()", ".X()")
    ctx.ob("C20.R2", ENC, "InteractionsEncoder.encode", kp[0] if kp else fn, "key powers and value powers are computed from .keys() and .values() of the same per-namespace dict, same degree", ok,
           detail={"key_pows": [unparse(v) for v in kp], "val_pows": [unparse(v) for v in vp]}, stmt="key_pows~val_pows")
    kc = assigned_value(fn, "key_crosses")
    vc = [v for v in assigned_value(fn, "val_crosses")]
    ok = len(kc) == 1 and len(vc) == 2 and all(unparse(v).replace("val_pows", "P") == unparse(kc[0]).replace("key_pows", "P") for v in vc)
    ctx.ob("C20.R2", ENC, "InteractionsEncoder.encode", kc[0] if kc else fn, "keys and values are crossed over the same term list, in the order the terms were given", ok, stmt="key_crosses~val_crosses")
    enc = [v for v in assigned_value(fn, "encoded") if "zip(" in unparse(v)]
    ok = len(enc) == 1 and unparse(enc[0]) == "dict(zip(chain.from_iterable(key_crosses), chain.from_iterable(val_crosses)))"
    ctx.ob("C20.R2", ENC, "InteractionsEncoder.encode", enc[0] if enc else fn, "the sparse result pairs the i-th key with the i-th value", ok, stmt="zip keys with values")
    dense = [v for v in assigned_value(fn, "encoded") if "sum(" in unparse(v)]
    ok = len(dense) == 1 and unparse(dense[0]) == "sum(val_crosses, [])"
    ctx.ob("C20.R2", ENC, "InteractionsEncoder.encode", dense[0] if dense else fn, "the dense result concatenates the terms in the order given", ok, stmt="dense concat")
    const = [x for x in walk_shallow(fn) if isinstance(x, ast.If) and unparse(x.test) == "self._constant"]
    forms = sorted(unparse(x.body[0]) for x in const)
    ctx.ob("C20.R2", ENC, "InteractionsEncoder.encode", const[0] if const else fn, "the constant comes first (dense) / under its own key (sparse)",
           forms == ["encoded = [self._constant] + encoded", "encoded['const'] = self._constant"], detail={"forms": forms}, stmt="constant placement")
    init = _init(ctx)
    cp = [x for x in walk_shallow(init) if isinstance(x, ast.Assign) and any(is_self_attr(t, "_cross_pows") for t in x.targets)]
    ok = len(cp) == 1 and unparse(cp[0].value).startswith("OrderedDict(zip(") and "map(Counter, str_interactions)" in unparse(cp[0].value)
    ctx.ob("C20.R2", ENC, "InteractionsEncoder.__init__", cp[0] if cp else init, "terms are kept in the order given, each as namespace -> power", ok, stmt="_cross_pows order")
    # keys and values of the term table are zipped from the SAME list (the string terms): zipping the full interaction list (numeric constants
    # included) against the string terms mis-aligns them and lets equal constants overwrite each other
    z = [c for c in ast.walk(cp[0].value) if isinstance(c, ast.Call) and call_name(c) == "zip"] if cp else []
    okz = False
    if z and len(z[0].args) == 2:
        k_src = unparse(z[0].args[0])
        v_srcs = {n.id for n in ast.walk(z[0].args[1]) if isinstance(n, ast.Name)} - {"OrderedDict", "Counter", "map", "dict"}
        okz = k_src in v_srcs
    ctx.ob("C20.R2", ENC, "InteractionsEncoder.__init__", cp[0] if cp else init, "the term table is keyed by the same list its per-term powers are computed from", okz, stmt="_cross_pows keys")


def r3_none_normalisation(ctx):
    ctx.rule("C20.R3", "a namespace is replaced by the empty vector only when it `is None` -- a scalar 0, 0.0 or '' is a vector of length one, not a missing namespace")
    fn = _fn(ctx, "InteractionsEncoder.encode")
    norms = [x for x in walk_shallow(fn) if isinstance(x, ast.Assign) and unparse(x.targets[0]) == "ns_raw_values" and isinstance(x.value, ast.DictComp)]
    ctx.floor("C20.R3", "namespace normalisations", len(norms), 1)
    for x in norms:
        v = x.value.value
        val = unparse(x.value.generators[0].target.elts[1]) if isinstance(x.value.generators[0].target, ast.Tuple) else "v"
        ok = isinstance(v, ast.IfExp) and ((unparse(v.test) == f"{val} is not None" and unparse(v.body) == val and unparse(v.orelse) == "[]") or
                                           (unparse(v.test) == f"{val} is None" and unparse(v.orelse) == val and unparse(v.body) == "[]"))
        ctx.ob("C20.R3", ENC, "InteractionsEncoder.encode", x, "None (and only None) is normalised to the empty namespace", ok, detail={"value": unparse(v)})
    tru = [x for x in walk_shallow(fn) if isinstance(x, ast.BoolOp) and isinstance(x.op, ast.Or) and any(unparse(o) in ("[]", "{}", "()") for o in x.values[1:])]
    ctx.ob("C20.R3", ENC, "InteractionsEncoder.encode", tru[0] if tru else fn, "no namespace value is defaulted by truthiness (`x or []`)", not tru, stmt="no truthiness default")


def r5_types_and_state(ctx):
    from . import typetable
    ctx.rule("C20.R5", "sparse and dense namespaces are recognised through the Sparse/Dense ABCs (every Mapping is sparse; lists, tuples and row views are "
                       "dense) and encode() is a function of its arguments only: encode/_pows/_cross store nothing on the encoder and keep no memo")
    n = typetable.dispatch_uses_abcs(ctx, "C20.R5", ENC, "InteractionsEncoder.encode")
    ctx.floor("C20.R5", "dense/sparse type tests in encode", n, 2)
    typetable.registrations(ctx, "C20.R5")
    from ..util import self_state_stores
    c = ctx.model.cls(ENC, "InteractionsEncoder")
    for name, fn in sorted(c.methods.items()):
        if name == "__init__":
            continue
        ctx.touch(ENC, f"InteractionsEncoder.{name}")
        stores = self_state_stores(fn, c.methods.values())
        decs = [unparse(d) for d in fn.decorator_list]
        if name in ("__reduce__", "__reduce_ex__", "__getstate__", "__setstate__", "__copy__", "__deepcopy__", "__getnewargs__"):
            ctx.ob("C20.R5", ENC, f"InteractionsEncoder.{name}", fn, "the encoder is copied and pickled by the default protocol (a copy made for a new evaluation or a worker encodes "
                   "exactly the terms, powers included, of the original)", False, stmt=f"custom {name}")
        ctx.ob("C20.R5", ENC, f"InteractionsEncoder.{name}", fn, "the method keeps no state between calls (no store on self other than write-only counters, no memo decorator)",
               not stores and not any("cache" in d for d in decs), detail={"stores": stores, "decorators": decs}, stmt=f"InteractionsEncoder.{name} stateless")


def r4_cardinality(ctx):

    """`each unordered combination of features once`: the number of degree-k monomials over n features is C(n+k-1, k).
    _pows is interpreted in the cardinality domain (feature values abstracted to opaque elements, list lengths / slice offsets /
    the integer offset table tracked exactly, the degree loop unrolled) for every n <= 8, degree <= 6, numeric and string features."""
    from math import comb
    from ..cardinality import CardEval, Elems, Opaque, Unmodelled, length
    ctx.rule("C20.R4", "cardinality abstract interpretation of InteractionsEncoder._pows: for n = 0..8 features and degree 0..6 the k-th power table "
                       "has exactly C(n+k-1, k) entries (each unordered combination once), in the numeric and in the string arm")
    fn = ctx.fn(ENC, "InteractionsEncoder._pows")
    params = [a.arg for a in fn.args.args]
    bad, unm, n_cfg = [], None, 0
    for is_str in (False, True):
        for n in range(0, 9):
            for d in range(0, 7):
                n_cfg += 1
                env = {params[0]: Opaque(), params[1]: Elems(n, is_str), params[2]: d}
                try:
                    terms = CardEval(env).run(fn.body)
                except Unmodelled as e:
                    unm = str(e)
                    break
                if n == 0:
                    if length(terms) != 0:
                        bad.append({"string_features": is_str, "n": n, "degree": d, "problem": "non-empty result for no values"})
                    continue
                got = [length(t) for t in terms]
                exp = [comb(n + k - 1, k) for k in range(d + 1)]
                if got != exp:
                    bad.append({"string_features": is_str, "n": n, "degree": d, "table sizes": got, "C(n+k-1,k)": exp})
            if unm:
                break
        if unm:
            break
    if unm:
        ctx.ob("C20.R4", ENC, "InteractionsEncoder._pows", fn, "the power table can be followed in the cardinality domain", None, detail={"unmodelled": unm}, stmt="_pows cardinality")
    else:
        ctx.ob("C20.R4", ENC, "InteractionsEncoder._pows", fn, "the k-th power table holds C(n+k-1, k) monomials for all n <= 8, degree <= 6", not bad,
               detail={"configurations": n_cfg, "first_mismatches": bad[:3]}, stmt="_pows cardinality")
    ctx.note(f"C20.R4 interpreted _pows in the cardinality domain for {n_cfg} (n, degree, kind) configurations")
    # _cross: the crossed term has the product of the factor sizes (full outer product)
    cr = ctx.fn(ENC, "InteractionsEncoder._cross")
    comps = [c for c in ast.walk(cr) if isinstance(c, ast.ListComp) and isinstance(c.elt, ast.BinOp)]
    ok = bool(comps) and all(len(c.generators) == 2 and not any(g.ifs for g in c.generators) for c in comps)
    ctx.ob("C20.R4", ENC, "InteractionsEncoder._cross", comps[0] if comps else cr, "namespaces are crossed as a full outer product (two unfiltered generators per step)", ok, stmt="_cross outer product")


def _memo_pows(tree):
    from ..mutate import find_def
    fn = find_def(tree, "InteractionsEncoder._pows")
    fn.body.insert(0, ast.parse("self._memo = (id(values), degree)").body[0])


def _lossy_reduce(tree):
    from ..mutate import find_def
    c = find_def(tree, "InteractionsEncoder")
    c.body.append(ast.parse("def __reduce__(self):\n    return (InteractionsEncoder, ([''.join(p) for p in self._cross_pows.values()],))").body[0])


def r7_length_authority(ctx, rule="C20.R7"):
    """A consumer that pairs encode() outputs with a weight vector by position must size that vector from the encoder itself."""
    ctx.rule(rule, "the encoder is the only authority for the length of its output: a function that builds an InteractionsEncoder and sizes vectors for its outputs takes the size "
                   "from len(<encoder>.encode(...)) of a probe -- it never re-derives the number of monomials by a closed formula (map/zip against a shorter weight vector "
                   "silently drops the trailing monomials)")
    n = 0
    for rel, mod in sorted(ctx.model.modules.items()):
        if rel.startswith("coba/tests") or rel == "coba/encodings.py":
            continue
        for fn in [x for x in ast.walk(mod.tree) if isinstance(x, ast.FunctionDef)]:
            encs = {t.id for st in walk_shallow(fn) if isinstance(st, ast.Assign) and isinstance(st.value, ast.Call) and call_name(st.value) == "InteractionsEncoder"
                    for t in st.targets if isinstance(t, ast.Name)}
            if not encs:
                continue
            from ..model import qualname
            qual = qualname(fn)
            ctx.touch(rel, qual)
            sized = [st for st in walk_shallow(fn) if isinstance(st, ast.Assign) and isinstance(st.value, ast.Call) and call_name(st.value) == "len" and st.value.args
                     and isinstance(st.value.args[0], ast.Call) and isinstance(st.value.args[0].func, ast.Attribute) and st.value.args[0].func.attr == "encode"
                     and unparse(st.value.args[0].func.value) in encs]
            formulas = [c for c in ast.walk(fn) if isinstance(c, ast.Call) and (call_name(c) or "").split(".")[-1] in ("comb", "perm", "factorial", "binomial")]
            pairs = [c for c in ast.walk(fn) if isinstance(c, ast.Call) and call_name(c) in ("map", "zip") and any(isinstance(a, ast.Name) and "weight" in a.id for a in c.args)]
            if not pairs and not sized:
                continue
            n += 1
            ctx.ob(rule, rel, qual, sized[0] if sized else fn, "vectors paired with the encoder's output are sized by len(<encoder>.encode(<probe>)), not by a counting formula",
                   bool(sized) and not formulas, detail={"formulas": [unparse(f_) for f_ in formulas]}, stmt="output length from the encoder")
    ctx.floor(rule, "functions pairing InteractionsEncoder outputs with weight vectors", n, 1)


def r8_term_lists(ctx, rule="C20.R8"):
    """what reaches InteractionsEncoder as its term list: a term given as ONE string is one term, and the 'no context' test that strips the x's from the terms
    is the same notion of empty the later encode() calls use."""
    ctx.rule(rule, "term lists handed to InteractionsEncoder: where a constructor accepts a single string for its terms it wraps it (`[s]`, never `list(s)`, which splits 'xa' into 'x' and 'a'); "
                   "where the x namespace is stripped from the terms for an empty context, the test is the falsiness of the very value later passed as `x=<value> or []`")
    n = 0
    for rel, mod in sorted(ctx.model.modules.items()):
        if rel.startswith("coba/tests") or rel == "coba/encodings.py":
            continue
        if "InteractionsEncoder" not in mod.src:
            continue
        for fn in [x for x in ast.walk(mod.tree) if isinstance(x, ast.FunctionDef)]:
            from ..model import qualname
            qual = qualname(fn)
            for st in [x for x in walk_shallow(fn) if isinstance(x, ast.If) and isinstance(x.test, ast.Call) and call_name(x.test) == "isinstance" and len(x.test.args) == 2 and unparse(x.test.args[1]) == "str"]:
                V = unparse(st.test.args[0])
                if "feature" not in V.lower() and "term" not in V.lower() and "interaction" not in V.lower():
                    continue
                for b in [b for b in st.body if isinstance(b, ast.Assign) and unparse(b.targets[0]) == V]:
                    n += 1
                    ctx.touch(rel, qual)
                    ctx.ob(rule, rel, qual, b, "a single string is wrapped as one term", unparse(b.value) == f"[{V}]", detail={"value": unparse(b.value)})
            strips = [st for st in ast.walk(fn) if isinstance(st, ast.If) and any(isinstance(b, ast.Assign) and "InteractionsEncoder(" in unparse(b.value) and ".replace('x', '')" in unparse(b.value) for b in st.body)]
            for st in strips:
                n += 1
                ctx.touch(rel, qual)
                t = st.test
                subject = unparse(t.operand) if isinstance(t, ast.UnaryOp) and isinstance(t.op, ast.Not) else None
                enc_calls = [c for c in ast.walk(fn) if isinstance(c, ast.Call) and call_tail(c) == "encode" and any(k.arg == "x" for k in c.keywords)]
                xs = {unparse(k.value) for c in enc_calls for k in c.keywords if k.arg == "x"}
                ok = subject is not None and bool(xs) and all(x_ in (f"{subject} or []", subject) for x_ in xs)
                ctx.ob(rule, rel, qual, st, "the x namespace is stripped from the terms exactly when the context is empty in the sense of `context or []`", ok, detail={"test": unparse(t), "x arguments": sorted(xs)})
    ctx.floor(rule, "term-list normalisations outside the encoder", n, 3)


def _memo_iter(tree):
    from ..mutate import find_def
    cls = find_def(tree, "SparseDense")
    for st in cls.body:
        if isinstance(st, ast.Assign) and ast.unparse(st.targets[0]) == "__slots__":
            st.value = ast.parse("('_values','_length','_sorted')", mode="eval").body
    init = find_def(tree, "SparseDense.__init__")
    init.body.append(ast.parse("self._sorted = None").body[0])
    it = find_def(tree, "SparseDense.__iter__")
    for st in it.body:
        if isinstance(st, ast.Assign) and ast.unparse(st.targets[0]) == "sort":
            i = it.body.index(st)
            it.body[i:i + 1] = ast.parse("sort = self._sorted\nif sort is None: sort = self._sorted = sorted(self._values.items())").body
            break
    else:
        raise M.TargetMissing("sort = sorted(...) in SparseDense.__iter__")
    si = find_def(tree, "SparseDense.__setitem__")
    si.body.insert(len(si.body) - 1, ast.parse("if key not in self._values: self._sorted = None").body[0])


def c13_add_method(tree):
    from . import c13
    return c13._add_method(tree, "Dense_", "def __bool__(self):\n    return bool(self._row)")


CONTROLS = [
    ("LinTS de-duplicates its stripped terms through a set", "coba/learners/lints.py", M.replace_expr("LinTSLearner._initialize", "list(dict.fromkeys(filter(None, [f.replace('x', '') if isinstance(f, str) else f for f in self._X])))", "list(set(filter(None, [f.replace('x', '') if isinstance(f, str) else f for f in self._X])))"), "C20.R12"),
    ("EncodeSparse.items shrinks the shared default set", "coba/pipes/rows.py", M.replace_stmt("EncodeSparse.items", M.text_has("t2 ="), "nsp = self._nsp\nnsp -= self._row.keys()\nt2 = tuple(((k, self._enc[k]('0')) for k in nsp))"), "C20.R10"),
    ("Dense_ is falsy when what it wraps is", "coba/primitives.py", lambda tree: c13_add_method(tree), "C20.R11"),
    ("HeadDense measures its header map", "coba/pipes/rows.py", M.replace_expr("HeadDense.__len__", "len(self._row)", "len(self.headers)"), "C20.R9"),
    ("a string of terms is split into characters", "coba/environments/synthetics.py", M.replace_expr("LinearSyntheticSimulation.__init__", "[reward_features]", "list(reward_features)"), "C20.R8"),
    ("LinUCB strips x terms only for None", "coba/learners/linucb.py", M.replace_expr("LinUCBLearner._initialize", "not context", "context is None"), "C20.R8"),
    ("monomials counted by a formula", "coba/environments/synthetics.py", M.replace_expr("LinearSyntheticSimulation.read", "len(feats_encoder.encode(x=[1] * n_context_features, a=[1] * n_action_features))",
        "sum(__import__('math').comb(n_context_features, f.count('x')) * __import__('math').comb(n_action_features, f.count('a')) for f in reward_features)"), "C20.R7"),
    ("SparseDense memoises its sorted items", "coba/pipes/rows.py", _memo_iter, "C20.R6"),
    ("term table keyed by the full interaction list", ENC, M.replace_expr("InteractionsEncoder.__init__", "zip(str_interactions, map(OrderedDict, map(Counter, str_interactions)))", "zip(interactions, map(OrderedDict, map(Counter, str_interactions)))"), "C20.R2"),
    ("encoder rebuilt from its namespace letters on copy", ENC, _lossy_reduce, "C20.R5"),
    ("_pows remembers its last argument", ENC, _memo_pows, "C20.R5"),
    ("Sparse registers dict only", "coba/primitives.py", lambda tree: __import__("cobastatic.rules.c16", fromlist=["_reg_dict"])._reg_dict(tree), "C20.R5"),
    ("offset table of the published version", ENC, M.replace_expr("InteractionsEncoder._pows", "list(accumulate([1] + [n_prev - s + 1 for s in starts[:-1]]))", "list(accumulate(starts[:1] + starts[-1:] + starts[1:-1]))"), "C20.R4"),
    ("falsy scalar treated as missing", ENC, M.replace_expr("InteractionsEncoder.encode", "v if v is not None else []", "v or []"), "C20.R3"),
    ("absent namespace not completed", ENC, M.replace_stmt("InteractionsEncoder.encode", lambda st: isinstance(st, ast.For) and "setdefault" in ast.unparse(st), "pass"), "C20.R1"),
    ("string arm of _pows iterates differently", ENC, M.replace_expr("InteractionsEncoder._pows", "[v + t for v, s in zip(values, starts) for t in terms[d][s - 1:]]",
                                                                      "[v + t for v, s in zip(values, starts) for t in terms[d][s:]]"), "C20.R2"),
    ("values crossed over other terms", ENC, M.replace_expr("InteractionsEncoder.encode", "[cross(val_pows, cross_pow) for cross_pow in self._cross_pows.values()]",
                                                             "[cross(val_pows, cross_pow) for cross_pow in reversed(self._cross_pows.values())]", nth=0), "C20.R2"),
    ("keys from another dict", ENC, M.replace_expr("InteractionsEncoder.encode", "list(ns_values[ns].keys())", "list(ns_raw_values[ns].keys())"), "C20.R2"),
]
