"""C14 -- supervised data -> bandit problem (DESIGN.md 5/C14).

Decided: the plumbing of SupervisedSimulation.read / __init__ (one interaction per example in
order, context/label of the same row, action set from the labels of all rows, label-type ->
reward-class table, take = seeded reservoir placed before the label split).
Not decided: reward values (Jaccard, L1).
"""
import ast

from ..model import walk_shallow, call_name, is_self_attr, dotted_name, parent, ancestors, enclosing_function, rename_copy
from ..util import canon
from ..util import (has_call, find_calls, assigned_value, const_str, unparse, kw, arg_or_kw, enclosing_stmt,
                    guards_of, call_tail, control_ancestors, alpha)
from .. import mutate as M

TECHNIQUE = 'static analysis: per-arm yield/guard rules (one interaction per row), provenance of context / label / shared action list, label-type -> reward table, structural Jaccard definition, reader yield-guard rule, key-domain agreement of label read and label drop'

EXPLANATION = ("Provenance and table rules over SupervisedSimulation: each row-type arm yields exactly one interaction per row, "
               "unconditionally and in order; context and reward argument come from the same row (feats/label or [0]/[1]); the "
               "action list is built from the labels of all materialised rows, de-duplicated and sorted, and is the same object "
               "in every interaction; label types map r->L1Reward, m->HammingReward, c->BinaryReward; take becomes "
               "Reservoir(take) joined before LabelRows.")
EXPLANATION += ' R7: Jaccard denominator/numerator and list-only unwrapping; R8: LibSVM yields every labelled line; R9: label read and label drop use the same key domain.'
EXPLANATION += " R10: Reservoir draws from a generator created per read; CategoricalEncoder's level list is duplicate-free."

SUP = "coba/environments/supervised.py"


def _roles_read(fn):
    """actual local name -> role name, resolved by what each local is bound to (robust to renaming)"""
    from ..util import bound_names
    m = {}
    peek = [x for x in walk_shallow(fn) if isinstance(x, ast.Assign) and isinstance(x.targets[0], ast.Tuple) and len(x.targets[0].elts) == 2 and has_call(x.value, "peek_first")]
    if peek:
        m[unparse(peek[0].targets[0].elts[0])] = "first"
        m[unparse(peek[0].targets[0].elts[1])] = "rows"
    first = next((k for k, v in m.items() if v == "first"), "first")
    rows = next((k for k, v in m.items() if v == "rows"), "rows")

    def one(pred, role):
        ns = bound_names(fn, pred)
        if ns:
            m[ns[0]] = role
            return ns[0]
        return role

    frt = one(lambda v: isinstance(v, ast.IfExp) and f"hasattr({first}, 'label')" in unparse(v.test), "first_row_type")
    one(lambda v: isinstance(v, ast.IfExp) and unparse(v.body) == f"{first}.label", "first_label")
    one(lambda v: isinstance(v, ast.IfExp) and unparse(v.body) == f"{first}.tipe", "first_label_type")
    one(lambda v: "self._label_type or" in unparse(v), "label_type")
    one(lambda v: isinstance(v, ast.IfExp) and isinstance(v.body, ast.ListComp) and ".label for" in unparse(v.body), "lbls")
    one(lambda v: isinstance(v, ast.Lambda) and "isinstance" in unparse(v) and "list" in unparse(v), "delist")
    one(lambda v: unparse(v) in ("L1Reward", "HammingReward", "BinaryReward"), "reward")
    one(lambda v: unparse(v) == "[]" or (isinstance(v, ast.Call) and call_name(v) == "sorted" and "set(" in unparse(v)), "actions")
    for lp in walk_shallow(fn):
        if isinstance(lp, ast.For) and unparse(lp.iter) == rows and isinstance(lp.target, ast.Name):
            m[lp.target.id] = "row"
    return m


def _roles_init(fn):
    from ..util import bound_names
    m = {}
    for role, pred in (("source", lambda v: unparse(v).startswith("args[0] if len(args) > 0")), ("label_col", lambda v: "'label_col'" in unparse(v)),
                       ("take", lambda v: "'take'" in unparse(v)), ("label_type", lambda v: "'label_type'" in unparse(v))):
        ns = bound_names(fn, pred)
        if ns:
            m[ns[0]] = role
    return m


def run(ctx):
    fn = ctx.fn(SUP, "SupervisedSimulation.read")
    init = ctx.fn(SUP, "SupervisedSimulation.__init__")
    fn = rename_copy(fn, _roles_read(fn))
    init = rename_copy(init, _roles_init(init))
    r1_r2(ctx, fn)
    r3_actions(ctx, fn)
    r4_table(ctx, fn)
    r5_take(ctx, init)
    from . import c04
    fam = {k: c for k, c in c04.family(ctx).items() if c.name == "SupervisedSimulation"}
    c04.r1_iterator_escape(ctx, fam, rule="C14.R6", only={"SupervisedSimulation"})
    ctx.rules["C14.R6"] = "the example source kept by SupervisedSimulation is re-iterable (every read yields every example again)"
    r7_reward_definitions(ctx, fn)
    r8_reader_rows(ctx)
    r9_label_key_domain(ctx)
    r10_take_and_levels(ctx)
    r11_label_position(ctx)
    # "its context is exactly the example's features without the label", also when a feature is read by header name
    from . import c13
    c13.r16_position_changing_views(ctx, rule="C14.R12")
    # "regression data [is rewarded] by the negative absolute error" of the label AS GIVEN
    from . import c06
    c06.r15_reward_constructors(ctx, rule="C14.R13")
    # "the same holds end-to-end when the data comes from a CSV ... source": cells arrive as written (a reader-side default such as skipinitialspace merges the labels 'a' and ' a')
    from . import c12
    c12.r7_csv_dialect(ctx, rule="C14.R14")
    r15_constructor_forwards(ctx)
    r16_source_adds_no_dialect(ctx)
    r17_readers_stateless(ctx)
    ctx.rule("C14.R18", "'its context is exactly the example's features without the label', also by name: the header map a labelled row's feats show is computed from the wrapped positions (C13.R12)")
    c13.header_renumbering(ctx, "C14.R18")


def _final_loops(fn):
    return [x for x in walk_shallow(fn) if isinstance(x, ast.For) and unparse(x.iter) == "rows" and any(isinstance(y, ast.Yield) for y in walk_shallow(x))]


def r1_r2(ctx, fn):
    ctx.rule("C14.R1", "each row-type arm yields exactly one interaction per row, unconditionally, in row order")
    ctx.rule("C14.R2", "context is the row's features, the reward is built from the same row's label, actions is one shared object")
    loops = _final_loops(fn)
    ctx.floor("C14.R1", "yielding loops over rows", len(loops), 2)
    arms = set()
    for lp in loops:
        row = unparse(lp.target)
        ys = [y for y in walk_shallow(lp) if isinstance(y, (ast.Yield, ast.YieldFrom))]
        ok = len(ys) == 1 and isinstance(ys[0], ast.Yield) and len(lp.body) == 1 and isinstance(lp.body[0], ast.Expr) and lp.body[0].value is ys[0] \
            and not any(isinstance(x, (ast.Break, ast.Continue)) for x in walk_shallow(lp))
        ctx.ob("C14.R1", SUP, "SupervisedSimulation.read", lp, "one unconditional yield per row", ok)
        g = [(unparse(t), p) for t, p in guards_of(lp, fn)]
        labeled = ("first_row_type == 0", True) in g
        pair = ("first_row_type == 0", False) in g
        arms.add("labeled" if labeled else "pair" if pair else "?")
        d = ys[0].value if ys and isinstance(ys[0].value, ast.Dict) else None
        if d is None:
            ctx.ob("C14.R2", SUP, "SupervisedSimulation.read", lp, "the interaction is a dict literal with context/actions/rewards", False)
            continue
        items = {const_str(k): unparse(v) for k, v in zip(d.keys, d.values)}
        want_ctx = f"{row}.feats" if labeled else f"{row}[0]"
        want_lbl = f"{row}.label" if labeled else f"{row}[1]"
        ctx.ob("C14.R2", SUP, "SupervisedSimulation.read", ys[0], "context is exactly the row's features (label excluded)", items.get("context") == want_ctx,
               detail={"context": items.get("context"), "want": want_ctx}, stmt=f"context ({'labeled' if labeled else 'pair'} rows)")
        ctx.ob("C14.R2", SUP, "SupervisedSimulation.read", ys[0], "the reward object is built from the same row's label", items.get("rewards") == f"reward({want_lbl})",
               detail={"rewards": items.get("rewards"), "want": f"reward({want_lbl})"}, stmt=f"rewards ({'labeled' if labeled else 'pair'} rows)")
        ctx.ob("C14.R2", SUP, "SupervisedSimulation.read", ys[0], "every interaction offers the one shared action list", items.get("actions") == "actions" and set(items) == {"context", "actions", "rewards"},
               stmt=f"actions ({'labeled' if labeled else 'pair'} rows)")
    ctx.ob("C14.R1", SUP, "SupervisedSimulation.read", fn, "both row types (LabelRows rows and (x,y) pairs) have a yielding arm", arms == {"labeled", "pair"}, stmt="row-type arms")
    frt = assigned_value(fn, "first_row_type")
    ctx.ob("C14.R1", SUP, "SupervisedSimulation.read", fn, "the row type is decided by the presence of .label on the first row",
           len(frt) == 1 and unparse(frt[0]) == "0 if hasattr(first, 'label') else 1", stmt="first_row_type")
    # `actions` is not re-bound inside the yielding loops
    reb = [x for lp in loops for x in walk_shallow(lp) if isinstance(x, ast.Name) and x.id == "actions" and isinstance(x.ctx, ast.Store)]
    ctx.ob("C14.R2", SUP, "SupervisedSimulation.read", fn, "the action list is fixed before the first interaction is produced", not reb, stmt="actions fixed")


def r3_actions(ctx, fn):
    ctx.rule("C14.R3", "for generic classification/multi-label data the action list is sorted(set(labels of ALL rows)): rows are materialised, not sliced")
    mat = [x for x in walk_shallow(fn) if isinstance(x, ast.Assign) and unparse(x.targets[0]) == "rows" and unparse(x.value) == "list(rows)"]
    lb = assigned_value(fn, "lbls")
    ok = len(mat) == 1 and len(lb) == 1 and alpha(lb[0]) == alpha("[r.label for r in rows] if first_row_type == 0 else [r[1] for r in rows]")
    ctx.ob("C14.R3", SUP, "SupervisedSimulation.read", mat[0] if mat else fn, "labels are collected from every row of the fully materialised data", ok,
           detail={"lbls": [unparse(v) for v in lb]}, stmt="labels of all rows")
    acts = [v for v in assigned_value(fn, "actions")]
    forms = sorted(alpha(v) for v in acts)
    want = sorted(alpha(w) for w in ["[]", "[Categorical(l, first_label.levels) for l in first_label.levels]", "sorted(set(list(chain(*lbls))))", "sorted(set(map(delist, lbls)))"])
    ctx.ob("C14.R3", SUP, "SupervisedSimulation.read", fn, "action list per label kind: [] (regression), all levels (categorical), sorted distinct labels (otherwise)",
           forms == want, detail={"actions": forms}, stmt="action list forms")
    for v in acts:
        if "lbls" in unparse(v):
            ok = isinstance(v, ast.Call) and call_name(v) == "sorted" and isinstance(v.args[0], ast.Call) and call_name(v.args[0]) == "set"
            ctx.ob("C14.R3", SUP, "SupervisedSimulation.read", v, "labels are de-duplicated and put in a fixed (sorted) order", ok)
    n_act = [x for x in walk_shallow(fn) if isinstance(x, ast.Assign) and unparse(x.targets[0]) == "self._params['n_actions']"]
    ctx.ob("C14.R3", SUP, "SupervisedSimulation.read", fn, "n_actions reports the size of that list", sorted(unparse(x.value) for x in n_act) == ["float('inf')", "len(actions)", "len(actions)"],
           stmt="n_actions")


def r4_table(ctx, fn):
    ctx.rule("C14.R4", "label type table: 'r' -> L1Reward, 'm' -> HammingReward, 'c' -> BinaryReward (categorical and generic)")
    table = {}
    for x in walk_shallow(fn):
        if isinstance(x, ast.Assign) and unparse(x.targets[0]) == "reward":
            g = [unparse(t) + ("" if p else " [neg]") for t, p in guards_of(x, fn)]
            table[" & ".join(g)] = unparse(x.value)
    ok = False
    vals = list(table.items())
    by = {}
    for k, v in vals:
        if "label_type == 'r'" in k and "[neg]" not in k.split("label_type == 'r'")[1][:6]:
            by["r"] = v
        elif "label_type == 'm'" in k and "label_type == 'm' [neg]" not in k:
            by["m"] = v
        elif "isinstance(first_label, Categorical)" in k and "[neg]" not in k.split("Categorical)")[1][:6] and "label_type == 'r' [neg]" in k:
            by["c-cat"] = v
        else:
            by["c"] = v
    want = {"r": "L1Reward", "m": "HammingReward", "c-cat": "BinaryReward", "c": "lambda l: BinaryReward(delist(l))"}
    by_a = {k: alpha(v) for k, v in by.items()}
    ctx.ob("C14.R4", SUP, "SupervisedSimulation.read", fn, "each label type selects its documented reward class", by_a == {k: alpha(v) for k, v in want.items()}, detail={"table": by}, stmt="reward table")
    lt = [unparse(v) for v in assigned_value(fn, "label_type")]
    ok = "label_type.lower()" in lt and any("self._label_type or" in v for v in lt)
    ctx.ob("C14.R4", SUP, "SupervisedSimulation.read", fn, "an explicit label_type wins over inference and is case-normalised", ok, detail={"label_type": lt}, stmt="label_type resolution")


def r5_take(ctx, init):
    ctx.rule("C14.R5", "take becomes Reservoir(take) (default seed) joined to the source before LabelRows")
    src = [x for x in walk_shallow(init) if isinstance(x, ast.Assign) and unparse(x.targets[0]) == "source" and "Pipes.join" in unparse(x.value)]
    res = [x for x in src if "Reservoir(" in unparse(x.value)]
    lab = [x for x in src if "LabelRows(" in unparse(x.value)]
    ok = len(res) == 1 and len(lab) == 1 and res[0].lineno < lab[0].lineno and unparse(res[0].value) == "Pipes.join(source, Reservoir(take))" \
        and unparse(lab[0].value) == "Pipes.join(source, LabelRows(label_col, label_type))"
    ctx.ob("C14.R5", SUP, "SupervisedSimulation.__init__", res[0] if res else init, "the reservoir sample is drawn from whole rows, before features and label are split", ok, stmt="take before label split")
    for x, cond in ((res, "take is not None"), (lab, "label_col is not None")):
        if x:
            g = [unparse(t) for t, p in guards_of(x[0], init) if p]
            ctx.ob("C14.R5", SUP, "SupervisedSimulation.__init__", x[0], f"applied exactly when `{cond}`", cond in g, stmt="guard " + cond)
    st = [x for x in walk_shallow(init) if isinstance(x, ast.Assign) and any(is_self_attr(t, "_source") for t in x.targets)]
    ctx.ob("C14.R5", SUP, "SupervisedSimulation.__init__", st[0] if st else init, "read() consumes the source assembled here", len(st) == 1 and unparse(st[0].value) == "source", stmt="self._source")
    rd = ctx.fn(SUP, "SupervisedSimulation.read")
    ok = any(isinstance(c, ast.Call) and unparse(c) == "peek_first(self._source.read())" for c in walk_shallow(rd))
    ctx.ob("C14.R5", SUP, "SupervisedSimulation.read", rd, "read() starts from self._source.read()", ok, stmt="read source")


PRIM = "coba/primitives.py"
RDR = "coba/pipes/readers.py"
ENVC = "coba/environments/core.py"


def r16_source_adds_no_dialect(ctx, rule="C14.R16"):
    """C14.R14 one level up: CsvSource hands its caller's dialect options to CsvReader untouched (a source-side default such as skipinitialspace changes the cells as well)."""
    ctx.rule(rule, "CsvSource.__init__ builds its CsvReader with the caller's **dialect as given: the keyword mapping is forwarded with ** and is neither written to "
                   "(setdefault / update / item assignment) nor re-bound before the call")
    fn = ctx.fn(SUP, "CsvSource.__init__")
    KW = fn.args.kwarg.arg if fn.args.kwarg else None
    calls = [c for c in ast.walk(fn) if isinstance(c, ast.Call) and call_name(c) == "CsvReader"]
    ctx.floor(rule, "CsvReader constructions in CsvSource.__init__", len(calls), 1)
    touched = [x for x in ast.walk(fn) if (isinstance(x, ast.Call) and isinstance(x.func, ast.Attribute) and isinstance(x.func.value, ast.Name) and x.func.value.id == KW and x.func.attr in ("setdefault", "update", "pop", "popitem", "clear"))
               or (isinstance(x, (ast.Assign, ast.AugAssign, ast.Delete)) and any((isinstance(t, ast.Subscript) and isinstance(t.value, ast.Name) and t.value.id == KW) or (isinstance(t, ast.Name) and t.id == KW)
                                                                                 for t in (x.targets if not isinstance(x, ast.AugAssign) else [x.target])))]
    for c in calls:
        fwd = [(k.arg, unparse(k.value)) for k in c.keywords if k.arg is None] == [(None, KW)] and not [k for k in c.keywords if k.arg in ("skipinitialspace", "quotechar", "escapechar", "doublequote", "quoting", "strict")]
        ctx.ob(rule, SUP, "CsvSource.__init__", c, "the reader parses with exactly the dialect the caller gave", KW is not None and fwd and not touched, detail={"call": unparse(c), "writes": [unparse(t)[:60] for t in touched]})


def r17_readers_stateless(ctx, rule="C14.R17"):
    """'the number and order of interactions equal those of the examples' on EVERY read: a source is read once per evaluation, through the same reader object."""
    ctx.rule(rule, "the file readers that live as long as their source (every class of pipes/readers.py that is not built inside a filter() / read() call) keep nothing between "
                   "reads: outside __init__ they store no attribute on self, and they declare no class-level placeholder that a read fills in")
    mod = ctx.model.modules[RDR]
    classes = [c for c in ast.walk(mod.tree) if isinstance(c, ast.ClassDef)]
    per_read = set()
    for c in classes:   # classes constructed only inside filter()/read() bodies are per-read parser state (ArffLineReader)
        sites = [k for k in ast.walk(mod.tree) if isinstance(k, ast.Call) and call_name(k) == c.name]
        from ..model import enclosing_function
        if sites and all((enclosing_function(k) is not None and enclosing_function(k).name in ("filter", "read")) for k in sites):
            per_read.add(c.name)
    n = 0
    for c in classes:
        if c.name in per_read or not any(isinstance(f, ast.FunctionDef) and f.name == "filter" for f in c.body):
            continue
        n += 1
        writes = [x for f in c.body if isinstance(f, ast.FunctionDef) and f.name != "__init__" for x in ast.walk(f)
                  if isinstance(x, (ast.Assign, ast.AugAssign)) and any(is_self_attr(t) or (isinstance(t, ast.Subscript) and is_self_attr(t.value)) for t in (x.targets if isinstance(x, ast.Assign) else [x.target]))]
        ctx.ob(rule, RDR, c.name, (writes or [c])[0], "the reader stores nothing on itself while it reads", not writes, detail={"stores": [unparse(w)[:60] for w in writes]}, stmt=f"{c.name}: no state between reads")
    ctx.floor(rule, "long-lived reader classes", n, 3)
    ctx.note(f"{rule}: per-read parser classes (built inside filter/read): {sorted(per_read)}")


def r15_constructor_forwards(ctx, rule="C14.R15"):
    """`take` has to reach SupervisedSimulation: there the sample is drawn BEFORE the distinct labels are collected, so the action set is the label set of the
    sample.  A wrapper that keeps `take` back and samples the finished simulation offers every label of the whole file."""
    ctx.rule(rule, "Environments.from_supervised hands its arguments to SupervisedSimulation as given: the call forwards the wrapper's own *args and **kwargs, neither of which is "
                   "re-bound, popped from or sliced before the call, and nothing is applied to the simulation afterwards")
    fn = ctx.fn(ENVC, "Environments.from_supervised")
    VA, KW = (fn.args.vararg.arg if fn.args.vararg else None), (fn.args.kwarg.arg if fn.args.kwarg else None)
    calls = [c for c in ast.walk(fn) if isinstance(c, ast.Call) and call_name(c) == "SupervisedSimulation"]
    ctx.floor(rule, "SupervisedSimulation(...) constructions in Environments.from_supervised", len(calls), 1)
    touched = [x for x in ast.walk(fn) if (isinstance(x, (ast.Assign, ast.AugAssign, ast.Delete)) and any(isinstance(n_, ast.Name) and n_.id in (VA, KW) and isinstance(n_.ctx, (ast.Store, ast.Del))
                                                                                                             for t in (x.targets if not isinstance(x, ast.AugAssign) else [x.target]) for n_ in ast.walk(t)))
               or (isinstance(x, ast.Call) and isinstance(x.func, ast.Attribute) and isinstance(x.func.value, ast.Name) and x.func.value.id in (VA, KW) and x.func.attr in ("pop", "popitem", "clear", "update", "setdefault"))
               or (isinstance(x, (ast.Assign, ast.Delete)) and any(isinstance(t, ast.Subscript) and isinstance(t.value, ast.Name) and t.value.id in (VA, KW) for t in x.targets))]
    for c in calls:
        fwd = [unparse(a) for a in c.args] == [f"*{VA}"] and [(k.arg, unparse(k.value)) for k in c.keywords] == [(None, KW)]
        ctx.ob(rule, ENVC, "Environments.from_supervised", c, "SupervisedSimulation receives the wrapper's *args and **kwargs unchanged", fwd and not touched,
               detail={"call": unparse(c), "rebinds": [unparse(t)[:60] for t in touched]})
    rets = [r for r in ast.walk(fn) if isinstance(r, ast.Return) and r.value is not None]
    post = [r for r in rets if any(isinstance(c, ast.Call) and isinstance(c.func, ast.Attribute) and c.func.attr in ("reservoir", "take", "filter", "slice", "shuffle", "where") for c in ast.walk(r.value))]
    ctx.ob(rule, ENVC, "Environments.from_supervised", (post or rets or [fn])[0], "the environments are returned as built (no sampling or other filter applied behind the simulation)", not post, stmt="from_supervised returns as built")


def r7_reward_definitions(ctx, fn):
    ctx.rule("C14.R7", "multi-label reward is the Jaccard overlap |chosen & true| / |chosen | true| with |A|B| = |A|+|B|-|A&B| counted against the true label "
                       "set; in the generic classification arm only a list-valued cell is unwrapped to its single label (a tuple is a label in its own right)")
    call = ctx.fn(PRIM, "HammingReward.__call__")
    rets = [x for x in walk_shallow(call) if isinstance(x, ast.Assign) and isinstance(x.value, ast.BinOp) and isinstance(x.value.op, ast.Div)]
    ctx.floor("C14.R7", "quotient in HammingReward.__call__", len(rets), 1)
    q = rets[0].value
    num, den = unparse(q.left), q.right
    den_e = assigned_value(call, den.id)[0] if isinstance(den, ast.Name) and assigned_value(call, den.id) else den
    true_names = {"self._argmax"} | {t.id for x in walk_shallow(call) if isinstance(x, ast.Assign) and unparse(x.value) == "self._argmax" for t in x.targets if isinstance(t, ast.Name)}
    # |A|+|B|-n  in any order of the two lens
    okd = False
    if isinstance(den_e, ast.BinOp) and isinstance(den_e.op, ast.Sub) and unparse(den_e.right) == num and isinstance(den_e.left, ast.BinOp) and isinstance(den_e.left.op, ast.Add):
        lens = [den_e.left.left, den_e.left.right]
        if all(isinstance(l, ast.Call) and call_name(l) == "len" and len(l.args) == 1 for l in lens):
            subj = {unparse(l.args[0]) for l in lens}
            okd = len(subj) == 2 and len(subj & true_names) == 1
    if isinstance(den_e, ast.Call) and call_name(den_e) == "len" and any(isinstance(x, ast.BinOp) and isinstance(x.op, ast.BitOr) for x in ast.walk(den_e)):
        okd = True
    ctx.ob("C14.R7", PRIM, "HammingReward.__call__", rets[0], "the denominator is the size of the union: len(true) + len(chosen) - intersection", okd, detail={"denominator": unparse(den_e)}, stmt="jaccard denominator")
    incs = [x for x in ast.walk(call) if isinstance(x, ast.AugAssign) and unparse(x.target) == num and isinstance(x.op, ast.Add)]
    oki = bool(incs) and all(isinstance(i.value, ast.Compare) and isinstance(i.value.ops[0], ast.In) and unparse(i.value.comparators[0]) in true_names for i in incs)
    loop_ok = all(any(isinstance(a, ast.For) and unparse(a.target) == unparse(i.value.left) for a in ancestors(i)) for i in incs) if oki else False
    ctx.ob("C14.R7", PRIM, "HammingReward.__call__", incs[0] if incs else call, "the numerator counts the chosen labels that are in the true label set", oki and loop_ok, stmt="jaccard numerator")
    # a multi-label simulation offers single labels: HammingReward turns a non-list action into the singleton set before it iterates it
    loops_h = [x for x in ast.walk(call) if isinstance(x, ast.For)]
    CMP = unparse(loops_h[0].iter) if loops_h else None
    wraps = [st for st in walk_shallow(call) if isinstance(st, ast.If) and CMP and any(isinstance(k, ast.Call) and call_name(k) == "isinstance" and unparse(k.args[0]) == CMP for k in ast.walk(st.test))
             and isinstance(st.test, ast.UnaryOp) and any(isinstance(b, ast.Assign) and unparse(b.targets[0]) == CMP and unparse(b.value) == f"[{CMP}]" for b in st.body)]
    ctx.ob("C14.R7", PRIM, "HammingReward.__call__", (wraps or [call])[0], "an action that is a single label (not a list/tuple) is scored as the one-element set", bool(wraps) and bool(loops_h) and wraps[0].lineno < loops_h[0].lineno,
           stmt="single label as singleton")
    # BinaryReward: value iff the action EQUALS the label (value equality -- two Categoricals with the same level but different level lists are the same label)
    bcall = ctx.fn(PRIM, "BinaryReward.__call__")
    arg_names = {"self._argmax"} | {t.id for x in walk_shallow(bcall) if isinstance(x, ast.Assign) and unparse(x.value) == "self._argmax" for t in x.targets if isinstance(t, ast.Name)}
    ifx = [x for x in ast.walk(bcall) if isinstance(x, ast.IfExp) and unparse(x.body) == "self._value"]
    ctx.floor("C14.R7", "value-or-zero expression in BinaryReward.__call__", len(ifx), 1)
    for x in ifx:
        t = x.test
        hops = 0
        while isinstance(t, ast.Name) and hops < 3:
            ds = assigned_value(bcall, t.id)
            t = ds[0] if len(ds) == 1 else None
            hops += 1
        ok = isinstance(t, ast.Compare) and len(t.ops) == 1 and isinstance(t.ops[0], ast.Eq) and len({unparse(t.left), unparse(t.comparators[0])} & arg_names) == 1 \
            and not any(isinstance(y, ast.Attribute) and y.attr in ("as_int", "as_onehot") for y in ast.walk(t)) and unparse(x.orelse) == "0"
        ctx.ob("C14.R7", PRIM, "BinaryReward.__call__", x, "the reward is the value exactly when the action equals the label (one `==` against the stored label, else 0)", ok,
               detail={"test": unparse(t) if t is not None else "several definitions"}, stmt="binary reward by equality")
    # delist
    dl = [v for v in assigned_value(fn, "delist")] or [x.value for x in ast.walk(fn) if isinstance(x, ast.Assign) and isinstance(x.value, ast.Lambda) and "[0]" in unparse(x.value)]
    ctx.floor("C14.R7", "single-label unwrapping in the generic classification arm", len(dl), 1)
    for v in dl:
        tests = [c for c in ast.walk(v) if isinstance(c, ast.Call) and call_name(c) == "isinstance"]
        ok = len(tests) == 1 and unparse(tests[0].args[1]) == "list"
        ctx.ob("C14.R7", SUP, "SupervisedSimulation.read", v, "only a list-valued label cell is unwrapped to its element (tuples, strings, numbers are labels as they are)", ok,
               detail={"test": unparse(tests[0]) if tests else None}, stmt="delist type")


def r8_reader_rows(ctx):
    ctx.rule("C14.R8", "LibsvmReader yields one (features, labels) example for every labelled line: the yield is guarded by the label test alone "
                       "(a line whose first token is empty or a feature), never by the features; ManikReader only skips the meta line")
    fn = ctx.fn(RDR, "LibsvmReader.filter")
    ys = [y for y in walk_shallow(fn) if isinstance(y, ast.Yield)]
    ctx.floor("C14.R8", "yields in LibsvmReader.filter", len(ys), 1)
    for y in ys:
        conj = []
        for t, pol in guards_of(y, fn):
            parts = t.values if isinstance(t, ast.BoolOp) and isinstance(t.op, ast.And) and pol else [t]
            conj += [(p_, pol) for p_ in parts]

        def about_label(e):
            if isinstance(e, ast.UnaryOp) and isinstance(e.op, ast.Not):
                return about_label(e.operand)
            if isinstance(e, ast.Name):
                vs = assigned_value(fn, e.id)
                if vs and all(isinstance(v, ast.Call) and call_tail(v) == "split" for v in vs):
                    return True   # emptiness of the token list: a line without tokens has no label token
                return bool(vs) and all(about_label(v) for v in vs)
            if isinstance(e, ast.BoolOp):
                return all(about_label(v) for v in e.values)
            if isinstance(e, ast.Compare) and len(e.ops) == 1:
                txt = unparse(e)
                return (isinstance(e.ops[0], ast.In) and const_str(e.left) == ":") or (isinstance(e.ops[0], (ast.Eq, ast.NotEq)) and "''" in txt)
            return False
        bad = [unparse(c) for c, _ in conj if not about_label(c)]
        ctx.ob("C14.R8", RDR, "LibsvmReader.filter", y, "the example is yielded whenever the line has a label (no further condition)", bool(conj) and not bad,
               detail={"guards": [unparse(c) for c, _ in conj], "not about the label": bad})
    lp = [x for x in walk_shallow(fn) if isinstance(x, ast.For)]
    ok = len(lp) == 1 and unparse(lp[0].iter) in ("filter(None, lines)", "lines")
    ctx.ob("C14.R8", RDR, "LibsvmReader.filter", lp[0] if lp else fn, "every non-empty line is considered, in order", ok, stmt="line loop")
    mk = ctx.fn(RDR, "ManikReader.filter")
    rets = [r for r in walk_shallow(mk) if isinstance(r, ast.Return)]
    ok = len(rets) == 1 and unparse(rets[0].value) == "LibsvmReader().filter(islice(lines, 1, None))"
    ctx.ob("C14.R8", RDR, "ManikReader.filter", rets[0] if rets else mk, "Manik data is the LibSVM body after exactly one meta line", ok, stmt="manik skip")


ROWS = "coba/pipes/rows.py"


def r10_take_and_levels(ctx):
    ctx.rule("C14.R10", "the seeded reservoir sample behind `take` is the same on every read (Reservoir draws from a generator created per filter() call from its seed); "
                        "the class list of a nominal attribute, which becomes the action set, is duplicate-free (CategoricalEncoder de-duplicates its levels)")
    from . import c04
    PFL = "coba/pipes/filters.py"
    fam = {k: c for k, c in c04.family(ctx).items() if c.name == "Reservoir" and c.rel == PFL}
    c04.r4_fresh_rng(ctx, fam, rule="C14.R10", only={"Reservoir"})
    flt = ctx.fn(PFL, "Reservoir.filter")
    made = [c for c in walk_shallow(flt) if isinstance(c, ast.Call) and call_name(c) == "CobaRandom"]
    ctx.ob("C14.R10", PFL, "Reservoir.filter", made[0] if made else flt, "Reservoir creates its generator inside filter() from self._seed", len(made) == 1 and [unparse(a) for a in made[0].args] == ["self._seed"],
           stmt="Reservoir generator per read")
    ENCM = "coba/encodings.py"
    init = ctx.fn(ENCM, "CategoricalEncoder.__init__")
    P = init.args.args[1].arg
    cats = [c for c in ast.walk(init) if isinstance(c, ast.Call) and call_name(c) == "Categorical" and len(c.args) == 2]
    ctx.floor("C14.R10", "Categorical(...) constructions in CategoricalEncoder.__init__", len(cats), 1)
    for c in cats:
        lv = c.args[1]
        srcs = [lv] if not isinstance(lv, ast.Name) else ([v for v in assigned_value(init, lv.id)] + ([ast.Name(id=lv.id)] if lv.id == P else []))
        # every way the levels can be bound is either set-derived or guarded by `len(x) == len(set(x))`
        dedup_rebind = [st for st in ast.walk(init) if isinstance(st, ast.If) and "len(" in unparse(st.test) and "set" in unparse(st) and
                        any(isinstance(b, ast.Assign) and isinstance(b.targets[0], ast.Name) and b.targets[0].id == (lv.id if isinstance(lv, ast.Name) else "") and "set" in unparse(b.value) + unparse(st.test) for b in st.body)]
        direct = any(isinstance(v, ast.Call) and ("set(" in unparse(v) or "dict.fromkeys" in unparse(v)) for v in srcs if not isinstance(v, ast.Name))
        ctx.ob("C14.R10", ENCM, "CategoricalEncoder.__init__", c, "the level list handed to every Categorical is free of duplicates (set-derived, or re-bound to a set-derived list when it has duplicates)",
               bool(dedup_rebind) or (direct and not any(isinstance(v, ast.Name) for v in srcs)), detail={"levels": unparse(lv)}, stmt="levels de-duplicated")


def r11_label_position(ctx, rule="C14.R11"):
    """'all label columns (by index or header)': the parts of a labelled dense row (label = row[ind], feats = DropOne(row, ind)) do position arithmetic
    (`key >= ind`, islice(row, ind)) that is only right for a position counted from the front."""
    ctx.rule(rule, "LabelRows hands LabelDense a position counted from the front: a negative label index is normalised (ind += len(first)) before the labelled rows are built, "
                   "because DropOne compares and slices with it")
    fn = ctx.fn(ROWS, "LabelRows.filter")
    uses = [c for c in ast.walk(fn) if isinstance(c, ast.Call) and any(unparse(a) == "LabelDense" or (isinstance(a, ast.Name) and a.id == "LabelDense") for a in [c.func] + list(c.args))]
    ctx.floor(rule, "constructions of LabelDense in LabelRows.filter", len(uses), 1)
    for c in uses:
        inds = [a.args[0].id for a in c.args if isinstance(a, ast.Call) and call_name(a) == "repeat" and a.args and isinstance(a.args[0], ast.Name)][:1] or \
               [a.id for a in c.args[1:2] if isinstance(a, ast.Name)]
        IND = inds[0] if inds else None
        norm = [st for st in walk_shallow(fn) if isinstance(st, ast.If) and IND and canon(unparse(st.test)) == canon(f"{IND} < 0") and
                any(isinstance(b, ast.AugAssign) and unparse(b.target) == IND and isinstance(b.op, ast.Add) and unparse(b.value).startswith("len(") for b in st.body)]
        ctx.ob(rule, ROWS, "LabelRows.filter", c, "the label position reaching LabelDense was normalised to a position from the front", bool(norm) and norm[0].lineno < c.lineno,
               detail={"position variable": IND})
    d1 = ctx.fn(ROWS, "DropOne.__getitem__")
    arith = any(isinstance(x, ast.Compare) and "self._ind" in unparse(x) and isinstance(x.ops[0], (ast.GtE, ast.Gt, ast.Lt, ast.LtE)) for x in ast.walk(d1))
    ctx.note(f"{rule}: DropOne compares the access key with its index: {arith}")


def r9_label_key_domain(ctx):
    """LabelSparse reads the label with row[key] and removes it with DropSparse(row, {key}), which compares `key` against row.keys().
    Both agree only if every key row[...] accepts is a key row.keys() reports."""
    ctx.rule("C14.R9", "the label is removed from the features by the same key it is read with: for the sparse row classes LabelSparse can wrap, "
                       "__getitem__ accepts only keys from the domain keys() reports (no pass-through of raw column indexes next to header names)")
    n = 0
    for c in ctx.model.subclasses(ctx.model.cls("coba/primitives.py", "Sparse_")):
        if c.rel != ROWS or "keys" not in c.methods or "__getitem__" not in c.methods:
            continue
        keys_fn, gi = c.methods["keys"], c.methods["__getitem__"]
        translated_out = [x for x in ast.walk(keys_fn) if isinstance(x, ast.Attribute) and is_self_attr(x) and x.attr in ("_inv",)]
        if not translated_out:
            continue
        n += 1
        ctx.touch(ROWS, f"{c.name}.__getitem__")
        passthrough = [k for k in ast.walk(gi) if isinstance(k, ast.Call) and call_tail(k) == "get" and len(k.args) == 2 and unparse(k.args[0]) == unparse(k.args[1])
                       and is_self_attr(k.func.value)]
        ctx.ob("C14.R9", ROWS, f"{c.name}.__getitem__", passthrough[0] if passthrough else gi,
               "a key outside the reported (header-name) domain is not silently looked up as a raw column index", not passthrough,
               detail={"keys() translates with": [unparse(x) for x in translated_out][:1], "pass-through": [unparse(k) for k in passthrough]})
    ctx.floor("C14.R9", "sparse row classes whose keys() translates raw keys to header names", n, 1)
    ls = ctx.model.cls(ROWS, "LabelSparse")
    for prop in ("feats", "labeled"):
        f = ls.methods[prop]
        drops = [k for k in walk_shallow(f) if isinstance(k, ast.Call) and call_name(k) == "DropSparse"]
        ok = len(drops) == 1 and unparse(drops[0].args[1]) == "{self._key}" and unparse(drops[0].args[0]) == "self._row"
        ctx.ob("C14.R9", ROWS, f"LabelSparse.{prop}", drops[0] if drops else f, "the features are the row without exactly the label key", ok, stmt=f"LabelSparse.{prop} drop")


CONTROLS = [
    ("DropOne numbers the kept names in the order the map lists them", ROWS, M.replace_stmt("DropOne.headers", lambda st: isinstance(st, ast.Return), "return dict(zip((h for h, i in self._row.headers.items() if i != ind), count()))"), "C14.R18"),
    ("CsvSource adds a dialect default of its own", SUP, M.insert_before("CsvSource.__init__", M.text_has("reader = CsvReader"), "dialect.setdefault('skipinitialspace', True)"), "C14.R16"),
    ("CsvReader remembers the header of its first read", RDR, M.insert_before("CsvReader.filter", lambda st: isinstance(st, ast.If), "self._head_rows = first"), "C14.R17"),
    ("CsvReader drops blanks behind delimiters by default", RDR, M.replace_stmt("CsvReader.__init__", M.text_has("self._dialect ="), "self._dialect = {'skipinitialspace': True, **dialect}"), "C14.R14"),
    ("from_supervised samples the finished simulation", ENVC, M.replace_stmt("Environments.from_supervised", lambda st: isinstance(st, ast.Return),
        "take = kwargs.pop('take', None)\nenvs = Environments(SupervisedSimulation(*args, **kwargs))\nreturn envs if take is None else envs.reservoir(take)"), "C14.R15"),
    ("regression labels coerced to float", PRIM, M.replace_expr("L1Reward.__init__", "argmax if not hasattr(argmax, 'ndim') else argmax.item()", "float(argmax if not hasattr(argmax, 'ndim') else argmax.item())"), "C14.R13"),
    ("HammingReward iterates whatever action it gets", PRIM, M.delete_stmt("HammingReward.__call__", M.text_has("comparable = [comparable]")), "C14.R7"),
    ("negative label positions reach DropOne", ROWS, M.delete_stmt("LabelRows.filter", M.text_has("ind += len(first)")), "C14.R11"),
    ("categorical labels compared by level index", PRIM, M.replace_expr("BinaryReward.__call__", "argmax == comparable", "(argmax.as_int == comparable.as_int if argmax.__class__ is Categorical and comparable.__class__ is Categorical else argmax == comparable)"), "C14.R7"),
    ("levels keep their duplicates", "coba/encodings.py", M.delete_stmt("CategoricalEncoder.__init__", lambda st: isinstance(st, ast.If) and "set_values" in ast.unparse(st.test)), "C14.R10"),
    ("Reservoir keeps its generator", "coba/pipes/filters.py", M.chain(M.insert_after("Reservoir.__init__", M.simple_has("self._seed = seed"), "self._rng = CobaRandom(seed)"),
                                                                      M.replace_expr("Reservoir.filter", "CobaRandom(self._seed)", "self._rng")), "C14.R10"),
    ("union taken as the larger set", PRIM, M.replace_expr("HammingReward.__call__", "len(argmax) + len(comparable) - n_intersect", "max(len(argmax), len(comparable))"), "C14.R7"),
    ("tuple labels unwrapped", SUP, M.replace_expr("SupervisedSimulation.read", "isinstance(l, list)", "isinstance(l, (list, tuple))"), "C14.R7"),
    ("label-only lines dropped", RDR, M.replace_expr("LibsvmReader.filter", "not no_label_line", "len(items) > 1 and (not no_label_line)"), "C14.R8"),
    ("actions from first 100 rows", SUP, M.replace_expr("SupervisedSimulation.read", "[r.label for r in rows]", "[r.label for r in rows[:100]]"), "C14.R3"),
    ("label as context", SUP, M.replace_expr("SupervisedSimulation.read", "row[0]", "row[1]"), "C14.R2"),
    ("skip rows", SUP, M.replace_stmt("SupervisedSimulation.read", M.simple_has("yield {'context': row.feats"), "if row.label is not None:\n    yield {'context': row.feats, 'actions': actions, 'rewards': reward(row.label)}"), "C14.R1"),
    ("hamming for classification", SUP, M.replace_expr("SupervisedSimulation.read", "L1Reward", "HammingReward"), "C14.R4"),
    ("label split before take", SUP, M.swap_stmts("SupervisedSimulation.__init__", M.text_has("if take is not None"), M.text_has("if label_col is not None")), "C14.R5"),
]
