"""C18 -- analysis filters (DESIGN.md 5/C18).

Decided: consistency of the four tables after narrowing (each parameter table is narrowed by its
own id column from the kept triples, in the order the triples are unpacked) and of the
keep/drop/truncate comparisons with the 1-based row index.
Not decided: _grouped_ys, raw_learners, moving_average values.
"""
import ast

from ..model import walk_shallow, call_name, is_self_attr, dotted_name, parent, ancestors, enclosing_function, rename_copy
from ..util import canon
from ..util import (has_call, find_calls, assigned_value, const_str, unparse, kw, arg_or_kw, enclosing_stmt,
                    guards_of, call_tail, control_ancestors)
from .. import mutate as M

TECHNIQUE = 'static analysis: table/id-column agreement of narrowing, grouping-level and strict/non-strict boundary rules, bisect nesting order, reaching definitions (span-1 return), owner agreement of removed-row numbers and viewed table, stage-ordering rule of filter_fin'

EXPLANATION = ("Structural rules over Result._group_p/_global_n/_remove/__init__ and every Result method that narrows a "
               "parameter table: environments/learners/evaluators are narrowed through .where(<own id column>=<the set "
               "unpacked at the matching position of the kept (env,lrn,val) triples>); only groups whose size equals the "
               "number of levels are kept; evaluations shorter than n are dropped (strict <) and longer ones truncated "
               "with index <= n, consistent with the 1-based index written by TransactionResult; _remove nests its "
               "bisects in the order of the interactions index.")
EXPLANATION += ' R2 also: a right-sized group must cover every level; R6: span 1 returns the values as given; R7: removed-row numbers and the viewed table belong to the same Result; R8: pairing is re-applied after evaluations were dropped for their length.'
EXPLANATION += ' R2 also: keep decided per group; R8 also: documented defaults for a missing l / p.'

RES = "coba/results/core.py"
OWN = {"environments": "environment_id", "learners": "learner_id", "evaluators": "evaluator_id"}
ORDER = ["environment_id", "learner_id", "evaluator_id"]


def _roles_tables(fn, m=None):
    from ..util import bound_names
    m = {} if m is None else m
    for t in ("environments", "learners", "evaluators", "interactions"):
        for n in bound_names(fn, lambda v, t=t: isinstance(v, ast.Attribute) and v.attr == t and isinstance(v.value, ast.Name)):
            m[n] = t
    return m


def _roles_group_p(fn):
    from ..util import bound_names
    m = _roles_tables(fn)
    for n in bound_names(fn, lambda v: "self._grouped_ys(" in unparse(v)):
        m[n] = "indexes"
    idx = next((k for k, v in m.items() if v == "indexes"), "indexes")
    for n in bound_names(fn, lambda v: unparse(v) == f"len(set(map(itemgetter(1), {idx})))"):
        m[n] = "n_levels"
    for x in walk_shallow(fn):
        if isinstance(x, ast.Assign) and isinstance(x.targets[0], ast.Tuple) and unparse(x.value) == "([], [], 0, 0)":
            for t, r in zip(x.targets[0].elts, ("to_keep", "to_remove", "n_larger", "n_smaller")):
                m[unparse(t)] = r
        if isinstance(x, ast.For) and "grouper(" in unparse(x.iter) and isinstance(x.target, ast.Tuple) and len(x.target.elts) == 2:
            m[unparse(x.target.elts[1])] = "group"
        if isinstance(x, ast.GeneratorExp) and isinstance(x.elt, ast.Subscript) and isinstance(x.elt.slice, ast.Slice):
            m[unparse(x.generators[0].target)] = "g"
    for n in bound_names(fn, lambda v: "self._remove(" in unparse(v)):
        m[n] = "select"
    return m


def _roles_global_n(fn):
    from ..util import bound_names
    m = _roles_tables(fn)
    for x in walk_shallow(fn):
        # the counting loops run over the Result's own table (self.interactions); the truncation loop runs over the local, already narrowed table
        if isinstance(x, ast.For) and "groupby(" in unparse(x.iter) and unparse(x.iter).startswith("self.") and isinstance(x.target, ast.Tuple) and len(x.target.elts) == 2:
            m[unparse(x.target.elts[0])] = "env_idx"
            m[unparse(x.target.elts[1])] = "env_len"
    inv = {v: k for k, v in m.items()}
    idxn, lenn = inv.get("env_idx", "env_idx"), inv.get("env_len", "env_len")
    for x in walk_shallow(fn):
        if isinstance(x, ast.If) and unparse(x.test).startswith(lenn + " <"):
            for c in walk_shallow(x):
                if isinstance(c, ast.Call) and call_tail(c) == "append" and isinstance(c.func.value, ast.Name):
                    in_body = any(c in list(walk_shallow(s_)) for s_ in x.body)
                    if unparse(c.args[0]) == idxn:
                        m[c.func.value.id] = "to_drop" if in_body else "to_keep"
                    elif unparse(c.args[0]) == lenn:
                        m[c.func.value.id] = "env_lengths"
    for n in bound_names(fn, lambda v: isinstance(v, ast.IfExp) and "'min'" in unparse(v.test)):
        m[n] = "shorten_to"
    return m


def _roles_remove(fn):
    from ..util import bound_names
    m = {}
    for x in walk_shallow(fn):
        if isinstance(x, ast.Assign) and isinstance(x.targets[0], ast.Tuple) and "self.interactions[[" in unparse(x.value) and len(x.targets[0].elts) == 3:
            for t, r in zip(x.targets[0].elts, ("env_ids", "lrn_ids", "val_ids")):
                m[unparse(t)] = r
        if isinstance(x, ast.Assign) and isinstance(x.targets[0], ast.Tuple) and len(x.targets[0].elts) == 3 and unparse(x.value).startswith("ids["):
            for t, r in zip(x.targets[0].elts, ("e", "l", "v")):
                m[unparse(t)] = r
    inv = {v: k for k, v in m.items()}
    order = [(inv.get("env_ids", "env_ids"), "1"), (inv.get("lrn_ids", "lrn_ids"), "2"), (inv.get("val_ids", "val_ids"), "3")]
    for col, k in order:
        for n in bound_names(fn, lambda v, col=col: isinstance(v, ast.Call) and call_name(v) == "my_bisect_left" and unparse(v.args[0]) == col):
            m[n] = "lo" + k
        for n in bound_names(fn, lambda v, col=col: isinstance(v, ast.Call) and call_name(v) == "my_bisect_right" and unparse(v.args[0]) == col):
            m[n] = "hi" + k
    for n in bound_names(fn, lambda v: unparse(v) == "len(self.interactions)"):
        m[n] = "n_interactions"
    for n in bound_names(fn, lambda v: isinstance(v, ast.List) and not v.elts):
        m[n] = "select"
    for n in bound_names(fn, lambda v: isinstance(v, ast.Constant) and v.value == 0):
        m[n] = "loc"
    return m


_FN_CACHE = {}


def _fn(ctx, qual):
    """anchor function with its locals renamed to role names"""
    if qual not in _FN_CACHE or _FN_CACHE[qual][0] is not ctx:
        f = ctx.fn(RES, qual)
        roles = {"Result._group_p": _roles_group_p, "Result._global_n": _roles_global_n, "Result._remove": _roles_remove}.get(qual)
        _FN_CACHE[qual] = (ctx, rename_copy(f, roles(f)) if roles else f)
    return _FN_CACHE[qual][1]


def run(ctx):
    r1_narrowing(ctx)
    r2_completeness(ctx)
    r3_length(ctx)
    r4_order(ctx)
    r5_tail_windows(ctx)
    r6_moving_average(ctx)
    r7_view_owner(ctx)
    r8_pairing_after_length(ctx)
    r9_always_filtered(ctx)
    # "leaves the four tables mutually consistent": the parameter tables are narrowed with where(<id column>=<set of kept ids>) and stay marked as indexed
    from . import c17
    ctx.rule("C18.R10", "narrowing a parameter table by a set of ids keeps it sorted: Table._compare's indexed 'in' arm visits sorted(set(values)) -- ranges in set-iteration order would "
                        "leave a table that claims to be indexed but is not, and later look-ups by id go wrong")
    c17.in_arm_sorted_distinct(ctx, "C18.R10")
    r11_pairing_not_skipped(ctx)
    # where_fin / groupby read the interactions through the index ranges: the ranges must be the maximal runs, and a Result must never claim an order its rows do not have
    ctx.rule("C18.R12", "the run splitter behind groupby and the indexed where (C17.R5: every run ends at the bisect-right of its first value, one definition)")
    c17.sub_lohis_runs(ctx, "C18.R12")
    c17.index_then_insert(ctx, "C18.R13")
    c17.groupby_and_union_order(ctx, "C18.R14")
    r15_wrappers_forward(ctx)
    r16_slices_are_materialised(ctx)


def r15_wrappers_forward(ctx, rule="C18.R15"):
    """where_fin / where_best / ... are the documented names of filter_fin / filter_best / ...: a parameter that is not handed on silently takes its default there
    (where_best(full_p=...) would check completeness on environment_id whatever pairing the caller asked for)."""
    ctx.rule(rule, "the where_* methods of Result that delegate to a filter_* method hand on every one of their parameters (in order, or by keyword)")
    cls = ctx.model.cls(RES, "Result")
    n = 0
    for name, fn in sorted(cls.methods.items()):
        if not name.startswith("where_"):
            continue
        rets = [r.value for r in walk_shallow(fn) if isinstance(r, ast.Return) and isinstance(r.value, ast.Call) and isinstance(r.value.func, ast.Attribute)
                and unparse(r.value.func.value) == "self" and r.value.func.attr.startswith("filter_")]
        body = [st for st in fn.body if not (isinstance(st, ast.Expr) and isinstance(st.value, ast.Constant))]
        if len(rets) != 1 or len(body) != 1:
            continue
        n += 1
        params = [a.arg for a in fn.args.args[1:]] + [a.arg for a in fn.args.kwonlyargs]
        c = rets[0]
        passed = [unparse(a) for a in c.args] + [unparse(k.value) for k in c.keywords if k.arg]
        star = any(isinstance(a, ast.Starred) for a in c.args) or any(k.arg is None for k in c.keywords)
        ok = star or all(p_ in passed for p_ in params)
        ctx.ob(rule, RES, f"Result.{name}", c, "every parameter of the wrapper reaches the method it delegates to", ok, detail={"parameters": params, "passed": passed})
    ctx.floor(rule, "delegating where_* methods of Result", n, 2)


def r16_slices_are_materialised(ctx, rule="C18.R16"):
    """_grouped_ys takes `Y[-1]` and `Y[-span:]` of what groupby hands it: the view classes add negative positions to the view's start without wrapping, so what leaves a
    view through a slice must be a plain list."""
    ctx.rule(rule, "View.SliceView / View.ListView answer a slice with a materialised list (a subscript of the underlying sequence or list(...)), never with another view object")
    n = 0
    for cname in ("SliceView", "ListView"):
        for (rel, qual), fn in sorted(ctx.model.functions.items()):
            if rel != RES or not qual.endswith(f"{cname}.__getitem__"):
                continue
            for r in [r for r in ast.walk(fn) if isinstance(r, ast.Return) and r.value is not None]:
                n += 1
                v = r.value
                view = isinstance(v, ast.Call) and (call_name(v) or "").split(".")[-1] in ("SliceView", "ListView", "View")
                ctx.ob(rule, RES, qual, r, "what a view returns for a key is a value or a plain list", not view, detail={"returns": unparse(v)[:80]})
    ctx.floor(rule, "returns of the view classes' __getitem__", n, 3)


def _table_of(expr):
    """'environments' for `environments`, `self.environments`, `self._environments`, `result.environments` ..."""
    s = unparse(expr)
    for t in OWN:
        if s == t or s.endswith("." + t) or s.endswith("._" + t):
            return t
    return None


def r1_narrowing(ctx):
    ctx.rule("C18.R1", "a parameter table is narrowed by its own id column, with the id set taken from the matching position of the kept triples")
    cls = ctx.model.cls(RES, "Result")
    n = 0
    for mname, fn in sorted(cls.methods.items()):
        fn = rename_copy(fn, _roles_tables(fn))
        for c in walk_shallow(fn):
            if not (isinstance(c, ast.Call) and isinstance(c.func, ast.Attribute) and c.func.attr == "where"):
                continue
            tbl = _table_of(c.func.value)
            if tbl is None:
                continue
            for k in c.keywords:
                if k.arg in OWN.values():
                    n += 1
                    ok = k.arg == OWN[tbl]
                    ctx.ob("C18.R1", RES, f"Result.{mname}", c, f"{tbl} is narrowed by {OWN[tbl]}", ok, detail={"keyword": k.arg})
                    # the id set comes from the matching position of a triple unpack
                    if isinstance(k.value, ast.Name):
                        pos = _unpack_position(fn, k.value.id)
                        if pos is not None:
                            ctx.ob("C18.R1", RES, f"Result.{mname}", c, f"the id set for {tbl} is the {ORDER.index(OWN[tbl]) + 1}. component of the kept (env,lrn,val) triples",
                                   pos == ORDER.index(OWN[tbl]), detail={"variable": k.value.id, "position": pos}, stmt=f"{k.value.id} position for {tbl}")
    ctx.floor("C18.R1", "parameter-table narrowings by id", n, 6)
    # a narrowing is skipped when "nothing was removed": that test must count DISTINCT ids (one id takes part in many kept evaluations)
    m = 0
    for mname, fn0 in sorted(cls.methods.items()):
        fn0 = rename_copy(fn0, _roles_tables(fn0))
        for st in [x for x in ast.walk(fn0) if isinstance(x, ast.If) and isinstance(x.test, ast.Compare) and len(x.test.ops) == 1 and isinstance(x.test.ops[0], ast.NotEq)]:
            sides = [x_ for x_ in (st.test.left, st.test.comparators[0]) if isinstance(x_, ast.Call) and call_name(x_) == "len" and x_.args]
            if len(sides) != 2 or not any(isinstance(b, ast.Assign) and ".where(" in unparse(b.value) for b in st.body):
                continue
            ids = [a.args[0] for a in sides if isinstance(a.args[0], ast.Name) and _table_of(a.args[0]) is None]
            for a in ids:
                m += 1
                defs = []
                for x in walk_shallow(fn0):
                    if isinstance(x, ast.Assign):
                        for t in x.targets:
                            if isinstance(t, ast.Name) and t.id == a.id:
                                defs.append(x.value)
                            elif isinstance(t, ast.Tuple) and any(isinstance(e, ast.Name) and e.id == a.id for e in t.elts):
                                defs.append(x.value)

                def setlike(v):
                    if isinstance(v, ast.IfExp):
                        return setlike(v.body)
                    u = unparse(v)
                    return isinstance(v, (ast.Set, ast.SetComp)) or u.startswith(("set(", "map(set,", "frozenset(")) or (isinstance(v, ast.BinOp) and isinstance(v.op, (ast.BitAnd, ast.BitOr, ast.Sub)))
                ok = bool(defs) and all(setlike(v) for v in defs)
                ctx.ob("C18.R1", RES, f"Result.{mname}", st, f"the narrowing of a parameter table is skipped only when the number of DISTINCT kept ids ({a.id}) equals the table's size", ok,
                       detail={"definitions": [unparse(v)[:70] for v in defs]}, stmt=f"distinct ids: {a.id}")
    ctx.floor("C18.R1", "skip tests of parameter-table narrowings", m, 6)
    # the kept triples are (env,lrn,val): _group_p asks _grouped_ys for the ids in that order and slices them out
    gp = _fn(ctx, "Result._group_p")
    calls = [c for c in walk_shallow(gp) if isinstance(c, ast.Call) and call_tail(c) == "_grouped_ys"]
    ok = len(calls) == 1 and [unparse(a) for a in calls[0].args[:5]] == ["p", "l", "'environment_id'", "'learner_id'", "'evaluator_id'"]
    ctx.ob("C18.R1", RES, "Result._group_p", calls[0] if calls else gp, "groups are listed with their (environment, learner, evaluator) ids in index order", ok)
    sl = [x for x in walk_shallow(gp) if isinstance(x, ast.Subscript) and unparse(x.value) == "g" and isinstance(x.slice, ast.Slice)]
    ok = bool(sl) and all(unparse(s.slice) == "2:5" for s in sl)
    ctx.ob("C18.R1", RES, "Result._group_p", sl[0] if sl else gp, "kept/removed triples are exactly the three id fields of a group entry", ok, stmt="g[2:5]")
    for mname in ("_group_p", "_global_n"):
        fn = _fn(ctx, f"Result.{mname}")
        rets = [r for r in walk_shallow(fn) if isinstance(r, ast.Return) and isinstance(r.value, ast.Call) and call_name(r.value) == "Result"]
        ok = len(rets) == 1 and [unparse(a) for a in rets[0].value.args] == ["environments", "learners", "evaluators", "interactions", "self.experiment"]
        ctx.ob("C18.R1", RES, f"Result.{mname}", rets[0] if rets else fn, "the narrowed tables are returned in (environments, learners, evaluators, interactions, experiment) order", ok)


def _unpack_position(fn, name):
    for x in walk_shallow(fn):
        if isinstance(x, ast.Assign) and isinstance(x.targets[0], ast.Tuple) and "zip(*" in unparse(x.value):
            names = [unparse(t) for t in x.targets[0].elts]
            if name in names and len(names) == 3:
                return names.index(name)
    return None


def r2_completeness(ctx):
    ctx.rule("C18.R2", "_group_p keeps a pairing group only when it has exactly one evaluation per level: larger and smaller groups are both removed")
    gp = _fn(ctx, "Result._group_p")
    chain_ifs = [x for x in walk_shallow(gp) if isinstance(x, ast.If) and unparse(x.test).startswith("len(group)")]
    ctx.floor("C18.R2", "group-size tests", len(chain_ifs), 2)
    tests = {}
    top = chain_ifs[0]
    cur = top
    while isinstance(cur, ast.If):
        acts = " ".join(unparse(s) for s in cur.body)
        tests[unparse(cur.test)] = "remove" if "to_remove.extend" in acts else "keep" if "to_keep.extend" in acts else "?"
        if len(cur.orelse) == 1 and isinstance(cur.orelse[0], ast.If):
            cur = cur.orelse[0]
        else:
            acts = " ".join(unparse(s) for s in cur.orelse)
            tests["else"] = "remove" if "to_remove.extend" in acts else "keep" if "to_keep.extend" in acts else "?"
            cur = None
    removed, kept_else = [], tests.get("else") == "keep"
    for t, act in tests.items():
        if t == "else":
            continue
        if act != "remove":
            kept_else = False
        e = ast.parse(t, mode="eval").body
        removed += [unparse(d) for d in (e.values if isinstance(e, ast.BoolOp) and isinstance(e.op, ast.Or) else [e])]
    size_ok = {"len(group) > n_levels", "len(group) < n_levels"} <= set(removed)
    ctx.ob("C18.R2", RES, "Result._group_p", top, "groups larger or smaller than the number of levels are removed; only the remaining groups are kept", size_ok and kept_else, detail={"arms": tests})

    def distinct_levels(d):
        e = ast.parse(d, mode="eval").body
        return isinstance(e, ast.Compare) and len(e.ops) == 1 and isinstance(e.ops[0], (ast.Lt, ast.NotEq)) and unparse(e.comparators[0]) == "n_levels" \
            and isinstance(e.left, ast.Call) and call_name(e.left) == "len" and isinstance(e.left.args[0], (ast.Call, ast.SetComp)) \
            and (call_name(e.left.args[0]) == "set" or isinstance(e.left.args[0], ast.SetComp)) and "group" in unparse(e.left) \
            and ("itemgetter(1)" in unparse(e.left) or "[1]" in unparse(e.left))
    ctx.ob("C18.R2", RES, "Result._group_p", top, "a group of the right size is still removed when its evaluations do not cover every level (a duplicated level hides a missing one)",
           any(distinct_levels(d) for d in removed), detail={"removed when": removed}, stmt="distinct levels in group")
    # the keep / remove decision is taken group by group: nothing is kept on the strength of a global count (an over-full group can cancel an incomplete one)
    grp_loops = [x for x in walk_shallow(gp) if isinstance(x, ast.For) and "grouper(indexes" in unparse(x.iter)]
    outside = []
    for x in ast.walk(gp):
        tgt = None
        if isinstance(x, ast.Assign) and any(isinstance(t, ast.Name) and t.id == "to_keep" for t in x.targets) and not (isinstance(x.value, ast.List) and not x.value.elts):
            tgt = x
        if isinstance(x, ast.Assign) and any(isinstance(t, ast.Tuple) and any(isinstance(e, ast.Name) and e.id == "to_keep" for e in t.elts) for t in x.targets):
            v = x.value
            i = [isinstance(e, ast.Name) and e.id == "to_keep" for t in x.targets if isinstance(t, ast.Tuple) for e in t.elts].index(True)
            if not (isinstance(v, ast.Tuple) and isinstance(v.elts[i], ast.List) and not v.elts[i].elts):
                tgt = x
        if isinstance(x, ast.Call) and isinstance(x.func, ast.Attribute) and unparse(x.func.value) == "to_keep" and x.func.attr in ("extend", "append"):
            tgt = x
        if isinstance(x, ast.AugAssign) and unparse(x.target) == "to_keep":
            tgt = x
        if tgt is not None and not any(tgt in list(ast.walk(l)) for l in grp_loops):
            outside.append(tgt)
    ctx.ob("C18.R2", RES, "Result._group_p", outside[0] if outside else gp, "triples are kept only by the per-group test (no shortcut keeps them on a global count)", not outside,
           detail={"kept outside the group loop": [unparse(o)[:80] for o in outside]}, stmt="keep decided per group")
    nl = assigned_value(gp, "n_levels")
    ctx.ob("C18.R2", RES, "Result._group_p", gp, "the number of levels is the number of distinct l-values present", len(nl) == 1 and unparse(nl[0]) == "len(set(map(itemgetter(1), indexes)))", stmt="n_levels")
    grp = [x for x in walk_shallow(gp) if isinstance(x, ast.For) and "grouper(indexes" in unparse(x.iter)]
    ok = len(grp) == 1 and "key=itemgetter(0)" in unparse(grp[0].iter)
    ctx.ob("C18.R2", RES, "Result._group_p", grp[0] if grp else gp, "groups are formed by the pairing value (first field)", ok, stmt="grouping key")
    rm = [x for x in walk_shallow(gp) if isinstance(x, ast.If) and unparse(x.test) == "to_remove"]
    ok = len(rm) == 1 and "self._remove(to_remove)" in unparse(rm[0].body[0])
    ctx.ob("C18.R2", RES, "Result._group_p", rm[0] if rm else gp, "the interactions of every removed triple are dropped", ok, stmt="remove rows")


def r3_length(ctx):
    ctx.rule("C18.R3", "_global_n drops evaluations with fewer than n rows (strict <), truncates with index <= n (1-based index), "
                       "and _remove drops all rows of a removed evaluation")
    gn = _fn(ctx, "Result._global_n")
    drops = [x for x in walk_shallow(gn) if isinstance(x, ast.If) and "env_len" in unparse(x.test) and any("to_drop.append" in unparse(s) for s in x.body)]
    ok = len(drops) == 1 and unparse(drops[0].test) == "env_len < n" and any("to_keep.append" in unparse(s) for s in drops[0].orelse)
    ctx.ob("C18.R3", RES, "Result._global_n", drops[0] if drops else gn, "an evaluation is dropped iff it is shorter than n; otherwise it is kept", ok)
    # truncation: the first shorten_to ROWS of every evaluation (the lengths are counted in rows; a cut on the VALUE of index is only the same thing when every
    # evaluation is numbered 1..N, which a where on index or a 0-based index breaks)
    by_value = [c for c in walk_shallow(gn) if isinstance(c, ast.Call) and call_tail(c) == "where" and any(k.arg == "index" for k in c.keywords)]
    tl = [x for x in walk_shallow(gn) if isinstance(x, ast.For) and "groupby(3, 'count')" in unparse(x.iter) and not unparse(x.iter).startswith("self.")]
    ok = not by_value and len(tl) == 1
    if ok:
        lp = tl[0]
        TBL = unparse(lp.iter.func.value)
        LEN = unparse(lp.target.elts[1]) if isinstance(lp.target, ast.Tuple) and len(lp.target.elts) == 2 else None
        ext = [c for c in walk_shallow(lp) if isinstance(c, ast.Call) and call_tail(c) == "extend" and len(c.args) == 1 and isinstance(c.args[0], ast.Call) and call_name(c.args[0]) == "range"]
        adv = [x for x in walk_shallow(lp) if isinstance(x, ast.AugAssign) and isinstance(x.op, ast.Add) and unparse(x.value) == LEN]
        ok = len(ext) == 1 and len(adv) == 1 and len(ext[0].args[0].args) == 2
        if ok:
            LOC, KEEP = unparse(adv[0].target), unparse(ext[0].func.value)
            lo, hi = ext[0].args[0].args
            ok = unparse(lo) == LOC and canon(unparse(hi)) in (canon(f"{LOC} + min({LEN}, shorten_to)"), canon(f"{LOC} + min(shorten_to, {LEN})"), canon(f"min({LEN}, shorten_to) + {LOC}")) \
                and ext[0].lineno < adv[0].lineno and [unparse(v) for v in assigned_value(gn, LOC)][:1] in (["0"], []) 
            init = [x for x in walk_shallow(gn) if isinstance(x, ast.Assign) and x.lineno < lp.lineno and LOC in unparse(x.targets[0]) and KEEP in unparse(x.targets[0])]
            ok = ok and (bool(init) and unparse(init[-1].value) in ("(0, [])", "([], 0)") or ([unparse(v) for v in assigned_value(gn, LOC)] == ["0"] and [unparse(v) for v in assigned_value(gn, KEEP)] == ["[]"]))
            rebuilt = [x for x in walk_shallow(gn) if isinstance(x, ast.Assign) and x.lineno > lp.lineno and canon(unparse(x.value)) == canon(f"Table(View({TBL}._data, {KEEP}), {TBL}.columns, {TBL}.indexes)") and unparse(x.targets[0]) == TBL]
            ok = ok and len(rebuilt) == 1
    ctx.ob("C18.R3", RES, "Result._global_n", tl[0] if tl else (by_value[0] if by_value else gn), "truncation keeps the first n rows of every evaluation (positions counted over the narrowed table's own (env, learner, evaluator) "
           "groups), never the rows whose index VALUE is <= n", ok, stmt="truncate by position")
    st = assigned_value(gn, "shorten_to")
    ctx.ob("C18.R3", RES, "Result._global_n", gn, "n='min' truncates to the shortest evaluation, a number truncates to that number",
           len(st) == 1 and unparse(st[0]) == "min(env_lengths) if n == 'min' and env_lengths else n", stmt="shorten_to")
    tres = ctx.fn(RES, "TransactionResult.filter")
    idx = [x for x in walk_shallow(tres) if isinstance(x, ast.Assign) and isinstance(x.targets[0], ast.Subscript) and const_str(x.targets[0].slice) == "index"]
    okx = len(idx) == 1 and isinstance(idx[0].value, ast.Call) and call_name(idx[0].value) == "range" and len(idx[0].value.args) == 2 and unparse(idx[0].value.args[0]) == "1" \
        and isinstance(idx[0].value.args[1], ast.BinOp) and unparse(idx[0].value.args[1].right) == "1"
    ctx.ob("C18.R3", RES, "TransactionResult.filter", idx[0] if idx else tres, "the index written by the reader starts at 1", okx)
    grp = [x for x in walk_shallow(gn) if isinstance(x, ast.For) and "groupby(" in unparse(x.iter) and unparse(x.iter).startswith("self.")]
    ok = len(grp) == 2 and all(unparse(g.iter) == "self.interactions.groupby(3, 'count')" for g in grp)
    ctx.ob("C18.R3", RES, "Result._global_n", grp[0] if grp else gn, "lengths are counted per (environment, learner, evaluator) triple", ok, stmt="groupby(3,'count')")
    rm = _fn(ctx, "Result._remove")
    ext = [c for c in walk_shallow(rm) if isinstance(c, ast.Call) and unparse(c.func) == "select.extend"]
    ok = len(ext) == 2 and unparse(ext[0].args[0]) == "range(loc, lo3 + (n if hi3 - lo3 > n else 0))" and unparse(ext[1].args[0]) == "range(loc, n_interactions)"
    ctx.ob("C18.R3", RES, "Result._remove", ext[0] if ext else rm, "rows before a removed evaluation are kept, its own rows are skipped (loc = hi3), the tail is kept", ok and "loc = hi3" in unparse(rm))


def r4_order(ctx):
    ctx.rule("C18.R4", "_remove nests its bisects in the order of the interactions index set in Result.__init__")
    init = ctx.fn(RES, "Result.__init__")
    idx = [c for c in walk_shallow(init) if isinstance(c, ast.Call) and unparse(c.func) == "self._interactions.index"]
    order = [const_str(a) for a in idx[0].args] if idx else []
    ctx.ob("C18.R4", RES, "Result.__init__", idx[0] if idx else init, "interactions are indexed by (environment_id, learner_id, evaluator_id, index)",
           order == ORDER + ["index"], detail={"index": order})
    for tbl, col in OWN.items():
        c = [x for x in walk_shallow(init) if isinstance(x, ast.Call) and unparse(x.func) == f"self._{tbl}.index"]
        ctx.ob("C18.R4", RES, "Result.__init__", c[0] if c else init, f"{tbl} is indexed by {col}", len(c) == 1 and [const_str(a) for a in c[0].args] == [col], stmt=f"index {tbl}")
    rm = _fn(ctx, "Result._remove")
    cols = [x for x in walk_shallow(rm) if isinstance(x, ast.Assign) and isinstance(x.targets[0], ast.Tuple) and "self.interactions[[" in unparse(x.value)]
    ok = len(cols) == 1 and [unparse(t) for t in cols[0].targets[0].elts] == ["env_ids", "lrn_ids", "val_ids"] and \
        [const_str(e) for e in cols[0].value.slice.elts] == ORDER
    ctx.ob("C18.R4", RES, "Result._remove", cols[0] if cols else rm, "the id columns are fetched in index order", ok)
    bis = [(unparse(x.targets[0]), unparse(x.value)) for x in walk_shallow(rm) if isinstance(x, ast.Assign) and "my_bisect_" in unparse(x.value)]
    want = [("lo1", "my_bisect_left(env_ids, e, loc, n_interactions)"), ("hi1", "my_bisect_right(env_ids, e, loc, n_interactions)"),
            ("lo2", "my_bisect_left(lrn_ids, l, lo1, hi1)"), ("hi2", "my_bisect_right(lrn_ids, l, lo1, hi1)"),
            ("lo3", "my_bisect_left(val_ids, v, lo2, hi2)"), ("hi3", "my_bisect_right(val_ids, v, lo2, hi2)")]
    ctx.ob("C18.R4", RES, "Result._remove", rm, "bisects are nested environment -> learner -> evaluator, each inside the previous range", bis == want, detail={"bisects": bis}, stmt="nested bisects")
    ok = "ids = sorted(ids)" in unparse(rm) and ("e, l, v = ids[" in unparse(rm))
    ctx.ob("C18.R4", RES, "Result._remove", rm, "the ids to remove are visited in sorted (index) order and unpacked as (e,l,v)", ok, stmt="sorted ids")


def r5_tail_windows(ctx):
    ctx.rule("C18.R5", "averaging windows: a 'last span values' window is sliced as Y[-span:] (which degrades to the whole list when span > len(Y)); "
                       "a start computed as len(Y) - span must be clamped at 0, otherwise it wraps around for short evaluations")
    n = 0
    for qual in ("Result._grouped_ys", "moving_average"):
        fn = ctx.fn(RES, qual)
        for x in ast.walk(fn):
            if isinstance(x, ast.Subscript) and isinstance(x.slice, ast.Slice):
                n += 1
                lo = x.slice.lower
                bad = isinstance(lo, ast.BinOp) and isinstance(lo.op, ast.Sub) and isinstance(lo.left, ast.Call) and call_name(lo.left) == "len"
                ctx.ob("C18.R5", RES, qual, x, "slice start cannot go negative by subtraction from a length", not bad, trivial=not bad)
    ctx.floor("C18.R5", "slices in the averaging code", n, 1)
    gy = ctx.fn(RES, "Result._grouped_ys")
    lasts = [x for x in ast.walk(gy) if isinstance(x, ast.IfExp) and "span == 1" in unparse(x.test)]
    ok = len(lasts) == 1 and isinstance(lasts[0].orelse, ast.IfExp) and unparse(lasts[0].orelse.test) == "span"
    if ok:
        Y = unparse(lasts[0].body.value) if isinstance(lasts[0].body, ast.Subscript) else "Y"
        ok = unparse(lasts[0].body) == f"{Y}[-1]" and unparse(lasts[0].orelse.body) == f"mean({Y}[-span:])" and unparse(lasts[0].orelse.orelse) == f"mean({Y})"
    ctx.ob("C18.R5", RES, "Result._grouped_ys", lasts[0] if lasts else gy, "the final value is the last y (span 1), the mean of the last span ys, or the mean of all ys", ok, stmt="final average")


def r6_moving_average(ctx):
    from ..cfg import CFG
    from ..dataflow import reaching_defs, PARAM
    ctx.rule("C18.R6", "moving_average: a window of one value is that value for every weighting (the span == 1 arm returns the values exactly as given: "
                       "only the parameter's own definition reaches that return)")
    fn = ctx.fn(RES, "moving_average")
    V, SP, W = [a.arg for a in fn.args.args][:3]
    g = CFG(fn)
    rd = reaching_defs(g, [V, SP, W])
    n = 0
    for nd in g.nodes:
        if nd.kind == "stmt" and isinstance(nd.ast, ast.Return) and nd.id in rd:
            gs = [(unparse(t), pol) for t, pol in guards_of(nd.ast, fn)]
            if (f"{SP} == 1", True) in gs:
                n += 1
                ok = isinstance(nd.ast.value, ast.Name) and nd.ast.value.id == V and rd[nd.id].get(V) == frozenset([PARAM])
                ctx.ob("C18.R6", RES, "moving_average", nd.ast, "span == 1 returns the values as given (un-weighted, un-accumulated)", ok,
                       detail={"definitions reaching": "parameter only" if ok else "re-bound before the return"}, stmt="span 1 returns values")
    ctx.floor("C18.R6", "span == 1 return in moving_average", n, 1)


def r8_pairing_after_length(ctx):
    ctx.rule("C18.R8", "_filter_fin: when evaluations can be dropped for their length (an integer n) and a pairing is requested, the pairing filter runs "
                       "(again) after the length filter -- otherwise a dropped evaluation leaves an incomplete pairing group in the result")
    fn = ctx.fn(RES, "Result._filter_fin")
    stmts = [st for st in fn.body if not isinstance(st, ast.Expr)]
    pos = {"_global_n": [], "_group_p": []}
    for i, st in enumerate(stmts):
        for c in ast.walk(st):
            if isinstance(c, ast.Call) and call_tail(c) in pos:
                pos[call_tail(c)].append((i, st))
    ctx.floor("C18.R8", "length filter calls in _filter_fin", len(pos["_global_n"]), 1)
    params = [a.arg for a in fn.args.args][1:]
    N, Lp, Pp = params[0], params[1], params[2]
    # with only one of l / p given the other takes its documented default before pairing
    firsts = pos["_group_p"][:1]
    dflt = [st for st in stmts if isinstance(st, (ast.If, ast.Assign)) and "'learner_id'" in unparse(st) and "'environment_id'" in unparse(st)]
    ok = bool(dflt) and bool(firsts) and stmts.index(dflt[0]) < firsts[0][0] and f"{Lp} or 'learner_id'" in unparse(dflt[0]) and f"{Pp} or 'environment_id'" in unparse(dflt[0])
    ctx.ob("C18.R8", RES, "Result._filter_fin", dflt[0] if dflt else fn, "a missing l defaults to 'learner_id' and a missing p to 'environment_id' before the pairing filter runs", ok, stmt="l/p defaults")
    for i, st in pos["_global_n"]:
        later = [s2 for j, s2 in pos["_group_p"] if j > i]
        ok = False
        for s2 in later:
            if isinstance(s2, ast.If):
                conj = s2.test.values if isinstance(s2.test, ast.BoolOp) and isinstance(s2.test.op, ast.And) else [s2.test]
                allowed = {N, f"{N} != 'min'", f"{Lp} or {Pp}", f"{Pp} or {Lp}", f"isinstance({N}, int)", f"{N} is not None"}
                if all(unparse(c) in allowed for c in conj):
                    ok = True
            else:
                ok = True
        ctx.ob("C18.R8", RES, "Result._filter_fin", st, "the pairing filter is applied after evaluations were dropped for their length", ok,
               detail={"later pairing calls": [unparse(s2)[:100] for s2 in later]}, stmt="pairing after length filter")


def r7_view_owner(ctx):
    ctx.rule("C18.R7", "row numbers are applied to the table they were computed on: in View(T._data, rows) the rows come from <R>._remove(...) of the same "
                       "Result object R whose interactions table T is")
    cls = ctx.model.cls(RES, "Result")
    n = 0
    for mname, fn in sorted(cls.methods.items()):
        for v in [c for c in ast.walk(fn) if isinstance(c, ast.Call) and call_name(c) == "View" and len(c.args) == 2]:
            a0, a1 = v.args
            if not (isinstance(a0, ast.Attribute) and a0.attr == "_data" and isinstance(a0.value, ast.Name)):
                continue
            t_owner = {unparse(x.value) for x in assigned_value(fn, a0.value.id) if isinstance(x, ast.Attribute) and x.attr in ("interactions", "_interactions")}
            sel = [a1] if isinstance(a1, ast.Call) else (assigned_value(fn, a1.id) if isinstance(a1, ast.Name) else [])
            s_owner = {unparse(x.func.value) for x in sel if isinstance(x, ast.Call) and call_tail(x) == "_remove" and isinstance(x.func, ast.Attribute)}
            if not s_owner:
                continue
            n += 1
            ctx.touch(RES, f"Result.{mname}")
            ctx.ob("C18.R7", RES, f"Result.{mname}", v, "the removed-row numbers and the table they are applied to belong to the same Result", len(t_owner) == 1 and t_owner == s_owner,
                   detail={"table of": sorted(t_owner), "rows computed by": sorted(s_owner)})
    ctx.floor("C18.R7", "View(...) over rows from _remove", n, 3)


def r11_pairing_not_skipped(ctx, rule="C18.R11"):
    """raw_learners pairs and truncates through _finished whenever a pairing column is given -- the number of learners is no reason to skip it
    (_finished also equalises lengths, and `l` need not be the learner)."""
    ctx.rule(rule, "raw_learners / raw_contrast call _finished under exactly the guard `p` (the pairing column): no further condition (e.g. on the number of learners) may skip the "
                   "equal-length / complete-pairing filter")
    cls = ctx.model.cls(RES, "Result")
    n = 0
    for mname in ("raw_learners", "raw_contrast"):
        fn = cls.methods.get(mname)
        if fn is None:
            continue
        P = "p"
        for c in [c for c in ast.walk(fn) if isinstance(c, ast.Call) and call_tail(c) == "_finished"]:
            n += 1
            from ..util import all_guards
            gs = [(unparse(t), pol) for t, pol in all_guards(c, fn)]
            ok = all(pol and t == P for t, pol in gs)
            ctx.ob(rule, RES, f"Result.{mname}", c, "the finishing filter is applied whenever a pairing column is given (guards: only `p`)", ok, detail={"guards": gs})
    ctx.floor(rule, "calls of _finished in the raw_* methods", n, 1)


def r9_always_filtered(ctx, rule="C18.R9"):
    """the pairing filter is computed for the arguments of THIS call: no shortcut around it, no memo in front of it."""
    from ..cfg import CFG, forward
    from ..util import node_ast_for_effects, self_state_stores
    ctx.rule(rule, "every normal return of Result.filter_fin and Result._finished has passed a call of self._filter_fin with this call's arguments (must-pass on the CFG: no early "
                   "`return self` for a 'complete' grid, no memo keyed by some of the arguments), where_fin delegates to filter_fin, and no query method of Result stores anything on the Result")
    cls = ctx.model.cls(RES, "Result")
    n = 0
    for mname, callee in (("filter_fin", "_filter_fin"), ("_finished", "_filter_fin"), ("where_fin", "filter_fin")):
        fn = cls.methods[mname]
        ctx.touch(RES, f"Result.{mname}")
        g = CFG(fn)

        def calls(node, callee=callee):
            a = node_ast_for_effects(node)
            return a is not None and any(isinstance(c, ast.Call) and isinstance(c.func, ast.Attribute) and is_self_attr(c.func, callee) for c in ast.walk(a))
        IN = forward(g, False, lambda node, st, label, calls=calls: (st if label in ("exc",) else (True if calls(node) else st)), lambda a, b: a and b)
        n += 1
        ctx.ob(rule, RES, f"Result.{mname}", fn, f"every normal return of {mname} has called self.{callee}", g.exit_return in IN and bool(IN[g.exit_return]), stmt=f"{mname} always calls {callee}")
        # the arguments of the call are this call's parameters (or derived from them), not stale state
        params = {a.arg for a in fn.args.args} | {a.arg for a in fn.args.kwonlyargs}
        for c in [c for c in ast.walk(fn) if isinstance(c, ast.Call) and isinstance(c.func, ast.Attribute) and is_self_attr(c.func, callee)]:
            import builtins as _b
            names = {y.id for a in list(c.args) + [k.value for k in c.keywords] for y in ast.walk(a) if isinstance(y, ast.Name) and not hasattr(_b, y.id)}
            n += 1
            ctx.ob(rule, RES, f"Result.{mname}", c, "the call is made with this call's parameters", bool(names) and names <= params and not any(is_self_attr(y) for a in c.args for y in ast.walk(a)))
    # x == 'index' selects the equal-length comparison: both spellings the plotting code accepts ('index' and ['index']) must select it
    fin = cls.methods["_finished"]
    X = fin.args.args[1].arg
    sel = [e for e in ast.walk(fin) if isinstance(e, ast.IfExp) and const_str(e.body) == "min"]
    for e in sel:
        t = unparse(e.test)
        both = canon(f"{X} == 'index'") in canon(t) and ("['index']" in t or "('index',)" in t or f"'index' in {X}" in t or f"{X}[0]" in t)
        ctx.ob(rule, RES, "Result._finished", e, "the equal-length rule ('min') is chosen for x given as 'index' and as the one item list ['index']", both, stmt="index spelled as list")
    # documented defaults are applied before the value is used: where_best/filter_best's p "defaults to full_p"
    fb = cls.methods["filter_best"]
    uses = [c for c in ast.walk(fb) if isinstance(c, ast.Call) and call_tail(c) == "_grouped_ys"]
    dflt = [st for st in fb.body if isinstance(st, ast.If) and canon(unparse(st.test)) == canon("p is None") and any(isinstance(b, ast.Assign) and unparse(b.targets[0]) == "p" and unparse(b.value) == "full_p" for b in st.body)]
    sig_none = any(a.arg == "p" for a in cls.methods["where_best"].args.args) and any(isinstance(d, ast.Constant) and d.value is None for d in cls.methods["where_best"].args.defaults)
    ctx.ob(rule, RES, "Result.filter_best", (dflt or [fb])[0], "a pairing column of None (where_best's default) is replaced by full_p before the groups are formed", (not sig_none) or (bool(dflt) and bool(uses) and dflt[0].lineno < uses[0].lineno),
           stmt="where_best default p")
    m = 0
    for name, fn in sorted(cls.methods.items()):
        if name in ("__init__", "set_plotter", "copy"):
            continue
        m += 1
        stores = self_state_stores(fn, cls.methods.values(), ignore_accumulators=False)
        if stores:
            ctx.ob(rule, RES, f"Result.{name}", fn, "a query method stores nothing on the Result (no memo that could outlive its arguments)", False, detail={"stores": stores}, stmt=f"Result.{name} stores")
    ctx.ob(rule, RES, "Result", cls.node, f"none of the {m} query methods of Result stores anything on the Result", True, stmt="Result query methods are pure", trivial=True)
    ctx.floor(rule, "pairing-filter entry points", n, 5)


CONTROLS = [
    ("where_best keeps full_p to itself", "coba/results/core.py", M.replace_expr("Result.where_best", "self.filter_best(l, p, y, n, full_l, full_p)", "self.filter_best(l, p, y, n, full_l)"), "C18.R15"),
    ("a slice of a slice view is another view", "coba/results/core.py", M.replace_expr("View.SliceView.__getitem__", "self._seq[slice(new_start, new_stop)]", "View.SliceView(self._seq, slice(new_start, new_stop))"), "C18.R16"),
    ("group keys read from the leading columns", "coba/results/core.py", M.replace_expr("Table.groupby", "self._indexes[:level]", "self._columns[:level]"), "C18.R14"),
    ("from_logged_envs indexes its empty tables first", "coba/results/core.py", M.insert_before("Result.from_logged_envs", lambda st: isinstance(st, ast.FunctionDef), "int_table.index('environment_id', 'learner_id', 'evaluator_id', 'index')"), "C18.R13"),
    ("run splitter tries the previous run's length first", "coba/results/core.py", M.replace_stmt("Table._sub_lohis", M.text_has("my_bisect_right"), "new_hi = lo + 1\nif col[new_hi - 1] != col[lo]: new_hi = my_bisect_right(col, col[lo], lo, hi)"), "C18.R12"),
    ("a single learner skips the finishing filter", RES, M.replace_expr("Result.raw_learners", "p", "p and len(self.learners) > 1", nth=0), "C18.R11"),
    ("indexed 'in' iterates a set as it comes", RES, M.replace_expr("Table._compare", "sorted(set(arg))", "arg if isinstance(arg, (set, frozenset)) else sorted(set(arg))"), "C18.R10"),
    ("where_best passes its None on", RES, M.delete_stmt("Result.filter_best", M.text_has("if p is None")), "C18.R9"),
    ("['index'] is not the index", RES, M.replace_expr("Result._finished", "x == 'index' or list(x) == ['index']", "x == 'index'"), "C18.R9"),
    ("filter_int counts kept evaluations instead of ids", RES, M.replace_expr("Result.filter_int", "map(set, zip(*to_keep)) if to_keep else (set(), set(), set())", "zip(*to_keep) if to_keep else ([], [], [])"), "C18.R1"),
    ("complete grids skip the pairing filter", RES, M.insert_before("Result.filter_fin", M.text_has("result = self._filter_fin(n, l, p)"),
        "if not n and len(self.interactions) == len(self.environments) * len(self.learners): return self"), "C18.R9"),
    ("finished results memoised by (l, p)", RES, M.chain(M.insert_after("Result.__init__", M.text_has("self._plotter ="), "self._fin = {}"),
        M.replace_stmt("Result._finished", M.text_has("only_finished = self._filter_fin"),
                       "if (str(l), str(p)) not in self._fin:\n    self._fin[str(l), str(p)] = self._filter_fin('min' if x == 'index' else None, l, p)\nonly_finished = self._fin[str(l), str(p)]")), "C18.R9"),
    ("pairing with a None level", RES, M.delete_stmt("Result._filter_fin", lambda st: isinstance(st, ast.If) and "'learner_id'" in ast.unparse(st)), "C18.R8"),
    ("global count shortcut keeps everything", RES, M.insert_before("Result._group_p", lambda st: isinstance(st, ast.Try), "if len(indexes) == n_levels * len(set(map(itemgetter(0), indexes))):\n    to_keep = [g[2:5] for g in indexes]\n    indexes = []"), "C18.R2"),
    ("pairing only before the length filter", RES, M.delete_stmt("Result._filter_fin", M.text_has("if n and n != 'min' and (l or p): result = result._group_p(l, p)")), "C18.R8"),
    ("group size only", RES, M.replace_expr("Result._group_p", "len(group) < n_levels or len(set(map(itemgetter(1), group))) < n_levels", "len(group) < n_levels"), "C18.R2"),
    ("rows of the unfiltered result applied to the filtered table", RES, M.replace_expr("Result.filter_best", "only_finished._remove(to_drop)", "self._remove(to_drop)"), "C18.R7"),
    ("weights applied before the span-1 shortcut", RES, M.insert_before("moving_average", lambda st: isinstance(st, ast.If) and "'exp'" in ast.unparse(st.test), "if weights and weights != 'exp': values = list(map(mul, values, weights))"), "C18.R6"),
    ("window start wraps", RES, M.replace_expr("Result._grouped_ys", "Y[-span:]", "Y[len(Y) - span:]"), "C18.R5"),
    ("learners by environment id", RES, M.replace_expr("Result._group_p", "learners.where(learner_id=l_keep)", "learners.where(environment_id=l_keep)"), "C18.R1"),
    ("swapped unpack", RES, M.replace_expr("Result._group_p", "(e_keep, l_keep, v_keep)", "(l_keep, e_keep, v_keep)"), "C18.R1"),
    ("keep larger groups", RES, M.replace_expr("Result._group_p", "len(group) > n_levels", "len(group) > n_levels + 1"), "C18.R2"),
    ("drop equal length", RES, M.replace_expr("Result._global_n", "env_len < n", "env_len <= n"), "C18.R3"),
    ("truncate one row short", RES, M.replace_expr("Result._global_n", "min(length, shorten_to)", "min(length, shorten_to - 1)"), "C18.R3"),
    ("truncate on the value of index again", RES, M.replace_stmt("Result._global_n", lambda st: isinstance(st, ast.Assign) and "Table(View(interactions._data, keep)" in ast.unparse(st), "interactions = interactions.where(index={'<=': shorten_to})"), "C18.R3"),
    ("truncation positions never advance", RES, M.delete_stmt("Result._global_n", M.text_has("loc += length")), "C18.R3"),
    ("bisect learner first", RES, M.replace_expr("Result._remove", "my_bisect_left(env_ids, e, loc, n_interactions)", "my_bisect_left(lrn_ids, e, loc, n_interactions)"), "C18.R4"),
]
