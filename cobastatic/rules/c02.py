"""C02 -- interrupted experiments resume (DESIGN.md 5/C02).

Decided clauses: durability ordering of the log writer, append-not-truncate, records are
emitted only after an evaluation finished, completeness of the skip logic, preamble
suppression on restore, and error discipline of the restore path (torn tail).
"""
import ast
import copy

from ..cfg import CFG
from ..model import walk_shallow, call_name, is_self_attr, dotted_name, norm_stmt, parent, ancestors
from ..util import (has_call, find_calls, nodes_where, escape_path, node_ast_for_effects, guards_of,
                    assigned_value, const_str, unparse, kw, arg_or_kw, enclosing_stmt, control_ancestors, call_tail, canon)
from ..util import clone
from .. import mutate as M

TECHNIQUE = "static analysis: CFG must-pass-through (write -> flush/close before next write or exit), control-dependence extraction (yield guarded by 'id not in restored'), value provenance of the restored Result, who-may-memoise rule on the restore call chain, identity test by exact rational arithmetic over a substitution environment (no code of the repo is executed) of the torn-tail repair's block scan, three-site agreement of the gzip predicate, hash-order rule on the triple ordering"

EXPLANATION = ("Static rules over the transaction-log writer (DiskSink), the task generator (MakeTasks), "
               "Experiment.run and the restore path: write->flush on every path, append mode + one record per "
               "open/close, T4 payload materialised before yield, every task kind guarded by its restored-id set, "
               "preamble suppressed on restore, raw log lines decoded under error handling.")
EXPLANATION += ' R7: nothing on the restore chain is memoised; a log without an experiment row is not a mismatch and gets one appended.'
EXPLANATION += ' R9: only DiskSink.write enters the sink context, once per batch (each record reaches a closed file / complete gzip member before the next is computed).'
EXPLANATION += ' R5 also: an empty file is a fresh start. R8: the encoder drops nothing, _max_chunker partitions the remaining tasks (cardinality domain), an evaluation recorded with no rows is remembered (known finding).'

SINKS = "coba/pipes/sinks.py"
SOURCES = "coba/pipes/sources.py"
EXP = "coba/experiments/core.py"
PROC = "coba/experiments/process.py"
RES = "coba/results/core.py"
ENVS = "coba/environments/core.py"


def run(ctx):
    r1_write_flush(ctx)
    r2_append_batch(ctx)
    r3_materialise(ctx)
    r4_skip_guards(ctx)
    r5_preamble(ctx)
    r6_torn_tail(ctx)
    plain_scan(ctx)
    r7_restore_reads_current_file(ctx)
    r8_nothing_dropped(ctx)
    r9_sink_context_owner(ctx)
    # "interrupted at any moment" includes Ctrl-C followed by a re-run in the same process: the environment cache of a chunked experiment
    # must not be left truncated-but-complete by a KeyboardInterrupt raised while its source is read
    from . import c04
    c04.r6_replay_buffer(ctx, rule="C02.R10", base=True)
    # "re-runs using any execution configuration": the triples evaluated after the interruption get the experiment seed in worker processes as well
    from . import c01
    c01.r1_seed_marshalling(ctx, rule="C02.R11")
    # "the final Result equals that of an uninterrupted run": a resumed run evaluates the same triple with fewer chunk-mates, so what one evaluation
    # leaves in a learner must never reach another one
    from . import c03
    ctx.rule("C02.R12", "an evaluation does not depend on which other triples of its chunk are (still) to be evaluated: a learner that occurs in several triples reaches "
                        "evaluate() only as a fresh deep copy made for that evaluation (C03.R1, C03.R2, C03.R12)")
    sub = type(ctx)(ctx.model, ctx.prop, ctx.tier, silent=True)
    c03.r1_copy_reaches_evaluate(sub)
    c03.r2_copy_flag(sub)
    c03.r12_copy_flag_owner(sub)
    for o in sub.obs:
        o.rule = "C02.R12"
        ctx.obs.append(o)
    ctx.files |= sub.files
    ctx.functions |= sub.functions
    ctx.floor("C02.R12", "learner-copy obligations", len(sub.obs), 4)
    # the repair in front of the restore must take a file for gzip exactly when the writer and the reader do: otherwise it 'repairs' a plain log as gzip and truncates it to nothing
    from . import c12
    ctx.rule("C02.R15", "no scheduled task is lost between MakeTasks and the workers: ChunkTasks re-groups the tasks only (batching partitions every chunk, nothing ends _chunks before its yield loops) -- "
                        "a resumed run, whose params records are all in the file already, has tasks of one kind only")
    chunker_partitions(ctx, "C02.R15")
    ctx.rule("C02.R13", "one gzip predicate: DiskSink.__enter__, DiskSource.read and the torn-tail repair decide 'this is a .gz file' by the same test of the path")
    c12.gz_predicate(ctx, "C02.R13")
    # ids are handed out by order of first appearance (MakeTasks): the resuming PROCESS must see the triples in the same order as the interrupted one
    ctx.rule("C02.R14", "C01.R7 on the path that orders the triples: nothing hash-ordered (a set of object tuples iterates by id()) is iterated into the triple list / the task stream")
    sub = type(ctx)(ctx.model, ctx.prop, ctx.tier, silent=True)
    c01.r7_hash_order(sub)
    for o in sub.obs:
        o.rule = "C02.R14"
        ctx.obs.append(o)
    ctx.files |= sub.files
    ctx.functions |= sub.functions


# ------------------------------------------------------------------------------------------ R1
def r1_write_flush(ctx):
    ctx.rule("C02.R1", "DiskSink.write: every self._file.write(...) is followed on every path by "
                       "self._file.flush() (or the closing `with self` exit) before the next write or exit")
    fn = ctx.fn(SINKS, "DiskSink.write")
    cfg = CFG(fn)

    def is_write(n):
        a = node_ast_for_effects(n)
        return a is not None and any(call_name(c) == "self._file.write" for c in walk_shallow(a) if isinstance(c, ast.Call))

    def is_flush(n):
        a = node_ast_for_effects(n)
        if a is not None and any(call_name(c) in ("self._file.flush", "self._file.close") for c in walk_shallow(a) if isinstance(c, ast.Call)):
            return True
        if n.kind == "with_exit" and any(unparse(i.context_expr) == "self" for i in n.ast.items):
            return True
        return False

    writes = nodes_where(cfg, is_write)
    ctx.floor("C02.R1", "self._file.write sites in DiskSink.write", len(writes), 1)
    flushes = set(nodes_where(cfg, is_flush))
    bad = set(writes) | {cfg.exit_return, cfg.exit_raise}
    for w in writes:
        p = escape_path(cfg, w, flushes, bad)
        ctx.ob("C02.R1", SINKS, "DiskSink.write", cfg.nodes[w].ast,
               "written record is flushed before the next write / return", p is None,
               detail=None if p is None else {"path": cfg.describe_path([w] + p)})
    # the write appends exactly one line terminator per record
    for w in writes:
        calls = [c for c in walk_shallow(cfg.nodes[w].ast) if isinstance(c, ast.Call) and call_name(c) == "self._file.write"]
        for c in calls:
            txt = unparse(c.args[0]) if c.args else ""
            ok = txt.count("'\\n'") == 1 and "line" in txt
            ctx.ob("C02.R1", SINKS, "DiskSink.write", c, "each record is written as line + exactly one '\\n'", ok,
                   stmt="terminator:" + txt)


# ------------------------------------------------------------------------------------------ R2
def r2_append_batch(ctx, rule="C02.R2"):
    ctx.rule(rule, "Experiment.run writes results through DiskSink(result_file, batch=1) opened in append mode "
                       "(one open/append/close per record; for .gz one complete member per record)")
    run = ctx.fn(EXP, "Experiment.run")
    sinks = find_calls(run, "DiskSink")
    ctx.floor(rule, "DiskSink constructions in Experiment.run", len(sinks), 1)
    init = ctx.fn(SINKS, "DiskSink.__init__")
    enter = ctx.fn(SINKS, "DiskSink.__enter__")
    # default mode of DiskSink
    default_mode = None
    args = init.args
    names = [a.arg for a in args.args]
    if "mode" in names:
        i = names.index("mode") - (len(names) - len(args.defaults))
        if 0 <= i < len(args.defaults):
            default_mode = const_str(args.defaults[i])
    for c in sinks:
        ctx.call_sites += 1
        mode = arg_or_kw(c, 1, "mode")
        m = const_str(mode) if mode is not None else default_mode
        ctx.ob(rule, EXP, "Experiment.run", c, "result sink opens the file in append mode (never truncates)",
               m is not None and m.startswith("a"), detail={"mode": m}, stmt="mode:" + unparse(c))
        b = arg_or_kw(c, 2, "batch")
        ok = isinstance(b, ast.Constant) and b.value == 1
        ctx.ob(rule, EXP, "Experiment.run", c, "result sink is constructed with batch=1", ok,
               detail={"batch": unparse(b) if b is not None else None}, stmt="batch:" + unparse(c))
        first = c.args[0] if c.args else kw(c, "filename")
        ctx.ob(rule, EXP, "Experiment.run", c, "result sink writes to result_file",
               first is not None and unparse(first) == "result_file", stmt="file:" + unparse(c))
    # __enter__ opens with the stored mode (binary), for gz and plain alike
    opens = [c for c in walk_shallow(enter) if isinstance(c, ast.Call) and call_name(c) in ("open", "gzip.open")]
    ctx.floor(rule, "open calls in DiskSink.__enter__", len(opens), 2)
    for c in opens:
        modearg = arg_or_kw(c, 1, "mode")
        ok = modearg is not None and "self._mode" in unparse(modearg)
        ctx.ob(rule, SINKS, "DiskSink.__enter__", c, "file is opened with the constructor's mode", ok)
    stores = [n for n in walk_shallow(init) if isinstance(n, ast.Assign) and any(is_self_attr(t, "_mode") for t in n.targets)]
    ctx.ob(rule, SINKS, "DiskSink.__init__", stores[0] if stores else init, "self._mode is the constructor's mode parameter",
           bool(stores) and all(unparse(s.value) == "mode" for s in stores), stmt="self._mode store")
    # one open/close per batch: `with self:` sits inside the batch loop and encloses the write (for .gz this completes the member)
    wr = ctx.fn(SINKS, "DiskSink.write")
    withs = [w for w in walk_shallow(wr) if isinstance(w, ast.With) and any(unparse(i.context_expr) == "self" for i in w.items)]
    ok = False
    for w in withs:
        in_batch_loop = any(isinstance(a, ast.While) and "_unfinished" in unparse(a.test) for a in _ancestors(w))
        has_write = any(isinstance(c, ast.Call) and call_name(c) == "self._file.write" for c in walk_shallow(w))
        batch_inside = any(isinstance(a, ast.While) for a in _ancestors(w)) and any(
            isinstance(x, ast.Assign) and has_call(x.value, "_get_batch") and any(a is aw for a in _ancestors(x) for aw in _ancestors(w) if isinstance(aw, ast.While)) for x in walk_shallow(wr))
        ok = ok or (in_batch_loop and has_write and batch_inside)
    ctx.ob(rule, SINKS, "DiskSink.write", withs[0] if withs else wr, "the file is opened and closed once per batch (`with self` inside the batch loop around the writes)", ok,
           stmt="with self per batch")
    exit_ = ctx.fn(SINKS, "DiskSink.__exit__")
    ok = any(isinstance(c, ast.Call) and unparse(c.func) == "self._file.close" for c in walk_shallow(exit_)) and "self._count == 0" in unparse(exit_)
    ctx.ob(rule, SINKS, "DiskSink.__exit__", exit_, "leaving the outermost `with` closes the file", ok, stmt="__exit__ closes")
    gb = ctx.fn(SINKS, "DiskSink._get_batch")
    ok = "islice(lines, self._batch)" in unparse(gb)
    ctx.ob(rule, SINKS, "DiskSink._get_batch", gb, "a batch holds at most self._batch lines", ok, stmt="_get_batch")
    # the sink that is run is this sink: last element of the joined pipeline that is .run()
    runs = [c for c in walk_shallow(run) if isinstance(c, ast.Call) and isinstance(c.func, ast.Attribute) and c.func.attr == "run"
            and isinstance(c.func.value, ast.Call) and (call_name(c.func.value) or "").endswith("join")]
    ctx.floor(rule, "Pipes.join(...).run() in Experiment.run", len(runs), 1)
    for c in runs:
        last = c.func.value.args[-1] if c.func.value.args else None
        vals = assigned_value(run, last.id) if isinstance(last, ast.Name) else []
        ok = bool(vals) and all(has_call(v, "DiskSink") for v in vals)
        ctx.ob(rule, EXP, "Experiment.run", c, "the pipeline's sink is the DiskSink/ListSink selected by result_file", ok)


def _ancestors(n):
    from ..model import ancestors
    return list(ancestors(n))


# ------------------------------------------------------------------------------------------ R3
def t4_yields(fn):
    out = []
    for n in walk_shallow(fn):
        if isinstance(n, ast.Yield) and isinstance(n.value, (ast.List, ast.Tuple)) and n.value.elts \
                and const_str(n.value.elts[0]) == "T4":
            out.append(n)
    return out


def r3_materialise(ctx, rule="C02.R3"):
    ctx.rule(rule, "ProcessTasks.filter: the T4 payload is list(<...evaluate(...)>) -- an evaluation is recorded "
                   "only after it ran to completion")
    fn = ctx.fn(PROC, "ProcessTasks.filter")
    ys = t4_yields(fn)
    ctx.floor(rule, "T4 yields in ProcessTasks.filter", len(ys), 1)
    for y in ys:
        payload = y.value.elts[2] if len(y.value.elts) >= 3 else None
        ok = False
        exprs = [payload] if payload is not None else []
        if isinstance(payload, ast.Name):
            exprs = assigned_value(fn, payload.id)
        if exprs:
            ok = all(isinstance(e, ast.Call) and call_name(e) in ("list", "tuple") and len(e.args) == 1
                     and has_call(e.args[0], "evaluate") for e in exprs)
        ctx.ob(rule, PROC, "ProcessTasks.filter", y, "T4 payload is materialised (list(...evaluate(...))) before the yield", ok,
               detail={"payload": unparse(payload) if payload is not None else None})


# ------------------------------------------------------------------------------------------ R4
TABLE_COL = {"environments": "environment_id", "learners": "learner_id", "evaluators": "evaluator_id"}


def _conjuncts(test, polarity):
    """positive atoms implied by `test` having `polarity`."""
    if polarity and isinstance(test, ast.BoolOp) and isinstance(test.op, ast.And):
        out = []
        for v in test.values:
            out += _conjuncts(v, True)
        return out
    if not polarity and isinstance(test, ast.BoolOp) and isinstance(test.op, ast.Or):
        out = []
        for v in test.values:
            out += _conjuncts(v, False)
        return out
    if isinstance(test, ast.UnaryOp) and isinstance(test.op, ast.Not):
        return _conjuncts(test.operand, not polarity)
    return [(test, polarity)]


def _not_in_atoms(node, fn):
    out = []
    for test, pol in guards_of(node, fn):
        for atom, p in _conjuncts(test, pol):
            if isinstance(atom, ast.Compare) and len(atom.ops) == 1:
                if (isinstance(atom.ops[0], ast.NotIn) and p) or (isinstance(atom.ops[0], ast.In) and not p):
                    out.append((atom.left, atom.comparators[0]))
    return out


def _restored_set_kind(fn, name):
    """kind of the restored-id set bound to local `name`: 'environments'|'learners'|'evaluators'|'triples'|None"""
    vals = assigned_value(fn, name)
    if len(vals) != 1:
        return None
    v = vals[0]
    if not (isinstance(v, ast.Call) and call_name(v) in ("set", "frozenset") and len(v.args) == 1):
        return None
    a = v.args[0]
    if isinstance(a, ast.Subscript) and isinstance(a.value, ast.Attribute) and is_self_attr(a.value.value, "_restored"):
        tbl, col = a.value.attr, const_str(a.slice)
        if tbl in TABLE_COL and TABLE_COL[tbl] == col:
            return tbl
        return None
    if isinstance(a, ast.Call) and call_name(a) == "zip" and len(a.args) == 1 and isinstance(a.args[0], ast.Starred):
        s = a.args[0].value
        if isinstance(s, ast.Subscript) and isinstance(s.value, ast.Attribute) and is_self_attr(s.value.value, "_restored") \
                and s.value.attr == "interactions" and isinstance(s.slice, ast.List):
            cols = [const_str(e) for e in s.slice.elts]
            if cols == ["environment_id", "learner_id", "evaluator_id"]:
                return "triples"
    return None


def task_yields(fn):
    out = []
    for n in walk_shallow(fn):
        if isinstance(n, ast.Yield) and isinstance(n.value, ast.Call) and call_name(n.value) == "Task":
            out.append(n)
    return out


def _task_ids(call):
    """[(slot, id expr)] for the non-None env/lrn/val arguments of a Task(...) construction."""
    out = []
    for i, slot in enumerate(("env", "lrn", "val")):
        a = arg_or_kw(call, i, slot)
        if a is None or (isinstance(a, ast.Constant) and a.value is None):
            out.append((slot, None))
        elif isinstance(a, ast.Tuple) and a.elts:
            out.append((slot, a.elts[0]))
        else:
            out.append((slot, a))
    return out


def r4_skip_guards(ctx):
    ctx.rule("C02.R4", "MakeTasks.read: every yielded Task is control-dependent on '<its id> not in <restored set>' "
                       "where the set is built from the matching table/column of the restored Result")
    fn = ctx.fn(PROC, "MakeTasks.read")
    ys = task_yields(fn)
    ctx.floor("C02.R4", "yield Task(...) sites in MakeTasks.read", len(ys), 4)
    kind_of_slot = {"env": "environments", "lrn": "learners", "val": "evaluators"}
    for y in ys:
        ids = _task_ids(y.value)
        present = [(s, e) for s, e in ids if e is not None]
        atoms = _not_in_atoms(y, fn)
        ok, why = False, ""
        if len(present) == 1:
            slot, idexpr = present[0]
            for left, right in atoms:
                if isinstance(right, ast.Name) and _restored_set_kind(fn, right.id) == kind_of_slot[slot] \
                        and unparse(left) == unparse(idexpr):
                    ok = True
            why = f"{slot}-only task needs guard '{unparse(idexpr)} not in set(self._restored.{kind_of_slot[slot]}[...])'"
        elif len(present) == 3:
            want = "(" + ", ".join(unparse(e) for _, e in present) + ")"
            for left, right in atoms:
                if isinstance(right, ast.Name) and _restored_set_kind(fn, right.id) == "triples" \
                        and isinstance(left, ast.Tuple) and [unparse(e) for e in left.elts] == [unparse(e) for _, e in present]:
                    ok = True
            why = f"triple task needs guard '{want} not in set(zip(*self._restored.interactions[[env,lrn,val ids]]))'"
        else:
            why = "unexpected Task shape"
        ctx.ob("C02.R4", PROC, "MakeTasks.read", y, "task is skipped when its id is already in the restored Result", ok,
               detail={"need": why, "guards": [unparse(l) + " not in " + unparse(r) for l, r in atoms]})
    # the restored Result reaches MakeTasks
    init = ctx.fn(PROC, "MakeTasks.__init__")
    st = [n for n in walk_shallow(init) if isinstance(n, ast.Assign) and any(is_self_attr(t, "_restored") for t in n.targets)]
    ok = bool(st) and all("restored" in {x.id for x in ast.walk(s.value) if isinstance(x, ast.Name)} for s in st)
    ctx.ob("C02.R4", PROC, "MakeTasks.__init__", st[0] if st else init, "self._restored is the constructor's restored Result", ok,
           stmt="self._restored store")


# ------------------------------------------------------------------------------------------ R5
def r5_preamble(ctx):
    ctx.rule("C02.R5", "the restored Result reaches MakeTasks, TransactionEncode and the preamble choice; "
                       "the version/experiment lines are written only for a fresh file")
    run = ctx.fn(EXP, "Experiment.run")
    from ..util import name_bound
    rest = name_bound(run, lambda v: has_call(v, "from_file") or has_call(v, "from_save"), "restored")
    vals = assigned_value(run, rest)
    from_file = [v for v in vals if has_call(v, "from_file") or has_call(v, "from_save")]
    ctx.ob("C02.R5", EXP, "Experiment.run", from_file[0] if from_file else run,
           "restored = Result.from_file(result_file) when the file exists", bool(from_file)
           and all(unparse(c.args[0]) == "result_file" for v in from_file for c in find_calls(v, "from_file") + find_calls(v, "from_save") if c.args),
           stmt="restored := Result.from_file(result_file)")
    for v in from_file:
        g = guards_of(enclosing_stmt(v), run)
        ok = any("result_file" in unparse(t) and "exists" in unparse(t) and pol for t, pol in g)
        ctx.ob("C02.R5", EXP, "Experiment.run", enclosing_stmt(v), "restore is attempted exactly when the result file exists", ok)
        ok2 = any("st_size" in unparse(t) and pol for t, pol in g) or any("getsize" in unparse(t) and pol for t, pol in g)
        ctx.ob("C02.R5", EXP, "Experiment.run", enclosing_stmt(v), "an existing but empty file (the shortest prefix a killed run can leave) is not restored from: the run starts fresh", ok2,
               stmt="empty file is a fresh start")
    for callee, pos in (("MakeTasks", 1), ("TransactionEncode", 0)):
        cs = find_calls(run, callee)
        ctx.floor("C02.R5", f"{callee}(...) in Experiment.run", len(cs), 1)
        for c in cs:
            a = arg_or_kw(c, pos, "restored")
            ctx.ob("C02.R5", EXP, "Experiment.run", c, f"{callee} receives the restored Result",
                   a is not None and unparse(a) == rest)
    pre_name = name_bound(run, lambda v: isinstance(v, ast.IfExp) and has_call(v, "Insert"), "preamble")
    pre = assigned_value(run, pre_name)
    ok = False
    for v in pre:
        if isinstance(v, ast.IfExp) and unparse(v.test) in (f"{rest} and {rest}.experiment",) and has_call(v.body, "Identity") \
                and has_call(v.orelse, "Insert") and '"T0"' in ast.unparse(v.orelse).replace("'", '"'):
            ok = True
    ctx.ob("C02.R5", EXP, "Experiment.run", enclosing_stmt(pre[0]) if pre else run,
           "the T0 (experiment) record is inserted exactly when the file does not hold one yet (fresh file, or a log cut before its experiment row)", ok, stmt="preamble choice")
    # `restored.experiment` is the witness "the file already holds its experiment record": TransactionResult must leave it EMPTY unless it read such a record
    tr = ctx.fn(RES, "TransactionResult.filter")
    rets = [r for r in ast.walk(tr) if isinstance(r, ast.Return) and isinstance(r.value, ast.Call) and call_name(r.value) == "Result" and len(r.value.args) >= 5]
    EXPD = unparse(rets[0].value.args[4]) if rets else "exp_dict"
    stores = [x for x in ast.walk(tr) if isinstance(x, ast.Assign) and any(unparse(t) == EXPD for t in x.targets)]
    init = [x for x in stores if not any(isinstance(a, (ast.For, ast.While)) for a in ancestors(x))]
    later = [x for x in stores if x not in init]
    ok_i = len(init) == 1 and isinstance(init[0].value, ast.Dict) and not init[0].value.keys
    ok_l = bool(later) and all(any(pol and "'experiment'" in unparse(t) for t, pol in guards_of(x, tr)) for x in later)
    ctx.ob("C02.R5", RES, "TransactionResult.filter", init[0] if init else tr, "the restored experiment description starts empty and is filled only from an 'experiment' record "
           "(otherwise a log cut after its version line would never get its experiment record)", ok_i and ok_l, detail={"initial": unparse(init[0].value) if init else None}, stmt="experiment dict only from its record")
    enc = ctx.fn(RES, "TransactionEncode.filter")
    vys = [n for n in walk_shallow(enc) if isinstance(n, ast.Yield) and n.value is not None and "version" in unparse(n.value)]
    ctx.floor("C02.R5", "version yield in TransactionEncode.filter", len(vys), 1)
    for y in vys:
        g = []
        for t, pol in guards_of(y, enc):
            g += _conjuncts(t, pol)
        ok = any(unparse(a) == "self._restored" and p is False for a, p in g)
        ctx.ob("C02.R5", RES, "TransactionEncode.filter", y, "version line is emitted only when not restoring", ok)
    einit = ctx.fn(RES, "TransactionEncode.__init__")
    st = [n for n in walk_shallow(einit) if isinstance(n, ast.Assign) and any(is_self_attr(t, "_restored") for t in n.targets)]
    ctx.ob("C02.R5", RES, "TransactionEncode.__init__", st[0] if st else einit, "self._restored is the constructor argument",
           bool(st) and all(unparse(s.value) == "restored" for s in st), stmt="self._restored store")


# ------------------------------------------------------------------------------------------ R7
MEMO_DECORATORS = ("lru_cache", "cache", "cached_property", "memoize", "memoized")
SOURCES = "coba/pipes/sources.py"


def r7_restore_reads_current_file(ctx):
    ctx.rule("C02.R7", "the restore path parses the file as it is now: no function on the chain Experiment.run -> Result.from_file -> from_save -> "
                       "from_source -> DiskSource.read/TransactionDecode.filter/TransactionResult.filter is memoised (a cache keyed by file name "
                       "would hand a second resume the state of the first); a log without an experiment row is never a mismatch")
    res_cls = ctx.model.cls(RES, "Result")
    chain, todo = [], ["from_file"]
    while todo:
        nm = todo.pop()
        fn = res_cls.methods.get(nm)
        if fn is None or (RES, f"Result.{nm}", fn) in chain:
            continue
        chain.append((RES, f"Result.{nm}", fn))
        for c in walk_shallow(fn):
            if isinstance(c, ast.Call) and isinstance(c.func, ast.Attribute) and isinstance(c.func.value, ast.Name) and c.func.value.id in ("Result", "cls") \
                    and c.func.attr in res_cls.methods:
                todo.append(c.func.attr)
    for rel, qual in ((SOURCES, "DiskSource.read"), (SOURCES, "DiskSource.__init__"), (RES, "TransactionDecode.filter"), (RES, "TransactionResult.filter")):
        chain.append((rel, qual, ctx.fn(rel, qual)))
    ctx.floor("C02.R7", "functions on the restore chain", len(chain), 6)
    for rel, qual, fn in chain:
        ctx.touch(rel, qual)
        decs = [(dotted_name(d.func) if isinstance(d, ast.Call) else dotted_name(d)) or unparse(d) for d in fn.decorator_list]
        bad = [d for d in decs if d.split(".")[-1] in MEMO_DECORATORS]
        ctx.ob("C02.R7", rel, qual, fn, "the function is not memoised (decorators: only staticmethod/classmethod/property)", not bad and all(d.split(".")[-1] in ("staticmethod", "classmethod", "property", "overload") for d in decs),
               detail={"decorators": decs}, stmt=f"decorators of {qual}")
    # a missing experiment row (crash between the version row and the experiment row) must not count as a mismatch
    run = ctx.fn(EXP, "Experiment.run")
    gets = [c for c in walk_shallow(run) if isinstance(c, ast.Call) and call_tail(c) == "get" and isinstance(c.func, ast.Attribute) and unparse(c.func.value).endswith(".experiment")
            and c.args and const_str(c.args[0]) in ("n_learners", "n_environments")]
    ctx.floor("C02.R7", "experiment-row look-ups in the mismatch test", len(gets), 2)
    for c in gets:
        cmp_ = parent(c)
        other = None
        if isinstance(cmp_, ast.Compare) and len(cmp_.ops) == 1 and isinstance(cmp_.ops[0], (ast.NotEq, ast.Eq)):
            other = cmp_.left if cmp_.comparators[0] is c else cmp_.comparators[0]
        ok = other is not None and len(c.args) == 2 and unparse(c.args[1]) == unparse(other)
        ctx.ob("C02.R7", EXP, "Experiment.run", c, "when the log has no experiment row the count defaults to the given one (no mismatch, the run resumes)", ok,
               detail={"compared_with": unparse(other) if other is not None else None, "default": unparse(c.args[1]) if len(c.args) == 2 else None})


# ------------------------------------------------------------------------------------------ R8
def chunker_partitions(ctx, rule):
    """ChunkTasks._max_chunker in the cardinality domain: for n = 0..14 tasks and max_tasks in {None, 0, 1..6} the yielded batches are
    non-empty, respect max_tasks and their sizes sum to n (no task lost or duplicated by batching)."""
    from ..cardinality import CardEval, Elems, Opaque, Unmodelled, length
    fn = ctx.fn(PROC, "ChunkTasks._max_chunker")
    ps = [a.arg for a in fn.args.args]
    bad, unm, cfgs = [], None, 0
    for n in range(0, 15):
        for mx in (None, 1, 2, 3, 4, 5, 6):
            cfgs += 1
            ce = CardEval({ps[0]: Opaque(), ps[1]: Elems(n), ps[2]: mx})
            try:
                ce.run(fn.body)
                sizes = [length(y) for y in ce.yields]
            except Unmodelled as e:
                unm = str(e)
                break
            ok = sum(sizes) == n and all(sz > 0 for sz in sizes) and (mx is None or all(sz <= mx for sz in sizes))
            if not ok:
                bad.append({"n": n, "max_tasks": mx, "batch sizes": sizes})
        if unm:
            break
    ctx.ob(rule, PROC, "ChunkTasks._max_chunker", fn, "batching partitions the tasks of a chunk: sizes sum to n, every batch non-empty and <= max_tasks (n <= 14, max_tasks <= 6)",
           None if unm else not bad, detail={"configurations": cfgs, "unmodelled": unm, "first_mismatches": bad[:3]}, stmt="_max_chunker partitions")
    ch = ctx.fn(PROC, "ChunkTasks._chunks")
    calls = [c for c in ast.walk(ch) if isinstance(c, ast.Call) and call_tail(c) == "_max_chunker"]
    ctx.ob(rule, PROC, "ChunkTasks._chunks", calls[0] if calls else ch, "every chunk goes through the batcher", bool(calls), stmt="chunks batched")
    # nothing ends the generator before its yield loops: a resumed run often has tasks of one kind only (every params record is already in the file)
    exits = [x for x in ast.walk(ch) if isinstance(x, (ast.Return, ast.Raise)) and enclosing_function(x) is ch] if False else [x for x in walk_shallow(ch) if isinstance(x, (ast.Return, ast.Raise))]
    loops = [l_ for l_ in ch.body if isinstance(l_, ast.For) and any(isinstance(y, (ast.Yield, ast.YieldFrom)) for y in ast.walk(l_))]
    ctx.ob(rule, PROC, "ChunkTasks._chunks", (exits or [ch])[0], "the three groups of tasks (without environment, not chunked, chunked) are each yielded unconditionally: no return / raise ends _chunks early", not exits and len(loops) >= 3,
           detail={"early exits": [unparse(e) for e in exits], "top-level yield loops": len(loops)}, stmt="_chunks has no early exit")


def r8_nothing_dropped(ctx):
    ctx.rule("C02.R8", "whatever was evaluated is written: the encoder's dispatch loop has no continue/break/return and each arm yields unconditionally "
                       "(skipping is MakeTasks' job, keyed by the full triple -- R4); batching by maxtasksperchunk partitions the remaining tasks")
    enc = ctx.fn(RES, "TransactionEncode.filter")
    loops = [s_ for s_ in enc.body if isinstance(s_, ast.For)]
    ctx.floor("C02.R8", "dispatch loop of TransactionEncode.filter", len(loops), 1)
    lp = loops[0]
    jumps = [x for x in ast.walk(lp) if isinstance(x, (ast.Continue, ast.Break, ast.Return))]
    ctx.ob("C02.R8", RES, "TransactionEncode.filter", jumps[0] if jumps else lp, "the dispatch loop never skips a transaction (no continue / break / return)", not jumps, stmt="encoder loop has no jumps")
    for y in [x for x in ast.walk(lp) if isinstance(x, ast.Yield)]:
        g = [(unparse(t), pol) for t, pol in guards_of(y, enc)]
        extra = [t for t, pol in g if not (t.endswith("[0] == 'T0'") or t.endswith("[0] == 'T1'") or t.endswith("[0] == 'T2'") or t.endswith("[0] == 'T3'") or t.endswith("[0] == 'T4'"))]
        ctx.ob("C02.R8", RES, "TransactionEncode.filter", y, "the record is written whenever its transaction arrives (guarded by the tag test only)", not extra, detail={"other guards": extra})
    encoder_stateless(ctx, "C02.R8")
    chunker_partitions(ctx, "C02.R8")
    # the other direction: whatever was written is recognised as done on resume.  MakeTasks derives the finished triples from the rows of
    # the restored interactions table, so an I record must leave a trace there
    res = ctx.fn(RES, "TransactionResult.filter")
    for iff in [x for x in ast.walk(res) if isinstance(x, ast.If) and "_packed" in unparse(x.test)]:
        conj = iff.test.values if isinstance(iff.test, ast.BoolOp) and isinstance(iff.test.op, ast.And) else [iff.test]
        truthy = [c for c in conj if isinstance(c, ast.Subscript) and const_str(c.slice) == "_packed"]
        ctx.ob("C02.R8", RES, "TransactionResult.filter", iff, "an evaluation recorded with no rows is still remembered as done (otherwise every resume evaluates and records it again)",
               not truthy, detail={"test": unparse(iff.test)}, stmt="empty evaluation remembered")


# ------------------------------------------------------------------------------------------ R6
def encoder_stateless(ctx, rule):
    init = ctx.fn(RES, "TransactionEncode.__init__")
    stores = [unparse(t) for x in ast.walk(init) if isinstance(x, ast.Assign) for t in x.targets]
    ctx.ob(rule, RES, "TransactionEncode.__init__", init, "the encoder keeps nothing but the restored flag (it has no basis for filtering)", stores == ["self._restored"], detail={"stores": stores}, stmt="encoder state")
    flt = ctx.fn(RES, "TransactionEncode.filter")
    writes = [x for x in ast.walk(flt) if isinstance(x, (ast.Assign, ast.AugAssign)) and any(is_self_attr(t) or (isinstance(t, ast.Subscript) and is_self_attr(t.value))
                                                                                               for t in (x.targets if isinstance(x, ast.Assign) else [x.target]))]
    ctx.ob(rule, RES, "TransactionEncode.filter", (writes or [flt])[0], "filter() stores nothing on the encoder", not writes, stmt="encoder filter state")


def _in_tolerant_try(node, fn):
    """node lies in the body of a try with a handler that catches ValueError (or wider) and does not re-raise."""
    for comp, branch in control_ancestors(node, fn):
        if isinstance(comp, ast.Try) and branch == "body":
            for h in comp.handlers:
                names = []
                if h.type is None:
                    names = ["*"]
                else:
                    ts = h.type.elts if isinstance(h.type, ast.Tuple) else [h.type]
                    names = [dotted_name(t) or "?" for t in ts]
                wide = any(n.split(".")[-1] in ("*", "Exception", "BaseException", "ValueError", "JSONDecodeError") for n in names)
                reraises = any(isinstance(x, ast.Raise) for s in h.body for x in walk_shallow(s))
                if wide and not reraises:
                    return True
    return False


def r6_torn_tail(ctx):
    ctx.rule("C02.R6", "a partly written last record never makes the file unusable: before Experiment.run restores from (and appends to) an existing result file it cuts the "
                       "partial tail off -- a call of the repair helper dominates Result.from_file and the construction of the sink on the CFG of run(); the helper keeps "
                       "everything up to the last line end (plain) / the end of the last complete gzip member (.gz) and truncates the rest.  Readers that are used WITHOUT "
                       "that repair must tolerate the torn tail themselves (a: JSON decoding, b: the .gz read)")
    from ..cfg import CFG
    run = ctx.fn(EXP, "Experiment.run")
    g = CFG(run)
    dom = g.dominators()

    def nodes_calling(name):
        return [nd.id for nd in g.nodes if nd.ast is not None and nd.kind in ("stmt", "test") and any(isinstance(c, ast.Call) and (call_name(c) or "").split(".")[-1] == name for c in ast.walk(nd.ast))]
    repair_name = None
    for (rel, qual), f_ in ctx.model.functions.items():
        if rel == EXP and any(isinstance(c, ast.Call) and call_tail(c) == "truncate" for c in ast.walk(f_)):
            repair_name = qual.split(".")[-1]
            repair_fn = f_
    repairs = nodes_calling(repair_name) if repair_name else []
    restores = nodes_calling("from_file")
    sinks_ = nodes_calling("DiskSink")
    ctx.floor("C02.R6", "restore / sink construction sites in Experiment.run", len(restores) + len(sinks_), 2)
    # must-pass: every path to the restore / the sink construction has either run the repair or left the repair's own guard by its false edge (no file: nothing to cut)
    from ..cfg import forward
    guard_tests = set()
    for r in repairs:
        for t, pol in guards_of(g.nodes[r].ast, run):
            guard_tests |= {nd.id for nd in g.nodes if nd.kind == "test" and nd.ast is t}

    def transfer(node, st, label):
        if label in ("exc", "abandon"):
            return st
        if node.id in repairs:
            return True
        if node.id in guard_tests and label == "false":
            return True
        return st
    IN = forward(g, False, transfer, lambda a, b: a and b)
    repaired = bool(repairs) and all(IN.get(x, False) for x in restores + sinks_)
    for x in restores + sinks_:
        ctx.ob("C02.R6", EXP, "Experiment.run", g.nodes[x].ast, "the partial tail of an existing result file is cut off before the file is restored from / appended to", bool(repairs) and bool(IN.get(x, False)),
               stmt="repair precedes: " + norm_stmt(g.nodes[x].ast)[:70])
    for r in repairs:
        # the repair is attempted for every existing file: its guard is the existence test alone
        gs = [unparse(t) for t, pol in guards_of(g.nodes[r].ast, run) if pol]
        ctx.ob("C02.R6", EXP, "Experiment.run", g.nodes[r].ast, "the repair runs whenever the result file exists (plain and .gz alike)", bool(gs) and all("exists" in t or t == "result_file" for t in gs), detail={"guards": gs})
    if repair_name:
        f_ = repair_fn
        P = f_.args.args[0].arg
        truncs = [c for c in ast.walk(f_) if isinstance(c, ast.Call) and call_tail(c) == "truncate"]
        KEEP = unparse(truncs[0].args[0]) if truncs and truncs[0].args else None
        keeps = [x for x in ast.walk(f_) if isinstance(x, ast.Assign) and any(KEEP in [unparse(e) for e in (t.elts if isinstance(t, ast.Tuple) else [t])] for t in x.targets)]
        gz = any(isinstance(t, ast.Attribute) and t.attr == "eof" for x in ast.walk(f_) if isinstance(x, ast.If) for t in ast.walk(x.test)) and any(isinstance(a_, ast.Attribute) and a_.attr == "unused_data" for a_ in ast.walk(f_))
        gz_branch = any(isinstance(x, ast.If) and ".gz" in unparse(x.test) and P in unparse(x.test) for x in ast.walk(f_))
        mode = [c for c in ast.walk(f_) if isinstance(c, ast.Call) and call_name(c) == "open" and len(c.args) >= 2 and const_str(c.args[1]) in ("rb+", "r+b")]
        ctx.ob("C02.R6", EXP, repair_name, f_, ".gz files are kept up to the end of their last complete member (member ends found with a decompressobj's eof / unused_data)", gz and gz_branch, stmt="repair: last complete member")
        ctx.ob("C02.R6", EXP, repair_name, truncs[0] if truncs else f_, "the rest is truncated in place (binary read/write open, no rewrite of the kept part)", bool(truncs) and bool(mode), stmt="repair: truncate")
    consumers = [(RES, "TransactionDecode.filter", repaired)]
    if ctx.thorough:
        consumers.append((ENVS, "Environments.from_result", False))
    n_sites = 0
    for rel, qual, covered in consumers:
        fn = ctx.fn(rel, qual)
        for n in walk_shallow(fn):
            site = None
            if isinstance(n, ast.Call) and call_name(n) in ("json.loads", "coba.json.loads", "loads"):
                site = n
            elif isinstance(n, ast.Call) and call_name(n) == "map" and n.args and dotted_name(n.args[0]) in ("json.loads", "coba.json.loads"):
                site = n
            if site is None:
                continue
            n_sites += 1
            ok = _in_tolerant_try(site, fn) or covered
            ctx.ob("C02.R6a", rel, qual, site, "decoding of a raw log line tolerates a torn (undecodable) last line, or only ever sees files whose torn tail was cut off first", ok)
    ctx.floor("C02.R6a", "JSON decode sites on the restore path", n_sites, 2)
    ctx.rules["C02.R6a"] = "see C02.R6 (a)"
    rd = ctx.fn(SOURCES, "DiskSource.read")
    reads = [n for n in walk_shallow(rd) if isinstance(n, ast.Call) and isinstance(n.func, ast.Attribute) and n.func.attr in ("readline", "readlines", "read")]
    ctx.floor("C02.R6b", "readline sites in DiskSource.read", len(reads), 1)
    ctx.rules["C02.R6b"] = "see C02.R6 (b)"
    for r in reads:
        ok = repaired
        for comp, branch in control_ancestors(r, rd):
            if isinstance(comp, ast.Try) and branch == "body":
                for h in comp.handlers:
                    t = unparse(h.type) if h.type is not None else "*"
                    if any(x in t for x in ("EOFError", "BadGzipFile", "OSError", "Exception", "*")):
                        ok = True
        ctx.ob("C02.R6b", SOURCES, "DiskSource.read", r, "reading a truncated .gz member does not abort the restore (tolerated, or cut off before the restore)", ok)
    ctx.rules["C02.R6c"] = "see C02.R6"
    enter = ctx.fn(SINKS, "DiskSink.__enter__")
    ctx.ob("C02.R6c", SINKS, "DiskSink.__enter__", enter, "an append never lands behind a torn tail (the tail is cut off before the sink of a resumed run is built)", repaired, stmt="append-after-torn-tail")


# ------------------------------------------------------------------------------------------ controls
# ------------------------------------------------------------------------------------------------------------------------
# The plain-file branch of the repair helper, decided symbolically (no byte of it is executed): the loop is a backwards scan in blocks.  Its body
# is turned into a substitution environment (seek -> current offset, read(n) -> a block [offset, offset+n), <block>.rfind(b'\n') -> a symbol E,
# len(<block>) -> n, max(0, pos - K) -> a symbol S with 0 <= S < pos); the offset that is kept when a line end was found must be IDENTICALLY
# (exact rational identity testing, algebra.py) block offset + E + 1, the value kept when none was found must keep the loop going, the found one must
# end it, the next block must end where this one began and the first one at the end of the file.
class _Subst(ast.NodeTransformer):
    def __init__(self, env):
        self.env = env

    def visit_Name(self, node):
        v = self.env.get(node.id)
        return clone(v) if isinstance(v, ast.AST) else node


def _tv(e, env):
    """truth value of a test under a numeric / None environment (own evaluator over the AST of the test)"""
    from ..algebra import ev
    if isinstance(e, ast.BoolOp):
        vals = [_tv(v, env) for v in e.values]
        return all(vals) if isinstance(e.op, ast.And) else any(vals)
    if isinstance(e, ast.UnaryOp) and isinstance(e.op, ast.Not):
        return not _tv(e.operand, env)
    if isinstance(e, ast.Compare):
        ok, left = True, e.left
        for op, right in zip(e.ops, e.comparators):
            if isinstance(op, (ast.Is, ast.IsNot)):
                a = _val(left, env)
                b = _val(right, env)
                r = (a is None and b is None) if (a is None or b is None) else a == b
                r = r if isinstance(op, ast.Is) else not r
            else:
                a, b = _val(left, env), _val(right, env)
                if a is None or b is None:
                    r = {ast.Eq: a == b, ast.NotEq: a != b}.get(type(op))
                    if r is None:
                        raise ValueError("ordering None")
                else:
                    r = {ast.Lt: a < b, ast.LtE: a <= b, ast.Gt: a > b, ast.GtE: a >= b, ast.Eq: a == b, ast.NotEq: a != b}[type(op)]
            ok = ok and r
            left = right
        return ok
    v = _val(e, env)
    return bool(v) if v is not None else False


def _val(e, env):
    from ..algebra import ev
    if isinstance(e, ast.Constant) and e.value is None:
        return None
    if isinstance(e, ast.Name) and e.id in env and env[e.id] is None:
        return None
    if isinstance(e, ast.IfExp):
        return _val(e.body if _tv(e.test, env) else e.orelse, env)
    if isinstance(e, ast.BoolOp):   # `a or b` / `a and b` as values
        v = None
        for x in e.values:
            v = _val(x, env)
            t = bool(v) if v is not None else False
            if (isinstance(e.op, ast.Or) and t) or (isinstance(e.op, ast.And) and not t):
                return v
        return v
    return ev(e, env)


def plain_scan(ctx, rule="C02.R6"):
    from ..algebra import identically_zero, NotArithmetic
    from fractions import Fraction
    fn = None
    for (rel, qual), f_ in ctx.model.functions.items():
        if rel == EXP and any(isinstance(c, ast.Call) and call_tail(c) == "truncate" for c in ast.walk(f_)):
            fn, name = f_, qual.split(".")[-1]
    if fn is None:
        ctx.ob(rule, EXP, "Experiment.run", ctx.fn(EXP, "Experiment.run"), "a repair helper (the function that truncates the result file) exists", False, stmt="repair helper")
        return
    trunc = next(c for c in ast.walk(fn) if isinstance(c, ast.Call) and call_tail(c) == "truncate")
    F = unparse(trunc.func.value)
    KEEP = unparse(trunc.args[0]) if trunc.args else None
    gz_if = next((x for x in ast.walk(fn) if isinstance(x, ast.If) and ".gz" in unparse(x.test)), None)
    loops = [w for st in (gz_if.orelse if gz_if is not None else []) for w in ast.walk(st) if isinstance(w, ast.While)]
    if KEEP is None or gz_if is None or len(loops) != 1:
        ctx.ob(rule, EXP, name, fn, "the plain branch of the repair is one backwards block scan", False, detail={"loops": len(loops)}, stmt="plain scan: form")
        return
    loop = loops[0]
    env = {}        # name -> substituted AST
    blocks = {}     # block symbol -> (offset AST, length AST)
    state = {"pos": None, "n": 0, "clamp": []}

    def sub(e):
        return _Subst(env).visit(clone(e))

    def lower(e):
        """substitute, then replace the file / block operations by symbols"""
        e = sub(e)

        class L(ast.NodeTransformer):
            def visit_Call(self, c):
                c = self.generic_visit(c)
                if isinstance(c.func, ast.Attribute) and unparse(c.func.value) == F and c.func.attr == "read" and len(c.args) == 1:
                    state["n"] += 1
                    b = f"__blk{state['n']}"
                    blocks[b] = (state["pos"], c.args[0])
                    return ast.Name(b, ast.Load())
                if isinstance(c.func, ast.Attribute) and c.func.attr == "rfind" and isinstance(c.func.value, ast.Name) and c.func.value.id in blocks \
                        and len(c.args) == 1 and isinstance(c.args[0], ast.Constant) and c.args[0].value == b"\n":
                    return ast.Name("__E_" + c.func.value.id, ast.Load())
                if isinstance(c.func, ast.Name) and c.func.id == "len" and len(c.args) == 1 and isinstance(c.args[0], ast.Name) and c.args[0].id in blocks:
                    return clone(blocks[c.args[0].id][1])
                if isinstance(c.func, ast.Name) and c.func.id == "max" and len(c.args) == 2 and any(isinstance(a, ast.Constant) and a.value == 0 for a in c.args):
                    other = next(a for a in c.args if not (isinstance(a, ast.Constant) and a.value == 0))
                    state["clamp"].append(other)
                    return ast.Name(f"__S{len(state['clamp'])}", ast.Load())
                return c

            def visit_BinOp(self, b_):
                b_ = self.generic_visit(b_)
                if isinstance(b_.left, ast.Constant) and isinstance(b_.right, ast.Constant) and isinstance(b_.left.value, int) and isinstance(b_.right.value, int) \
                        and isinstance(b_.op, ast.Pow) and 0 <= b_.right.value <= 64:
                    return ast.Constant(b_.left.value ** b_.right.value)
                return b_
        return L().visit(e)

    def run_block(stmts):
        for st in stmts:
            if isinstance(st, ast.Assign) and len(st.targets) == 1:
                t = st.targets[0]
                if isinstance(t, ast.Tuple) and isinstance(st.value, ast.Tuple) and len(t.elts) == len(st.value.elts):
                    vals = [lower(v) for v in st.value.elts]
                    for n_, v in zip(t.elts, vals):
                        env[unparse(n_)] = v
                else:
                    env[unparse(t)] = lower(st.value)
            elif isinstance(st, ast.Expr) and isinstance(st.value, ast.Call) and isinstance(st.value.func, ast.Attribute) and unparse(st.value.func.value) == F and st.value.func.attr == "seek" and len(st.value.args) == 1:
                state["pos"] = lower(st.value.args[0])
            elif isinstance(st, ast.If) and all(isinstance(x, ast.Assign) and len(x.targets) == 1 and isinstance(x.targets[0], ast.Name) for x in st.body + st.orelse):
                test = lower(st.test)
                names = [x.targets[0].id for x in st.body + st.orelse]
                for n_ in dict.fromkeys(names):
                    a = next((lower(x.value) for x in st.body if x.targets[0].id == n_), env.get(n_, ast.Name(n_, ast.Load())))
                    b = next((lower(x.value) for x in st.orelse if x.targets[0].id == n_), env.get(n_, ast.Name(n_, ast.Load())))
                    env[n_] = ast.IfExp(test, a, b)
            elif isinstance(st, (ast.Pass,)) or (isinstance(st, ast.Expr) and isinstance(st.value, ast.Constant)):
                continue
            else:
                return False
        return True

    # the statements of the plain branch in front of the loop give the initial values (seen through the assignments in front of the .gz test as well)
    pre = []
    for st in ast.walk(fn):
        for body in (getattr(st, "body", None),):
            if isinstance(body, list) and gz_if in body:
                pre = body[:body.index(gz_if)]
    # `size = f.seek(0, 2)`: the end of the file
    SIZE = next((unparse(x.targets[0]) for x in pre if isinstance(x, ast.Assign) and isinstance(x.value, ast.Call) and call_tail(x.value) == "seek"
                 and [unparse(a) for a in x.value.args] == ["0", "2"]), None)
    straight = True
    for st_ in [s_ for s_ in pre if isinstance(s_, ast.Assign)]:
        if SIZE and unparse(st_.targets[0]) == SIZE:
            env[SIZE] = ast.Name("__size", ast.Load())
        else:
            straight = straight and run_block([st_])
    straight = straight and run_block(gz_if.orelse[:gz_if.orelse.index(loop)] if loop in gz_if.orelse else [])
    init = dict(env)
    guard = loop.test
    cur_names = sorted({n.id for n in ast.walk(guard) if isinstance(n, ast.Name)})
    POS = next((n for n in cur_names if n != KEEP), None)
    pos0 = init.get(POS)
    # inside the loop the loop variables are free symbols again
    env[POS] = ast.Name("__pos", ast.Load())
    env[KEEP] = ast.Name("__keep", ast.Load())
    ok_form = straight and POS is not None and run_block(loop.body) and len(blocks) == 1 and not loop.orelse
    ctx.ob(rule, EXP, name, loop, "the plain branch of the repair is one backwards block scan (straight-line body: seek, one read, rfind of the line end, the kept offset, the next position)", ok_form,
           detail={"blocks": len(blocks)}, stmt="plain scan: form")
    if not ok_form:
        return
    (bname, (off, length)), = blocks.items()
    E = "__E_" + bname
    keep_v, pos_v = env[KEEP], env[POS]

    def zero(e, **subst):
        try:
            return identically_zero(e, subst={k: Fraction(v) for k, v in subst.items()})
        except Exception:
            return None

    def minus(a, b):
        return ast.BinOp(clone(a), ast.Sub(), clone(b))
    # (1) block geometry: the block read starts at the clamped start S, ends at the old position, and the next position is S
    geom = off is not None and zero(minus(ast.BinOp(clone(off), ast.Add(), clone(length)), ast.Name("__pos", ast.Load()))) is True \
        and zero(minus(pos_v, off)) is True
    clamp_ok = len(state["clamp"]) == 1 and isinstance(off, ast.Name) and off.id == "__S1"
    if clamp_ok:
        c = state["clamp"][0]   # pos - K with a constant K > 0
        try:
            k = -_val(c, {"__pos": Fraction(0)})
            clamp_ok = k > 0 and zero(minus(ast.BinOp(clone(c), ast.Add(), ast.Constant(int(k))), ast.Name("__pos", ast.Load()))) is True
        except Exception:
            clamp_ok = False
    ctx.ob(rule, EXP, name, loop, "blocks tile the file backwards: each block is [max(0, pos-K), pos) with K > 0 and the next one ends where this one began", bool(geom and clamp_ok),
           detail={"offset": unparse(off) if off is not None else None, "length": unparse(length), "next": unparse(pos_v)}, stmt="plain scan: blocks")
    ctx.ob(rule, EXP, name, loop, "the scan starts at the end of the file", pos0 is not None and zero(minus(pos0, ast.Name("__size", ast.Load()))) is True, stmt="plain scan: start")
    # (2) which arm is 'found': decided by evaluating the kept value's own test with E = -1 (no line end in the block) and E >= 0
    samples = [dict(__pos=100, __S1=36, __size=100), dict(__pos=100, __S1=36, __size=250), dict(__pos=64, __S1=0, __size=64), dict(__pos=7, __S1=0, __size=500)]

    def value(e, **kw):
        return _val(e, {k: (Fraction(v) if v is not None else None) for k, v in kw.items()})
    try:
        nf = {value(keep_v, **s, **{E: -1, "__keep": 0}) for s in samples}
        found_ok = True
        for s in samples:
            n_ = s["__pos"] - s["__S1"]
            for e_ in sorted({0, n_ // 2, n_ - 1}):
                found_ok = found_ok and value(keep_v, **s, **{E: e_, "__keep": 0}) == s["__S1"] + e_ + 1
        # (3) sentinel agreement with the loop guard
        cont_init = _tv(guard, {POS: Fraction(100), KEEP: value(init.get(KEEP, ast.Constant(None)), __size=100)})
        cont_nf = all(_tv(guard, {POS: Fraction(36), KEEP: v}) for v in nf)
        stop_found = all(not _tv(guard, {POS: Fraction(36), KEEP: Fraction(k)}) for k in (1, 37, 100))
        stop_bof = not _tv(guard, {POS: Fraction(0), KEEP: next(iter(nf))})
    except Exception as ex:
        ctx.ob(rule, EXP, name, loop, "the kept offset and the loop guard are plain arithmetic / comparisons", False, detail={"error": repr(ex)}, stmt="plain scan: arithmetic")
        return
    ctx.ob(rule, EXP, name, loop, "a line end found at offset E of the block that starts at S keeps exactly S + E + 1 bytes (position counted from the block's own start, whichever block it is)",
           found_ok, detail={"kept": unparse(keep_v)[:160]}, stmt="plain scan: kept offset")
    ctx.ob(rule, EXP, name, loop, "the value kept while no line end has been found keeps the scan going, a found line end (and the start of the file) ends it, and the scan is entered",
           bool(cont_init and cont_nf and stop_found and stop_bof and len(nf) == 1), detail={"not found": sorted(map(str, nf)), "enter": cont_init, "continue": cont_nf, "stop": stop_found, "stop at 0": stop_bof},
           stmt="plain scan: sentinel")
    # (4) what is truncated to is the kept offset, unless everything is kept
    gs = [canon(t) for t, pol in guards_of(enclosing_stmt(trunc), fn) if pol]
    ctx.ob(rule, EXP, name, trunc, "the file is truncated to the kept offset whenever that differs from its size", all(KEEP in g and (SIZE or "") in g and ("!=" in g or "<" in g or ">" in g) for g in gs), detail={"guards": gs}, stmt="plain scan: truncate")


def _memoise_from_save(tree):
    from ..mutate import find_def
    fn = find_def(tree, "Result.from_save")
    fn.decorator_list.append(ast.parse("lru_cache(maxsize=4)", mode="eval").body)


def _except_exception(tree):
    from ..mutate import find_def
    fn = find_def(tree, "Cache.filter")
    hs = [h for h in ast.walk(fn) if isinstance(h, ast.ExceptHandler) and h.type is None]
    if not hs:
        raise M.TargetMissing("bare except in Cache.filter")
    hs[0].type = ast.Name(id="Exception", ctx=ast.Load())


def r9_sink_context_owner(ctx, rule="C02.R9"):
    """DiskSink keeps its file open while its context is entered (a nesting count): the log is closed after every batch -- a complete gzip
    member per record -- only while nobody else holds that context around the writes."""
    ctx.rule(rule, "who-may-enter: the context of a sink (DiskSink holds its file open while entered) is entered only by DiskSink.write itself, once per batch inside the "
                   "batch loop with the batch fetched outside it; no pipeline line or experiment code wraps sink.write in `with sink`")
    n = 0
    for rel, mod in sorted(ctx.model.modules.items()):
        if not rel.startswith(("coba/pipes/", "coba/experiments/", "coba/results/", "coba/context/")):
            continue
        for fn in [x for x in ast.walk(mod.tree) if isinstance(x, (ast.FunctionDef, ast.AsyncFunctionDef))]:
            from ..model import qualname
            qual = qualname(fn)
            sinkish = set()
            for st in walk_shallow(fn):
                if isinstance(st, ast.Assign) and isinstance(st.value, ast.Subscript) and "_pipes" in unparse(st.value.value):
                    sinkish |= {t.id for t in st.targets if isinstance(t, ast.Name)}
            entered = []
            for x in walk_shallow(fn):
                if isinstance(x, (ast.With, ast.AsyncWith)):
                    entered += [(i.context_expr, x) for i in x.items]
                if isinstance(x, ast.Call) and isinstance(x.func, ast.Attribute) and x.func.attr == "__enter__":
                    entered.append((x.func.value, x))
            for e, where in entered:
                t = unparse(e)
                is_self_sink = t == "self" and qual.split(".")[0].endswith("Sink")
                if not (is_self_sink or "sink" in t.lower() or (isinstance(e, ast.Name) and e.id in sinkish)):
                    continue
                n += 1
                ok = is_self_sink and qual == "DiskSink.write"
                if ok:
                    # once per batch: inside the loop, the batch itself obtained outside the with
                    loops = [a for a in ancestors(where) if isinstance(a, (ast.While, ast.For))]
                    inner_calls = [c for c in ast.walk(where) if isinstance(c, ast.Call) and call_tail(c) in ("_get_batch", "islice", "next")]
                    ok = bool(loops) and not inner_calls
                ctx.ob(rule, rel, qual, where, "a sink's context is entered only by DiskSink.write, once per batch", ok)
    ctx.floor(rule, "places that enter a sink's context", n, 1)


CONTROLS = [
    ("the torn tail is left in place", EXP, M.delete_stmt("Experiment.run", M.text_has("_drop_partial_record(result_file)")), "C02.R6"),
    ("duplicate triples removed through a set", EXP, M.insert_before("Experiment._parse_init_args", lambda st: isinstance(st, ast.Return) and "triples" in ast.unparse(st), "triples = list(set(map(tuple, triples)))"), "C02.R14"),
    ("writer and reader take only a trailing .gz for gzip", "coba/pipes/sinks.py", M.replace_expr("DiskSink.__enter__", "'.gz' in self._filename", "self._filename.endswith('.gz')"), "C02.R13"),
    ("the chunker returns when one kind of task is missing", "coba/experiments/process.py", M.insert_before("ChunkTasks._chunks", lambda st: isinstance(st, ast.For), "if not tasks_sans_env or not tasks_with_env: return"), "C02.R15"),
    ("one copy of a learner per chunk", "coba/experiments/process.py", M.replace_stmt("ProcessTasks.filter", M.text_has("lrn = deepcopy(lrn)"), "lrn = _copies.setdefault(id(lrn), deepcopy(lrn))"), "C02.R12"),
    ("plain repair: 'not found yet' is None but a block without line end stores 0", EXP, M.chain(M.replace_expr("_drop_partial_record", "pos > 0 and (not keep)", "pos > 0 and keep is None"), M.replace_stmt("_drop_partial_record", M.text_has("pos = size"), "pos, keep = size, None")), "C02.R6"),
    ("plain repair: kept offset counted from the end of the file", EXP, M.replace_expr("_drop_partial_record", "start + end + 1 if end >= 0 else 0", "size - (pos - start - end - 1) if end >= 0 else 0"), "C02.R6"),
    ("plain repair: next block does not start where this one began", EXP, M.replace_stmt("_drop_partial_record", M.text_has("pos = start"), "pos = start - 1"), "C02.R6"),
    ("plain repair: found line end does not end the scan", EXP, M.replace_expr("_drop_partial_record", "pos > 0 and (not keep)", "pos > 0"), "C02.R6"),
    ("plain repair keeps the bytes before the last line end only", EXP, M.replace_expr("_drop_partial_record", "start + end + 1 if end >= 0 else 0", "start + end if end >= 0 else 0"), "C02.R6"),
    ("worker store built from explicit keys", "coba/multiprocessing.py", M.replace_expr("CobaMultiprocessor.filter",
        "{'openml_semaphore': spawn_context.Semaphore(3), **CobaContext.store}", "{'openml_semaphore': spawn_context.Semaphore(3), 'experiment_seed': CobaContext.store.get('seed')}"), "C02.R11"),
    ("restored experiment description is never empty", RES, M.replace_stmt("TransactionResult.filter", M.simple_has("exp_dict = {}"), "exp_dict = {'version': 4}"), "C02.R5"),
    ("Cache resets on Exception only", "coba/pipes/filters.py", _except_exception, "C02.R10"),
    ("SourceSink keeps the sink entered for the whole run", "coba/pipes/lines.py", M.replace_stmt("SourceSink.run", M.text_has("sink.write(item)"), "with sink:\n    sink.write(item)"), "C02.R9"),
    ("empty result file is restored from", EXP, M.replace_expr("Experiment.run", "result_file and Path(result_file).exists() and (Path(result_file).stat().st_size > 0)", "result_file and Path(result_file).exists()"), "C02.R5"),
    ("encoder skips evaluations it believes restored", RES, M.insert_before("TransactionEncode.filter", lambda st: isinstance(st, ast.Assign) and "defaultdict" in ast.unparse(st.value),
                                                                           "if self._restored and tuple(item[1][:2]) in set(): continue"), "C02.R8"),
    ("equal-sized batches drop the remainder", PROC, M.replace_stmt("ChunkTasks._max_chunker", lambda st: isinstance(st, ast.While),
        "for i in range(-(-len(batch) // max_tasks) if max_tasks else 0):\n    yield batch"), "C02.R8"),
    ("experiment row only for fresh files", EXP, M.replace_expr("Experiment.run", "restored and restored.experiment", "restored", nth=0), "C02.R5"),
    ("from_save memoised by file name", RES, _memoise_from_save, "C02.R7"),
    ("missing experiment row counts as mismatch", EXP, M.replace_expr("Experiment.run", "restored.experiment.get('n_learners', n_given_lrns)", "restored.experiment.get('n_learners', len(restored.learners))"), "C02.R7"),
    ("drop flush", SINKS, M.delete_stmt("DiskSink.write", M.text_has("self._file.flush()")), "C02.R1"),
    ("batch=None", EXP, M.replace_expr("Experiment.run", "DiskSink(result_file, batch=1)", "DiskSink(result_file)"), "C02.R2"),
    ("yield generator", PROC, M.replace_expr("ProcessTasks.filter", "list(SafeEvaluator(val).evaluate(env, lrn))",
                                              "SafeEvaluator(val).evaluate(env, lrn)"), "C02.R3"),
    ("drop learner guard", PROC, M.replace_expr("MakeTasks.read", "lid not in restored_lrns", "True"), "C02.R4"),
    ("always version", RES, M.replace_expr("TransactionEncode.filter", "not self._restored", "True"), "C02.R5"),
]
