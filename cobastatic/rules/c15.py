"""C15 -- prediction formats (DESIGN.md 5/C15).

Decided: totality and wiring of SafeLearner._parse_pred over (batch order x kwargs x format),
agreement of the producer/consumer string tables, PMF sampling from the seeded generator with the
probability of the same draw, kwargs pass-through to learn, per-row fall-back only after the
batched call failed.  Not decided: whether format *recognition* classifies every answer correctly.
"""
import ast
import itertools

from ..absint import FlagEval, TOP
from ..cfg import CFG
from ..dataflow import definitely_assigned, loaded_names
from ..model import walk_shallow, call_name, is_self_attr, dotted_name, parent, ancestors, enclosing_function, rename_copy
from ..util import canon
from ..util import (has_call, find_calls, assigned_value, const_str, unparse, kw, arg_or_kw, enclosing_stmt,
                    guards_of, call_tail, control_ancestors, alpha, bound_names, name_bound)
from .. import mutate as M
from . import c05

TECHNIQUE = 'static analysis: configuration-specialised CFG of _parse_pred (batch order x kwargs x format) with definite assignment, producer/consumer string-table agreement, forward dataflow for recognition order (identity before look-alike, str before len), sibling agreement of the three batch-order arms'

EXPLANATION = ("Configuration-specialised analysis of SafeLearner._parse_pred: for every (batch order, has_kwargs, format) the "
               "CFG is pruned by constant folding of the string tests (==, [:2], endswith) and the returned action, "
               "probability and kwargs are definitely assigned and a return is reached; strings produced by pred_format/"
               "batch_order equal the strings tested; PMFs are sampled with self._rng = CobaRandom(seed) and the pair of one "
               "choicew call is returned; kwargs are the prediction's last element and reach learner.learn as **kwargs; "
               "the per-row fall-back runs only in the handler of the batched attempt and is validated.")
EXPLANATION += ' R8: recognition order (identity before look-alike, str before len); R9: kwargs recognised by the documented Mapping type; R10: seeds not tested for truthiness; R11: the three batch-order arms unwrap kwargs alike and the column arm transposes PMFs.'
EXPLANATION += " R11 also: un-hinted column PMFs are transposed, {'pmf': ...} answers are not; R12: every wrapper starts with empty layout state (also around an already wrapped learner)."

SAF = "coba/safety.py"


def _returned_strings(fn):
    out = set()
    for r in walk_shallow(fn):
        if isinstance(r, ast.Return) and r.value is not None and enclosing_function(r) is fn:
            for c in ast.walk(r.value):
                if isinstance(c, ast.Constant) and isinstance(c.value, str):
                    out.add(c.value)
    return out


def _roles_parse_pred(fn):
    m = {}
    for x in fn.body:
        if isinstance(x, ast.If) and unparse(x.test).startswith("self._pred_batch =="):
            arm = const_str(x.test.comparators[0]) if isinstance(x.test, ast.Compare) else None
            for r in walk_shallow(x):
                if isinstance(r, ast.Return) and isinstance(r.value, ast.Tuple) and len(r.value.elts) == 3 and all(isinstance(e, ast.Name) for e in r.value.elts):
                    a, p_, k = [e.id for e in r.value.elts]
                    m.setdefault(k, "kwargs")
                    m.setdefault(a, "a" if arm == "not" else "A")
                    m.setdefault(p_, "p" if arm == "not" else "P")
    return m


def run(ctx):
    pp = ctx.fn(SAF, "SafeLearner._parse_pred")
    pp = rename_copy(pp, _roles_parse_pred(pp))
    pf = ctx.fn(SAF, "SafeLearner.pred_format")
    bo = ctx.fn(SAF, "SafeLearner.batch_order")
    formats = _returned_strings(pf)
    orders = _returned_strings(bo)
    r1_totality(ctx, pp, formats, orders)
    r2_tables(ctx, pp, formats, orders)
    r3_sampling(ctx, pp)
    r4_kwargs(ctx, pp)
    r5_fallback(ctx)
    r6_safe_actions_cache(ctx)
    r7_probe_marked(ctx)
    r8_recognition_order(ctx, pf)
    r9_kwargs_type(ctx)
    c05.seed_truthiness(ctx, "C15.R10")
    r11_arm_agreement(ctx, ctx.fn(SAF, "SafeLearner._parse_pred"))
    r12_fresh_wrapper(ctx)
    # the action sampled from a PMF answer has positive probability and travels with its own entry
    ctx.rule("C15.R13", "sampling a PMF answer: CobaRandom.choice returns the first item whose cumulative weight strictly exceeds U*tot (an action of probability 0 is "
                        "never played) and choicew pairs the sampled item with the weight at the same index")
    c05.weighted_choice(ctx, "C15.R13")
    c05.choicew_pairs(ctx, "C15.R13")
    r14_answer_lengths(ctx, pf)
    r15_batch_validity(ctx)
    r16_pmf_recognition(ctx)
    r17_fallback_rows(ctx)
    r18_call_style_keys(ctx)
    r19_identity_only(ctx, pf)


def r19_identity_only(ctx, pf, rule="C15.R19"):
    """An un-hinted answer is read as 'the offered action itself' only when it IS one of the offered objects (SafeLearner hands the learner float copies of 0/1 for exactly
    this purpose): equality would read the PMF [1.0, 0.0] over the actions [0, 1] as (action 1, probability 0.0)."""
    ctx.rule(rule, "pred_format recognises an offered action by identity only: every `any(<test> for a in actions)` in it compares with `is` (no ==, no type/equality disjunct)")
    n = 0
    for c in [c for c in ast.walk(pf) if isinstance(c, ast.Call) and call_name(c) == "any" and c.args and isinstance(c.args[0], (ast.GeneratorExp, ast.ListComp))]:
        g = c.args[0]
        if not any("action" in unparse(gen.iter) for gen in g.generators):
            continue
        n += 1
        t = g.elt
        ok = isinstance(t, ast.Compare) and len(t.ops) == 1 and isinstance(t.ops[0], ast.Is)
        ctx.ob(rule, SAF, "SafeLearner.pred_format", c, "an offered action is recognised by `is`", ok, detail={"test": unparse(t)})
    ctx.floor(rule, "membership tests against the offered actions in pred_format", n, 2)


def r18_call_style_keys(ctx, rule="C15.R18"):
    """The whole-batch / row-by-row decision is probed and remembered per method of the wrapped learner (predict may take batches while learn does not)."""
    ctx.rule(rule, "SafeLearner._safe_call(<key>, <method>, ...): the key under which the call style is remembered names the method that is called (`'learn'` with "
                   "self.learner.learn ...), and what else reads the memo (batch_order's argument) reads it under the key of the call it describes")
    cls = ctx.model.cls(SAF, "SafeLearner")
    n = 0
    for mname, fn in sorted(cls.methods.items()):
        for c in [c for c in ast.walk(fn) if isinstance(c, ast.Call) and isinstance(c.func, ast.Attribute) and c.func.attr == "_safe_call" and len(c.args) >= 2]:
            n += 1
            key, meth = const_str(c.args[0]), c.args[1]
            ok = key is not None and isinstance(meth, ast.Attribute) and meth.attr == key and unparse(meth.value) == "self.learner"
            ctx.ob(rule, SAF, f"SafeLearner.{mname}", c, "the memo key is the name of the learner method being called", ok, detail={"key": key, "method": unparse(meth)})
    ctx.floor(rule, "_safe_call sites", n, 4)
    pp = ctx.fn(SAF, "SafeLearner._parse_pred")
    reads = [s_ for s_ in ast.walk(pp) if isinstance(s_, ast.Subscript) and unparse(s_.value) == "self._method"]
    for s_ in reads:
        ctx.ob(rule, SAF, "SafeLearner._parse_pred", s_, "the prediction is parsed with the call style remembered for predict", const_str(s_.slice) == "predict", detail={"key": unparse(s_.slice)})


def _is_identity_any(e, actions_name):
    """any(<x> is <a> for <a> in <actions>) -> text of <x>, else None"""
    if isinstance(e, ast.Call) and call_name(e) == "any" and len(e.args) == 1 and isinstance(e.args[0], ast.GeneratorExp):
        g = e.args[0]
        if len(g.generators) == 1 and unparse(g.generators[0].iter) == actions_name and not g.generators[0].ifs \
                and isinstance(g.elt, ast.Compare) and len(g.elt.ops) == 1 and isinstance(g.elt.ops[0], ast.Is) and isinstance(g.generators[0].target, ast.Name):
            v = g.generators[0].target.id
            l, r = g.elt.left, g.elt.comparators[0]
            if isinstance(r, ast.Name) and r.id == v:
                return unparse(l)
            if isinstance(l, ast.Name) and l.id == v:
                return unparse(r)
    return None


def r8_recognition_order(ctx, pf, rule="C15.R8"):
    """Recognition of un-hinted answers.  The property quantifies over learners that return the offered action objects themselves, so
    object identity is the one unambiguous signal; the numeric look-alike heuristics may only be consulted after it failed.  A string is a
    bare action, never a sequence of parts."""
    from ..cfg import CFG, forward
    from ..dataflow import stored_names
    ctx.rule(rule, "pred_format: (a) the PMF/action look-alike heuristics are consulted only on paths where the identity test "
                       "`any(x is a for a in actions)` on the same value failed; (b) len() of the raw prediction is consulted only on paths "
                       "where `isinstance(pred, str)` failed (a string is one bare action)")
    params = [a.arg for a in pf.args.args]
    P, ACT = params[0], params[1]
    g = CFG(pf)

    def disjuncts(t):
        return t.values if isinstance(t, ast.BoolOp) and isinstance(t.op, ast.Or) else [t]

    def len_test(t):
        """(op, k) for a test `len(P) <op> k` on the prediction name, else None (comparisons are in canonical orientation: literal on the right)"""
        if isinstance(t, ast.Compare) and len(t.ops) == 1 and isinstance(t.left, ast.Call) and call_name(t.left) == "len" and t.left.args and unparse(t.left.args[0]) == P \
                and isinstance(t.comparators[0], ast.Constant) and isinstance(t.comparators[0].value, int):
            return type(t.ops[0]), t.comparators[0].value
        return None

    def step(n, el, label):
        """one abstract path: (identity-tested expressions, raw answer may be a str, P is the 1-element wrapper [raw], len(raw) == 2 known)"""
        ids, raw_may_be_str, wrapped, len2 = el
        if n.kind == "test":
            lt = len_test(n.ast)
            if lt is not None:
                op, k = lt
                size = 1 if wrapped else (2 if len2 else None)
                if size is not None:
                    val = {ast.Eq: size == k, ast.NotEq: size != k, ast.Gt: size > k, ast.GtE: size >= k, ast.Lt: size < k, ast.LtE: size <= k}.get(op)
                    if val is not None and (label == "true") != val:
                        return None  # this branch cannot be taken on this path
                elif op is ast.Eq and k == 2 and not wrapped:
                    len2 = label == "true"
            if label == "false":
                t_ = n.ast
                if isinstance(t_, ast.BoolOp) and isinstance(t_.op, ast.And) and len(t_.values) == 2 and unparse(t_.values[0]) == ACT:
                    # `actions and any(x is a for a in actions)`: false means no offered objects at all, or none of them is x
                    x = _is_identity_any(t_.values[1], ACT)
                    if x is not None:
                        ids = ids | {x}
                for d in disjuncts(n.ast):
                    x = _is_identity_any(d, ACT)
                    if x is not None:
                        ids = ids | {x}
                    if isinstance(d, ast.Call) and call_name(d) == "isinstance" and len(d.args) == 2 and unparse(d.args[0]) == P \
                            and "str" in [unparse(e) for e in (d.args[1].elts if isinstance(d.args[1], ast.Tuple) else [d.args[1]])]:
                        raw_may_be_str = False
            if label == "true" and isinstance(n.ast, ast.Call) and call_name(n.ast) == "isinstance" and unparse(n.ast.args[0]) == P \
                    and "str" not in unparse(n.ast.args[1]):
                raw_may_be_str = False  # e.g. isinstance(pred, dict) holds
        if n.kind == "stmt" and n.ast is not None and not isinstance(n.ast, (ast.FunctionDef, ast.ClassDef)):
            w = stored_names(n)
            if P in w:
                raw_may_be_str = False  # re-bound: no longer the raw answer
                wraps = isinstance(n.ast, ast.Assign) and unparse(n.ast.value) == f"[{P}]" and [unparse(t) for t in n.ast.targets] == [P]
                kept = set()
                for i in ids:
                    if P not in {x.id for x in ast.walk(ast.parse(i)) if isinstance(x, ast.Name)}:
                        kept.add(i)
                    elif wraps and i == P:
                        kept.add(f"{P}[0]")  # P = [P]: the raw answer, already identity-tested, is now P[0]
                ids = frozenset(kept)
                wrapped, len2 = (True, None) if wraps else (False, None)
        return (ids, raw_may_be_str, wrapped, len2)

    def transfer(n, st, label):
        if label in ("exc", "abandon"):
            return st
        out = set()
        for el in st:
            r = step(n, el, label)
            if r is not None:
                out.add(r)
        return frozenset(out) if out else None

    SETS = forward(g, frozenset([(frozenset(), True, False, None)]), transfer, lambda a_, b_: a_ | b_)
    IN = {k: (frozenset.intersection(*[e[0] for e in v]) if v else frozenset(), any(e[1] for e in v)) for k, v in SETS.items()}
    n_h = n_l = 0
    for n in g.nodes:
        if n.kind != "test" or n.id not in IN:
            continue
        ids, raw = IN[n.id]
        for c in [c for c in ast.walk(n.ast) if isinstance(c, ast.Call)]:
            if call_tail(c) in ("possible_pmf", "possible_action") and c.args:
                n_h += 1
                x = unparse(c.args[0])
                ctx.ob(rule, SAF, "SafeLearner.pred_format", c, f"`{call_tail(c)}({x}, ...)` is consulted only after `any({x} is a for a in {ACT})` failed", x in ids,
                       detail={"identity_tested_here": sorted(ids)})
            if call_name(c) == "isinstance" and len(c.args) == 2 and unparse(c.args[0]) == P and unparse(c.args[1]) in ("dict", "abc.Mapping", "Mapping") and raw is not False:
                n_h += 1
                ctx.ob(rule, SAF, "SafeLearner.pred_format", c, f"the dict-hint reading of the raw answer is considered only after `any({P} is a for a in {ACT})` failed "
                       "(an offered sparse action may have a key named like a hint)", P in ids, detail={"identity_tested_here": sorted(ids)}, stmt="hint after identity")
            if call_name(c) == "len" and c.args and unparse(c.args[0]) == P and raw is not None:
                # only the raw answer matters: once re-bound (wrapped in a list) len() is about the wrapper
                n_l += 1
                ctx.ob(rule, SAF, "SafeLearner.pred_format", c, f"len({P}) of the raw answer is consulted only where it cannot be a str (a string is one action)", not raw,
                       stmt=f"len(raw) in {norm_test(n.ast)}")
    ctx.floor(rule, "look-alike heuristic calls in pred_format", n_h, 2)
    ctx.floor(rule, "len() tests of the prediction in pred_format", n_l, 2)
    # the identity verdicts: a successful identity test on a one-item answer is a bare action, on a two-item answer (action, prob)
    for n in g.nodes:
        if n.kind == "test" and _is_identity_any(n.ast, ACT) is not None:
            for b, l in g.succ[n.id]:
                nd = g.nodes[b]
                if l == "true" and nd.kind == "stmt" and isinstance(nd.ast, ast.Return) and isinstance(nd.ast.value, ast.Constant):
                    ctx.ob(rule, SAF, "SafeLearner.pred_format", nd.ast, "a successful identity test is answered with an action reading ('AX' / 'AP')",
                           nd.ast.value.value in ("AX", "AP"), stmt="identity verdict " + str(nd.ast.value.value))


def norm_test(t):
    return unparse(t)[:60]


def r9_kwargs_type(ctx):
    ctx.rule("C15.R9", "has_kwargs recognises the documented kwargs type: primitives.Kwargs is an alias of Mapping[...], and has_kwargs tests "
                       "isinstance(<last element>, <the abstract Mapping>) -- not a concrete subclass such as dict")
    prim = ctx.model.modules["coba/primitives.py"].tree
    alias = [x for x in prim.body if isinstance(x, ast.Assign) and any(isinstance(t, ast.Name) and t.id == "Kwargs" for t in x.targets)]
    ctx.floor("C15.R9", "Kwargs alias in primitives", len(alias), 1)
    base = alias[0].value.value if isinstance(alias[0].value, ast.Subscript) else alias[0].value
    base = unparse(base).split(".")[-1]
    fn = ctx.fn(SAF, "SafeLearner.has_kwargs")
    tests = [c for c in walk_shallow(fn) if isinstance(c, ast.Call) and call_name(c) == "isinstance" and len(c.args) == 2]
    ctx.floor("C15.R9", "isinstance tests in has_kwargs", len(tests), 1)
    for c in tests:
        cls = [unparse(e).split(".")[-1] for e in (c.args[1].elts if isinstance(c.args[1], ast.Tuple) else [c.args[1]])]
        ctx.ob("C15.R9", SAF, "SafeLearner.has_kwargs", c, f"kwargs are recognised by the documented abstract type {base}", base in cls, detail={"tested": cls, "documented": base})
        sel = c.args[0]
        ok = isinstance(sel, ast.IfExp) and unparse(sel.body).endswith("[-1]") or unparse(sel).endswith("[-1]")
        ctx.ob("C15.R9", SAF, "SafeLearner.has_kwargs", c, "the element tested is the last one of the (first row of the) answer", ok, stmt="kwargs position")


def r11_arm_agreement(ctx, pp, rule="C15.R11"):
    """Sibling cross-check of the three batch-order arms of _parse_pred."""
    ctx.rule(rule, "the un-batched, row-major and column-major arms of _parse_pred agree: with kwargs present a two-item answer (payload, kwargs) is "
                        "unwrapped to its payload in every arm; in the column-major arm a PMF is sampled per row from the transposed columns (zip(*pred))")
    arms = {}
    for x in pp.body:
        if isinstance(x, ast.If) and isinstance(x.test, ast.Compare) and unparse(x.test.left) == "self._pred_batch" and const_str(x.test.comparators[0]):
            arms[const_str(x.test.comparators[0])] = x
    ctx.floor(rule, "batch-order arms", len(arms), 3)
    for order, arm in sorted(arms.items()):
        # the statement re-binding the answer when kwargs are present
        strips = [st for st in arm.body if isinstance(st, ast.Assign) and "self._pred_kwargs" in unparse(st.value) and not unparse(st.targets[0]).startswith("kw")]
        ok = False
        for st in strips:
            for c in ast.walk(st.value):
                if isinstance(c, ast.Compare) and isinstance(c.left, ast.Call) and call_name(c.left) == "len" and isinstance(c.ops[0], ast.Eq) and unparse(c.comparators[0]) == "2":
                    ie = parent(c)
                    if isinstance(ie, ast.BoolOp) and isinstance(ie.op, ast.And):
                        ie = parent(ie)
                    if isinstance(ie, ast.IfExp) and c in list(ast.walk(ie.test)) and isinstance(ie.body, ast.Subscript) and unparse(ie.body.slice) == "0" \
                            and unparse(ie.body.value) == unparse(c.left.args[0]):
                        ok = True
        ctx.ob(rule, SAF, "SafeLearner._parse_pred", strips[0] if strips else arm, f"arm '{order}': (payload, kwargs) is unwrapped to the payload", ok, stmt=f"kwargs unwrap in arm {order}")
    col = arms.get("col")
    if col is not None:
        draws = [c for c in ast.walk(col) if isinstance(c, ast.Call) and call_name(c) == "map" and c.args and unparse(c.args[0]).endswith("choicew")]
        ctx.floor(rule, "PMF draws in the column-major arm", len(draws), 1)
        for d in draws:
            src = d.args[2] if len(d.args) == 3 else None
            vals = [src] if not isinstance(src, ast.Name) else assigned_value(pp, src.id)
            # an un-hinted answer is column-major (transpose), a {'pmf': ...} answer holds one pmf per row (take as is)
            def shape(v):
                if isinstance(v, ast.Call) and call_name(v) == "zip" and len(v.args) == 1 and isinstance(v.args[0], ast.Starred):
                    return "transposed"
                if isinstance(v, ast.IfExp) and "endswith('*')" in unparse(v.test):
                    a_, b_ = shape(v.body), shape(v.orelse)
                    return "by hint" if (a_, b_) == ("direct", "transposed") else "mixed"
                return "direct"
            shapes = sorted({shape(v) for v in vals if v is not None})
            ok = len(d.args) == 3 and unparse(d.args[1]) == "actions" and shapes == ["by hint"]
            ctx.ob(rule, SAF, "SafeLearner._parse_pred", d, "column-major arm: an un-hinted PMF is sampled row by row from the transposed columns, a {'pmf': ...} answer (one pmf per row) as it is", ok,
                   detail={"pmf source": shapes}, stmt="col PMF transposed")
    row = arms.get("row")
    if row is not None:
        draws = [c for c in ast.walk(row) if isinstance(c, ast.Call) and call_name(c) == "map" and c.args and unparse(c.args[0]).endswith("choicew")]
        for d in draws:
            ok = len(d.args) == 3 and unparse(d.args[1]) == "actions" and isinstance(d.args[2], ast.Name)
            ctx.ob(rule, SAF, "SafeLearner._parse_pred", d, "row-major PMF: row i draws from pred[i]", ok, stmt="row PMF direct")


def r16_pmf_recognition(ctx, rule="C15.R16"):
    """an un-hinted answer is taken for a PMF only if it can be one: as many entries as actions, summing to one, no negative entry."""
    ctx.rule(rule, "possible_pmf demands all three: len(answer) == len(actions), sum close to 1, and every entry >= 0 (the entry test is a lower bound at zero -- "
                   "an answer with a negative entry is a feature-vector action, not a distribution)")
    fn = ctx.fn(SAF, "SafeLearner.possible_pmf")
    I = fn.args.args[0].arg
    rets = [r for r in ast.walk(fn) if isinstance(r, ast.Return) and isinstance(r.value, ast.BoolOp) and isinstance(r.value.op, ast.And)]
    ctx.floor(rule, "conjunctive return of possible_pmf", len(rets), 1)
    for r in rets:
        parts = r.value.values
        has_len = any(canon(unparse(p)) == canon(f"len({I}) == len(actions)") for p in parts)
        has_sum = any(isinstance(p, ast.Call) and call_name(p) in ("isclose", "math.isclose") and unparse(p.args[0]) == f"sum({I})" and unparse(p.args[1]) == "1" for p in parts)
        nonneg = False
        for p in parts:
            if isinstance(p, ast.Call) and call_name(p) == "all" and p.args and isinstance(p.args[0], ast.GeneratorExp) and unparse(p.args[0].generators[0].iter) == I:
                v = unparse(p.args[0].generators[0].target)
                nonneg = canon(unparse(p.args[0].elt)) in (canon(f"{v} >= 0"), canon(f"0 <= {v}"))
        ctx.ob(rule, SAF, "SafeLearner.possible_pmf", r, "a PMF candidate has the length of the action set, sums to one and has no negative entry", has_len and has_sum and nonneg,
               detail={"length": has_len, "sum": has_sum, "non-negative": nonneg})


def r17_fallback_rows(ctx, rule="C15.R17"):
    ctx.rule(rule, "the per-row fallback builds its rows from every argument: an argument that is None (no context, no probability) is None for every row instead of being "
                   "zipped (zip over None raises and the transparent per-row call would fail for interactions without a context)")
    fn = ctx.fn(SAF, "SafeLearner._method2")
    A = fn.args.args[2].arg
    zips = [c for c in ast.walk(fn) if isinstance(c, ast.Call) and call_name(c) == "zip"]
    ctx.floor(rule, "row zips in the per-row fallback", len(zips), 1)
    for z in zips:
        raw = len(z.args) == 1 and isinstance(z.args[0], ast.Starred) and unparse(z.args[0].value) == A
        guarded = len(z.args) == 1 and isinstance(z.args[0], ast.Starred) and isinstance(z.args[0].value, (ast.ListComp, ast.GeneratorExp)) and unparse(z.args[0].value.generators[0].iter) == A \
            and isinstance(z.args[0].value.elt, ast.IfExp) and "None" in unparse(z.args[0].value.elt.test) and "repeat(" in unparse(z.args[0].value.elt)
        ctx.ob(rule, SAF, "SafeLearner._method2", z, "None arguments are repeated, the others are zipped row by row", guarded and not raw)


def r15_batch_validity(ctx, rule="C15.R15"):
    """a batched answer is accepted when its length (row-major) or the length of its FIRST element (column-major: one column per part, kwargs LAST) is the batch size."""
    ctx.rule(rule, "raise_if_not_valid_out compares the batch size with len(answer) and len(answer[0]): the first column of a column-major answer -- never the last element, "
                   "which is the kwargs mapping when the learner returns kwargs (its number of keys says nothing about the batch)")
    fn = ctx.fn(SAF, "SafeLearner.raise_if_not_valid_out")
    O = fn.args.args[0].arg
    measured = [c.args[0] for c in ast.walk(fn) if isinstance(c, ast.Call) and call_name(c) in ("len_or_0", "len") and c.args and any(isinstance(y, ast.Name) and y.id == O for y in ast.walk(c.args[0]))]
    subs = [m for m in measured if isinstance(m, ast.Subscript) and unparse(m.value) == O]
    ctx.floor(rule, "elements of the answer whose length is compared with the batch size", len(subs), 1)
    for m in subs:
        ctx.ob(rule, SAF, "SafeLearner.raise_if_not_valid_out", m, "the element measured for a column-major answer is the first one", unparse(m.slice) == "0", detail={"measured": unparse(m)})


def r14_answer_lengths(ctx, pf, rule="C15.R14"):
    """exhaustiveness of pred_format's classification by the length of a sized, non-string, un-hinted answer."""
    ctx.rule(rule, "every length of an un-hinted sized answer has an arm in pred_format: lengths 1, 3, 4, ... are wrapped as `one pmf or one action` "
                   "(a single offered action makes for a one item pmf), length 2 goes to the (action, probability) / pmf / action disambiguation")
    P = pf.args.args[0].arg
    chain = None
    for st in walk_shallow(pf):
        if isinstance(st, ast.If) and any(isinstance(c, ast.Call) and call_name(c) == "len" and c.args and unparse(c.args[0]) == P for t in _chain_tests(st) for c in ast.walk(t)) \
                and (chain is None or st.lineno < chain.lineno) and not any(isinstance(a, ast.If) and a is not st and st in ast.walk(a) for a in walk_shallow(pf) if isinstance(a, ast.If) and a.lineno < st.lineno and st in list(ast.walk(a))):
            chain = st
    if chain is None:
        ctx.ob(rule, SAF, "SafeLearner.pred_format", pf, "the length classification of un-hinted answers was located", None, stmt="length chain")
        return

    class Sub(ast.NodeTransformer):
        def __init__(self, n):
            self.n = n

        def visit_Call(self, node):
            nm = call_name(node)
            if nm == "len" and node.args and unparse(node.args[0]) == P:
                return ast.copy_location(ast.Constant(value=self.n), node)
            if nm in ("no_len", "isinstance"):
                return ast.copy_location(ast.Constant(value=False), node)   # a sized answer that is not a string
            return self.generic_visit(node)
    n_ob = 0
    for n in (1, 2, 3, 4, 7):
        arm, cur = None, chain
        while cur is not None:
            t = Sub(n).visit(ast.parse(unparse(cur.test), mode="eval").body)
            try:
                val = bool(eval(compile(ast.fix_missing_locations(ast.Expression(t)), "<len>", "eval"), {"__builtins__": {}}))   # constant folding of the arm test
            except Exception:
                val = None
            if val:
                arm = cur.body
                break
            nxt = cur.orelse
            cur = nxt[0] if len(nxt) == 1 and isinstance(nxt[0], ast.If) else None
            if cur is None and nxt:
                arm = nxt
        wraps = arm is not None and any(isinstance(x, ast.Assign) and unparse(x.value) == f"[{P}]" and unparse(x.targets[0]) == P for st in arm for x in ast.walk(st))
        n_ob += 1
        if n == 2:
            ctx.ob(rule, SAF, "SafeLearner.pred_format", chain, "a two item answer reaches the (action, probability) disambiguation", arm is not None, stmt="answer length 2")
        else:
            ctx.ob(rule, SAF, "SafeLearner.pred_format", chain, f"an un-hinted answer of length {n} is wrapped as one pmf / one action", wraps, stmt=f"answer length {n}")
    ctx.floor(rule, "answer lengths examined", n_ob, 5)


def _chain_tests(st):
    out = []
    while isinstance(st, ast.If):
        out.append(st.test)
        st = st.orelse[0] if len(st.orelse) == 1 and isinstance(st.orelse[0], ast.If) else None
    return out


def r12_fresh_wrapper(ctx):
    ctx.rule("C15.R12", "what a wrapper has learnt about the answer layout (call strategy, batch order, kwargs flag, format, cached action list) describes the calls made "
                        "through THAT wrapper: SafeLearner.__init__ starts every one of these fields empty, also when it is handed an already wrapped learner")
    init = ctx.fn(SAF, "SafeLearner.__init__")
    fields = {"_method": ("{}", "dict()"), "_pred_kwargs": ("None",), "_pred_batch": ("None",), "_pred_format": ("None",), "_prev_actions": ("None",), "_safe_actions": ("None",)}
    seen = {}
    for x in walk_shallow(init):
        if isinstance(x, ast.Assign):
            for t in x.targets:
                if is_self_attr(t) and t.attr in fields:
                    seen.setdefault(t.attr, []).append(x)
    ctx.floor("C15.R12", "layout fields initialised in SafeLearner.__init__", len(seen), 4)
    for f, sts in sorted(seen.items()):
        ok = all(unparse(st.value) in fields[f] for st in sts)
        ctx.ob("C15.R12", SAF, "SafeLearner.__init__", sts[0], f"self.{f} starts empty in every wrapper", ok, detail={"initial value": [unparse(st.value) for st in sts]}, stmt=f"self.{f} initial")
    lr = [x for x in walk_shallow(init) if isinstance(x, ast.Assign) and any(is_self_attr(t, "learner") for t in x.targets)]
    ok = len(lr) == 1 and isinstance(lr[0].value, ast.IfExp) and ".learner" in unparse(lr[0].value)
    ctx.ob("C15.R12", SAF, "SafeLearner.__init__", lr[0] if lr else init, "an already wrapped learner is unwrapped to its inner learner (no wrapper around a wrapper)", ok, stmt="unwrap nested wrapper")


def r7_probe_marked(ctx):
    ctx.rule("C15.R7", "batch_order's square-case probe calls the learner with single-row arguments that still carry the is_batch marker "
                       "(otherwise a row-major learner answers the probe un-batched and is classified column-major)")
    fn = ctx.fn(SAF, "SafeLearner.batch_order")
    probes = [c for c in walk_shallow(fn) if isinstance(c, ast.Call) and isinstance(c.func, ast.Name) and c.func.id == "predictor"]
    ctx.floor("C15.R7", "probe calls in batch_order", len(probes), 1)
    marked = {c.name for c in ast.walk(fn) if isinstance(c, ast.ClassDef) and any(isinstance(st, ast.Assign) and unparse(st) == "is_batch = True" for st in c.body)}
    for c in probes:
        ok = len(c.args) == 2 and all(isinstance(a, ast.Call) and isinstance(a.func, ast.Name) and a.func.id in marked for a in c.args) and \
            [unparse(a.args[0]) for a in c.args if isinstance(a, ast.Call) and a.args] == ["[context[0]]", "[actions[0]]"]
        ctx.ob("C15.R7", SAF, "SafeLearner.batch_order", c, "the probe passes [context[0]] and [actions[0]] wrapped in a class with is_batch = True", ok,
               detail={"marked_classes": sorted(marked), "args": [unparse(a) for a in c.args]})
        g = [unparse(t) for t, p in guards_of(enclosing_stmt(c), fn) if p]
        ctx.ob("C15.R7", SAF, "SafeLearner.batch_order", c, "the probe is used only in the ambiguous square case", g == ["n_dim1 == n_dim2"] or len(g) == 1, stmt="probe guard", detail={"guards": g})


def r6_safe_actions_cache(ctx, rule="C15.R6"):
    """SafeLearner.predict keeps (self._prev_actions, self._safe_actions) as a one-entry cache keyed by the offered
    actions: both must be refreshed together on every path of the miss branch, and the learner must be offered / parsed
    against the refreshed list."""
    ctx.rule(rule, "SafeLearner.predict: the cached safe action list is refreshed together with its key whenever the offered actions change, "
                   "on every path; the learner is called with and parsed against that list")
    from ..cfg import CFG
    from ..dataflow import reaching_defs
    fn = ctx.fn(SAF, "SafeLearner.predict")
    miss = [x for x in walk_shallow(fn) if isinstance(x, ast.If) and unparse(x.test) in ("self._prev_actions != actions", "actions != self._prev_actions")]
    ctx.floor(rule, "cache-miss test in SafeLearner.predict", len(miss), 1)
    g = CFG(fn)

    def store_nodes(attr):
        return {n.id for n in g.nodes if n.kind == "stmt" and isinstance(n.ast, ast.Assign) and any(is_self_attr(t, attr) for t in n.ast.targets)}

    keys, vals = store_nodes("_prev_actions"), store_nodes("_safe_actions")
    from ..util import escape_path
    for m in miss:
        tnodes = [i for i in g.nodes_of(m.test)]
        # the first node after the join of the if-statement: every path through the true branch must pass a key store AND a value store
        for t in tnodes:
            after = {n.id for n in g.nodes if n.kind == "stmt" and n.ast not in list(ast.walk(m)) and n.line > m.end_lineno} | {g.exit_return}
            for what, via in (("the cache key self._prev_actions", keys), ("the cached list self._safe_actions", vals)):
                # only paths leaving the test by its TRUE edge matter
                p = None
                for b, l in g.succ[t]:
                    if l != "true":
                        continue
                    if b in via:
                        continue
                    sub = escape_path(g, b, via, after, first_labels_skip=("exc", "abandon"), skip_labels=("exc", "abandon"))
                    if b in after:
                        sub = [b]
                    if sub is not None:
                        p = [b] + sub
                ctx.ob(rule, SAF, "SafeLearner.predict", m, f"{what} is refreshed on every path of the miss branch", p is None and bool(via),
                       detail=None if p is None else {"path_without_refresh": g.describe_path(p)}, stmt=f"refresh {what}")
    for n in g.nodes:
        if n.id in keys:
            v = n.ast.value
            # the key is a SNAPSHOT of the offered list: a reference to the caller's list compares equal to itself after the caller changed it in place
            snapshot = unparse(v) in ("list(actions)", "actions[:]", "actions.copy()", "copy(actions)", "tuple(actions)") or \
                (isinstance(v, ast.IfExp) and unparse(v.body) in ("list(actions)", "actions[:]", "actions.copy()", "tuple(actions)") and unparse(v.orelse) == "actions"
                 and "list" in unparse(v.test))
            ctx.ob(rule, SAF, "SafeLearner.predict", n.ast, "the cache key is a snapshot (copy) of the offered action list, not a reference the caller can change in place", snapshot,
                   detail={"key": unparse(v)})
        if n.id in vals:
            v = n.ast.value
            ok = unparse(v) == "actions" or isinstance(v, ast.ListComp) and unparse(v.generators[0].iter) == "actions" or \
                (isinstance(v, ast.IfExp) and unparse(v.body) == "actions" and isinstance(v.orelse, ast.ListComp) and unparse(v.orelse.generators[0].iter) == "actions")
            ctx.ob(rule, SAF, "SafeLearner.predict", n.ast, "the cached list is the offered actions (0/1 replaced by equal floats), element for element", ok)
    calls = [c for c in walk_shallow(fn) if isinstance(c, ast.Call) and call_tail(c) in ("_safe_call", "_parse_pred")]
    for c in calls:
        ctx.ob(rule, SAF, "SafeLearner.predict", c, "the learner is offered / its answer parsed against the cached safe list", "self._safe_actions" in [unparse(a) for a in ast.walk(c) if isinstance(a, ast.Attribute)] and not any(isinstance(a, ast.Name) and a.id == "actions" for a in ast.walk(c)))


def r1_totality(ctx, pp, formats, orders):
    ctx.rule("C15.R1", "for every (batch order, has_kwargs, format) the specialised _parse_pred reaches a return whose "
                       "action, probability and kwargs values are definitely assigned")
    ctx.floor("C15.R1", "formats returned by pred_format", len(formats), 6)
    ctx.floor("C15.R1", "orders returned by batch_order", len(orders), 3)
    locals_ = {x.id for x in walk_shallow(pp) if isinstance(x, ast.Name) and isinstance(x.ctx, ast.Store)} | {a.arg for a in pp.args.args}
    n = 0
    for order, kwargs_, fmt in itertools.product(sorted(orders), (True, False), sorted(formats)):
        n += 1
        ctx.configurations += 1
        env = {"self._pred_batch": order, "self._pred_kwargs": kwargs_, "self._pred_format": fmt}
        fe = FlagEval(env, opaque=lambda e: TOP)
        g = CFG(pp, test_eval=fe.test)
        reach = g.reachable()
        da = definitely_assigned(g, params=[a.arg for a in pp.args.args])
        rets = [nd for nd in g.nodes if nd.id in reach and nd.kind == "stmt" and isinstance(nd.ast, ast.Return)]
        falls = [p for p, l in g.pred[g.exit_return] if p in reach and not (g.nodes[p].kind == "stmt" and isinstance(g.nodes[p].ast, ast.Return))]
        cfgtxt = f"batch={order},kwargs={int(kwargs_)},format={fmt}"
        ctx.ob("C15.R1", SAF, "SafeLearner._parse_pred", pp, "a return is reached and the function never falls off its end", bool(rets) and not falls,
               stmt="return reached @" + cfgtxt, detail=None if (rets and not falls) else {"falls_off_after": g.describe_path(falls)})
        for r in rets:
            used = {x.id for x in ast.walk(r.ast.value) if isinstance(x, ast.Name)} & locals_ if r.ast.value is not None else set()
            missing = sorted(u for u in used if u not in da.get(r.id, frozenset()))
            shape_ok = isinstance(r.ast.value, ast.Tuple) and len(r.ast.value.elts) == 3
            ctx.ob("C15.R1", SAF, "SafeLearner._parse_pred", r.ast, "returned (action, probability, kwargs) are assigned on every path", not missing and shape_ok,
                   stmt=unparse(r.ast) + " @" + cfgtxt, detail=None if not missing else {"possibly_unassigned": missing})
    ctx.floor("C15.R1", "configurations", n, 36)


def r2_tables(ctx, pp, formats, orders):
    ctx.rule("C15.R2", "the format codes produced by pred_format and the orders produced by batch_order are exactly the ones _parse_pred tests")
    tested2 = set()
    star = False
    tested_orders = set()
    for x in walk_shallow(pp):
        if isinstance(x, ast.Compare) and len(x.ops) == 1 and isinstance(x.ops[0], (ast.Eq, ast.NotEq)):
            l, r = unparse(x.left), const_str(x.comparators[0])
            if l == "self._pred_format[:2]" and r:
                tested2.add(r)
            if l == "self._pred_batch" and r:
                tested_orders.add(r)
        if isinstance(x, ast.Call) and unparse(x.func) == "self._pred_format.endswith" and x.args and const_str(x.args[0]) == "*":
            star = True
    produced2 = {f[:2] for f in formats}
    ctx.ob("C15.R2", SAF, "SafeLearner._parse_pred", pp, "every produced format prefix has a consumer arm and vice versa", produced2 == tested2,
           detail={"produced": sorted(formats), "tested_prefixes": sorted(tested2)}, stmt="format prefixes")
    ctx.ob("C15.R2", SAF, "SafeLearner._parse_pred", pp, "the explicit-hint marker '*' is produced and consumed", star == any(f.endswith("*") for f in formats), stmt="hint marker")
    ctx.ob("C15.R2", SAF, "SafeLearner._parse_pred", pp, "every produced batch order has an arm and vice versa", orders == tested_orders,
           detail={"produced": sorted(orders), "tested": sorted(tested_orders)}, stmt="batch orders")
    # each prefix is tested in each of the three order arms
    for x in pp.body:
        if isinstance(x, ast.If) and isinstance(x.test, ast.Compare) and unparse(x.test.left) == "self._pred_batch" and const_str(x.test.comparators[0]) in orders:
            arm = const_str(x.test.comparators[0])
            inner = {const_str(c.comparators[0]) for c in ast.walk(x) if isinstance(c, ast.Compare) and unparse(c.left) == "self._pred_format[:2]"}
            ctx.ob("C15.R2", SAF, "SafeLearner._parse_pred", x, f"order arm '{arm}' handles every format prefix", inner == produced2, detail={"handled": sorted(i for i in inner if i)},
                   stmt=f"arm {arm} prefixes")
    # the first-call block stores what the helpers return
    for attr, helper in (("_pred_batch", "batch_order"), ("_pred_kwargs", "has_kwargs"), ("_pred_format", "pred_format")):
        st = [y for y in walk_shallow(pp) if isinstance(y, ast.Assign) and any(is_self_attr(t, attr) for t in y.targets)]
        ok = len(st) == 1 and call_name(st[0].value) == f"SafeLearner.{helper}" and any(unparse(t) == "self._pred_batch is None" and p for t, p in guards_of(st[0], pp))
        ctx.ob("C15.R2", SAF, "SafeLearner._parse_pred", st[0] if st else pp, f"self.{attr} is determined once, on the first call, by {helper}", ok, stmt=f"self.{attr} store")


def r3_sampling(ctx, pp):
    ctx.rule("C15.R3", "PMF answers are sampled with self._rng (= CobaRandom(constructor seed)) and the returned probability is that draw's")
    c05.r4_consumers(ctx, rule="C15.R3")
    draws = [c for c in walk_shallow(pp) if (isinstance(c, ast.Call) and call_tail(c) == "choicew") or
             (isinstance(c, ast.Attribute) and c.attr == "choicew" and not isinstance(parent(c), ast.Call) or (isinstance(c, ast.Attribute) and c.attr == "choicew" and isinstance(parent(c), ast.Call) and parent(c).func is not c))]
    recv = {unparse(c.func.value) if isinstance(c, ast.Call) else unparse(c.value) for c in draws}
    ctx.ob("C15.R3", SAF, "SafeLearner._parse_pred", pp, "every PMF draw uses self._rng", recv == {"self._rng"}, detail={"receivers": sorted(recv)}, stmt="draw receiver")
    for c in draws:
        g = [unparse(t) for t, p in guards_of(enclosing_stmt(c), pp) if p]
        ctx.ob("C15.R3", SAF, "SafeLearner._parse_pred", c, "sampling happens exactly in the PMF arms", any("== 'PM'" in t for t in g), stmt="draw in PM arm: " + unparse(enclosing_stmt(c))[:70])
        call = c if isinstance(c, ast.Call) else parent(c)
        args = [unparse(a) for a in call.args if not (isinstance(a, ast.Attribute) and a.attr == "choicew")]
        w_ok = False
        if len(args) == 2 and args[0] == "actions":
            w = [a for a in call.args if not (isinstance(a, ast.Attribute) and a.attr == "choicew")][1]
            srcs = [w] if not (isinstance(w, ast.Name) and w.id != "pred") else assigned_value(pp, w.id)
            w_ok = bool(srcs) and all({x.id for x in ast.walk(v) if isinstance(x, ast.Name)} <= {"pred", "self", "zip"} and "pred" in unparse(v) for v in srcs)
        ctx.ob("C15.R3", SAF, "SafeLearner._parse_pred", call, "the draw is over the offered actions weighted by the learner's PMF (the answer itself, possibly transposed)", w_ok, detail={"args": args},
               stmt="draw args: " + unparse(call)[:70])
    init = ctx.fn(SAF, "SafeLearner.__init__")
    st = [x for x in walk_shallow(init) if isinstance(x, ast.Assign) and any(is_self_attr(t, "_rng") for t in x.targets)]
    ctx.ob("C15.R3", SAF, "SafeLearner.__init__", st[0] if st else init, "self._rng = CobaRandom(seed)", len(st) == 1 and unparse(st[0].value) == "CobaRandom(seed)", stmt="self._rng store")
    # non-PMF formats return what the learner named
    for x in walk_shallow(pp):
        if isinstance(x, ast.If) and unparse(x.test) == "self._pred_format[:2] == 'AX'":
            body = [unparse(s) for s in x.body]
            ok = body in (["a, p = (pred, None)"], ["A = pred", "P = [None] * len(pred)"])
            ctx.ob("C15.R3", SAF, "SafeLearner._parse_pred", x, "a bare action answer is returned unchanged with probability None", ok, detail={"body": body}, stmt="AX arm: " + "; ".join(body))


def r4_kwargs(ctx, pp):
    ctx.rule("C15.R4", "kwargs returned by _parse_pred are the prediction's last element and SafeLearner.learn hands **kwargs to the learner")
    forms = [(alpha(v), [unparse(t) for t, p in guards_of(enclosing_stmt(v), pp) if p]) for v in assigned_value(pp, "kwargs")]
    simple = [f for f, g in forms if f == alpha("pred[-1] if self._pred_kwargs else {}")]
    rowf = [f for f, g in forms if f == alpha("[p[-1] if self._pred_kwargs else {} for p in pred]")]
    trans = [f for f, g in forms if f == alpha("{k: [kw[k] for kw in kwargs] for k in kwargs[0]}")]
    ctx.ob("C15.R4", SAF, "SafeLearner._parse_pred", pp, "kwargs is pred[-1] (un-batched and column-major) / the per-row last elements transposed (row-major), else {}",
           len(simple) == 2 and len(rowf) == 1 and len(trans) == 1, detail={"kwargs": [f for f, _ in forms]}, stmt="kwargs forms")
    for r in walk_shallow(pp):
        if isinstance(r, ast.Return) and r.value is not None:
            ok = isinstance(r.value, ast.Tuple) and unparse(r.value.elts[-1]) == "kwargs"
            ctx.ob("C15.R4", SAF, "SafeLearner._parse_pred", r, "the third returned value is kwargs", ok)
    # kwargs must be taken before pred is stripped of it
    for x in pp.body:
        if isinstance(x, ast.If) and unparse(x.test).startswith("self._pred_batch =="):
            order = [unparse(s.targets[0]) for s in x.body if isinstance(s, ast.Assign) and unparse(s.targets[0]) in ("kwargs", "pred")]
            ok = order[:1] == ["kwargs"] and "pred" in order
            ctx.ob("C15.R4", SAF, "SafeLearner._parse_pred", x, "kwargs is extracted before the prediction is stripped of it", ok, stmt="kwargs-before-strip " + unparse(x.test))
    ln = ctx.fn(SAF, "SafeLearner.learn")
    calls = [c for c in walk_shallow(ln) if isinstance(c, ast.Call) and call_tail(c) == "_safe_call"]
    ok = len(calls) == 1 and len(calls[0].args) >= 4 and unparse(calls[0].args[1]) == "self.learner.learn" and \
        unparse(calls[0].args[2]) == "(context, action, reward, probability)" and unparse(calls[0].args[3]) == "kwargs"
    ctx.ob("C15.R4", SAF, "SafeLearner.learn", calls[0] if calls else ln, "learn forwards (context, action, reward, probability) and the kwargs dict unchanged", ok)
    m1 = ctx.fn(SAF, "SafeLearner._method1")
    ok = any(isinstance(r, ast.Return) and unparse(r.value) == "method(*args, **kwargs)" for r in walk_shallow(m1))
    ctx.ob("C15.R4", SAF, "SafeLearner._method1", m1, "the direct call passes **kwargs", ok, stmt="_method1")
    pr = ctx.fn(SAF, "SafeLearner.predict")
    PRED = name_bound(pr, lambda v: unparse(v) == "self._safe_call('predict', self.learner.predict, (context, self._safe_actions))", "pred")
    ok = any(isinstance(r, ast.Return) and unparse(r.value) == f"self._parse_pred(context, self._safe_actions, {PRED})" for r in walk_shallow(pr)) and bool(assigned_value(pr, PRED))
    ctx.ob("C15.R4", SAF, "SafeLearner.predict", pr, "predict parses the learner's answer against the same action list it offered", ok, stmt="predict wiring")


def r5_fallback(ctx):
    ctx.rule("C15.R5", "_safe_call: the per-row fall-back (_method2) is tried only in the handler of the batched attempt, its output is "
                       "validated, and it calls the method once per row over zip(*args)")
    sc = ctx.fn(SAF, "SafeLearner._safe_call")
    roles = {}
    for n in bound_names(sc, lambda v: unparse(v) == "SafeLearner.batch_size(args)"):
        roles[n] = "expected_size"
    for n in bound_names(sc, lambda v: isinstance(v, ast.Call) and call_tail(v) in ("_method1", "_method2")):
        roles[n] = "out"
    sc = rename_copy(sc, roles)
    m2calls = [c for c in walk_shallow(sc) if isinstance(c, ast.Call) and call_tail(c) == "_method2"]
    ctx.floor("C15.R5", "_method2 call sites", len(m2calls), 2)
    for c in m2calls:
        st = enclosing_stmt(c)
        in_handler = any(isinstance(a, ast.ExceptHandler) for a in ancestors(c))
        memo = any(unparse(t) == "self._method.get(key) == 2" and p for t, p in guards_of(st, sc))
        ctx.ob("C15.R5", SAF, "SafeLearner._safe_call", c, "per-row invocation happens only after the batched call failed (or was found to fail before)", in_handler or memo)
        if in_handler:
            body = _body_of(st)
            i = body.index(st)
            nxt = unparse(body[i + 1]) if i + 1 < len(body) else ""
            ctx.ob("C15.R5", SAF, "SafeLearner._safe_call", c, "the fall-back's output is validated against the batch size", "raise_if_not_valid_out(out, expected_size)" in nxt, stmt="validate fallback")
    m1calls = [c for c in walk_shallow(sc) if isinstance(c, ast.Call) and call_tail(c) == "_method1" and any(isinstance(a, ast.Try) for a in ancestors(c))]
    for c in m1calls:
        st = enclosing_stmt(c)
        body = _body_of(st)
        i = body.index(st)
        nxt = unparse(body[i + 1]) if i + 1 < len(body) else ""
        ctx.ob("C15.R5", SAF, "SafeLearner._safe_call", c, "the batched attempt's output is validated before it is accepted", "raise_if_not_valid_out(out, expected_size)" in nxt, stmt="validate batched")
    m2 = ctx.fn(SAF, "SafeLearner._method2")
    comps = [x for x in walk_shallow(m2) if isinstance(x, ast.ListComp) and any(isinstance(c_, ast.Call) and unparse(c_.func) == m2.args.args[1].arg for c_ in ast.walk(x.elt))]
    # the rows: enumerate(zip(*args)) directly, or enumerate(<rows>) with <rows> bound once to a zip over the arguments (judged by C15.R17)
    it = comps[0].generators[0].iter if comps else None
    rows_ok = False
    if isinstance(it, ast.Call) and call_name(it) == "enumerate" and it.args:
        a0 = it.args[0]
        if unparse(a0) == "zip(*args)":
            rows_ok = True
        elif isinstance(a0, ast.Name):
            ds = assigned_value(m2, a0.id)
            rows_ok = len(ds) == 1 and isinstance(ds[0], ast.Call) and call_name(ds[0]) == "zip"
    ok = False
    if len(comps) == 1 and rows_ok:
        import copy as _copy
        c0 = _copy.deepcopy(comps[0])
        c0.generators[0].iter = ast.parse("enumerate(zip(*args))", mode="eval").body   # the row source was judged above
        ok = alpha(c0) == alpha("[method(*a, **{k: v[i] for k, v in kwargs.items()}) for i, a in enumerate(zip(*args))]")
    ctx.ob("C15.R5", SAF, "SafeLearner._method2", comps[0] if comps else m2, "the fall-back calls the method once per row, in row order, with that row's kwargs", ok)


def _body_of(st):
    p = parent(st)
    for f in ("body", "orelse", "finalbody"):
        b = getattr(p, f, None)
        if isinstance(b, list) and st in b:
            return b
    return [st]


CONTROLS = [
    ("an equal value of the same type counts as the offered action", SAF, M.replace_expr("SafeLearner.pred_format", "std_pred[0] is a", "std_pred[0] is a or (type(std_pred[0]) is type(a) and std_pred[0] == a)"), "C15.R19"),
    ("learn remembered under predict's key", SAF, M.replace_expr("SafeLearner.learn", "self._safe_call('learn', self.learner.learn, (context, action, reward, probability), kwargs, has_out=False)",
        "self._safe_call('predict', self.learner.learn, (context, action, reward, probability), kwargs, has_out=False)"), "C15.R18"),
    ("per-row fallback zips whatever it is given", SAF, M.replace_expr("SafeLearner._method2", "zip(*[a if a is not None else repeat(None, n) for a in args])", "zip(*args)"), "C15.R17"),
    ("PMF candidates bounded above instead of below", SAF, M.replace_expr("SafeLearner.possible_pmf", "i >= 0", "i <= 1"), "C15.R16"),
    ("batch validity measured on the last element", SAF, M.replace_expr("SafeLearner.raise_if_not_valid_out", "len_or_0(out[0])", "len_or_0(out[-1])"), "C15.R15"),
    ("safe-action cache keyed by the caller's own list", SAF, M.replace_expr("SafeLearner.predict", "list(actions) if actions.__class__ is list else actions", "actions"), "C15.R6"),
    ("one item answers are not classified", SAF, M.replace_expr("SafeLearner.pred_format", "len(std_pred) > 2 or len(std_pred) == 1", "len(std_pred) > 2"), "C15.R14"),
    ("weighted choice by left bisection", "coba/random.py", M.replace_expr("CobaRandom.choice", "next(compress(seq, map(partial(lt, next(self._randu) * tot), accumulate(weights))))",
                                                                           "seq[__import__('bisect').bisect_left(list(accumulate(weights)), next(self._randu) * tot)]"), "C15.R13"),
    ("dict hints read before the identity test", SAF, M.delete_stmt("SafeLearner.pred_format", M.text_has("if actions and any((std_pred is action for action in actions)): return 'AX'")), "C15.R8"),
    ("re-wrapping inherits the probed layout", SAF, M.replace_stmt("SafeLearner.__init__", M.simple_has("self._pred_batch = None"), "self._pred_batch = learner._pred_batch if isinstance(learner, SafeLearner) else None"), "C15.R12"),
    ("column arm keeps the (payload, kwargs) wrapper", SAF, M.replace_expr("SafeLearner._parse_pred", "(pred[0] if len(pred) == 2 else pred[:-1]) if self._pred_kwargs else pred", "pred[:-1] if self._pred_kwargs else pred"), "C15.R11"),
    ("column PMF not transposed", SAF, M.replace_expr("SafeLearner._parse_pred", "pred if self._pred_format.endswith('*') else zip(*pred)", "pred"), "C15.R11"),
    ("hinted PMF transposed as well", SAF, M.replace_expr("SafeLearner._parse_pred", "pred if self._pred_format.endswith('*') else zip(*pred)", "zip(*pred)"), "C15.R11"),
    ("identity test dropped before the PMF look-alike", SAF, M.delete_stmt("SafeLearner.pred_format", M.text_has("if any((std_pred[0] is action for action in actions)): return 'AX'")), "C15.R8"),
    ("str guard merged away", SAF, M.replace_expr("SafeLearner.pred_format", "no_len(std_pred) or isinstance(std_pred, str)", "no_len(std_pred)"), "C15.R8"),
    ("kwargs must be a dict", SAF, M.replace_expr("SafeLearner.has_kwargs", "abc.Mapping", "dict"), "C15.R9"),
    ("seed 0 treated as missing", "coba/evaluators/sequential.py", M.replace_expr("SequentialCB.evaluate", "self._seed if self._seed is not None else CobaContext.store.get('experiment_seed')", "self._seed or CobaContext.store.get('experiment_seed')"), "C15.R10"),
    ("probe loses batch marker", SAF, M.replace_expr("SafeLearner.batch_order", "predictor(Batch([context[0]]), Batch([actions[0]]))", "predictor(context[:1], actions[:1])"), "C15.R7"),
    ("cache key set on one branch only", SAF, M.replace_stmt("SafeLearner.predict", M.text_has("self._prev_actions = "), "if 0 in actions: self._prev_actions = list(actions)"), "C15.R6"),
    ("drop AX in col arm", SAF, lambda tree: _drop_arm(tree, "col", "AX"), "C15.R1"),
    ("pred_format returns AQ", SAF, M.replace_expr("SafeLearner.pred_format", "'AX*'", "'AQ*'"), "C15.R2"),
    ("fixed rng for PMF", SAF, M.replace_expr("SafeLearner._parse_pred", "self._rng.choicew(actions, pred)", "CobaRandom(1).choicew(actions, pred)"), "C15.R3"),
    ("kwargs dropped", SAF, M.replace_expr("SafeLearner._parse_pred", "(a, p, kwargs)", "(a, p, {})"), "C15.R4"),
    ("fallback first", SAF, M.replace_expr("SafeLearner._safe_call", "self._method.get(key) == 2", "True"), "C15.R5"),
]


def _drop_arm(tree, order, prefix):
    from ..mutate import find_def, TargetMissing
    fn = find_def(tree, "SafeLearner._parse_pred")
    for x in fn.body:
        if isinstance(x, ast.If) and ast.unparse(x.test) == f"self._pred_batch == '{order}'":
            for i, s in enumerate(x.body):
                if isinstance(s, ast.If) and ast.unparse(s.test) == f"self._pred_format[:2] == '{prefix}'":
                    x.body[i] = ast.Pass()
                    return
    raise TargetMissing("arm")
