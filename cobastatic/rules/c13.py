"""C13 -- lazy row views (DESIGN.md 5/C13).

Decided: interface completeness of every row class, agreement of the key set seen by
keys/len/iter/items, load-once, access purity, no silent None from __getitem__, agreement of the
feature/label split.  Not decided: index arithmetic of stacked KeepDense/DropOne/HeadDense.
"""
import ast
import copy

from ..cfg import CFG
from ..model import walk_shallow, call_name, is_self_attr, dotted_name, parent, ancestors, enclosing_function
from ..util import canon
from ..util import (has_call, find_calls, assigned_value, const_str, unparse, kw, arg_or_kw, enclosing_stmt,
                    guards_of, call_tail, control_ancestors)
from ..util import clone
from .. import mutate as M

TECHNIQUE = 'static analysis: interface completeness over the class hierarchy, key-set agreement (len/iter == keys expression), load-once typestate, purity of accessors, sibling decode-guard agreement, producer/consumer marker agreement, statelessness of row filters, len/iter source agreement with construction-site provenance of stored lengths, alias-mutation rule for accessors, equality/copy/truthiness computed from visible contents'

EXPLANATION = ("Family rules over every subclass of Dense_/Sparse_ (computed): required methods present; every self "
               "attribute that keys() combines into the key set is also used by __len__, __iter__ and items (or they "
               "delegate to keys()); the lazy loader is called only in _load_or_get which stores its result; accessors write "
               "no self state but that memo; __getitem__ never falls off its end (CFG path check); LabelDense/LabelSparse "
               "use one index/key for feats, label and labeled; DropOne's len/getitem/iter agree on the dropped index.")
EXPLANATION += " R8: all decode guards of the lazy rows are the same; R9: the 'no headers' marker of producer and consumer agree; R10: row filters are stateless."
EXPLANATION += " R11: row equality hashes nothing; R12: header names resolve to their column after EncodeRows / DropRows (positions from the header map's values)."

ROWS = "coba/pipes/rows.py"
PRIM = "coba/primitives.py"
ACCESSORS = ("__getitem__", "__iter__", "__len__", "keys", "items", "feats", "label", "labeled", "tipe", "_enc_all", "_enc_items", "_key_check")


def run(ctx):
    dense = ctx.model.subclasses(ctx.model.cls(PRIM, "Dense_"))
    sparse = ctx.model.subclasses(ctx.model.cls(PRIM, "Sparse_"))
    ctx.floor("C13.R1", "row classes", len(dense) + len(sparse), 12)
    r1_complete(ctx, dense, sparse)
    r2_keyset(ctx, sparse)
    r3_load_once(ctx, dense + sparse)
    r4_purity(ctx, dense + sparse)
    r5_no_silent_none(ctx, dense + sparse)
    r6_split(ctx)
    r7_predicate_stage(ctx)
    r8_decode_guards(ctx)
    r9_headers_only_with_headers(ctx)
    r10_filters_stateless(ctx)
    r11_equality(ctx)
    r12_header_names(ctx)
    r13_forwarding_getattr(ctx)
    r14_empty_views(ctx)
    r15_getitem_domain(ctx, sparse)
    r16_position_changing_views(ctx, dense)
    r17_categorical_expansion(ctx)
    r18_equality_by_contents(ctx)
    r19_len_iter_agreement(ctx)
    r20_truthiness(ctx)


def r1_complete(ctx, dense, sparse):
    ctx.rule("C13.R1", "every Dense_ subclass defines __getitem__/__iter__/__len__, every Sparse_ subclass additionally keys/items")
    for group, need in ((dense, ("__getitem__", "__iter__", "__len__")), (sparse, ("__getitem__", "__iter__", "__len__", "keys", "items"))):
        for c in group:
            for m in need:
                has = ctx.model.lookup_method(c, m) is not None and ctx.model.lookup_method(c, m)[0].name not in ("Dense_", "Sparse_")
                ctx.ob("C13.R1", c.rel, c.qual, c.node, f"{c.name} implements {m}", has, stmt=f"{c.name}.{m}", trivial=True)


def _self_attrs(node):
    return {x.attr for x in ast.walk(node) if is_self_attr(x)}


def r2_keyset(ctx, sparse):
    ctx.rule("C13.R2", "a self attribute that keys() combines into the key set with a set operator is also used by __len__, "
                       "__iter__ and items -- unless they delegate to keys()")
    n = 0
    for c in sparse:
        keys = c.methods.get("keys")
        if keys is None:
            continue
        extras = set()
        for x in walk_shallow(keys):
            if isinstance(x, ast.BinOp) and isinstance(x.op, (ast.BitOr, ast.Sub, ast.BitAnd)):
                for side in (x.left, x.right):
                    extras |= {a for a in _self_attrs(side) if a not in ("_row", "_load_or_get", "_inv", "_fwd")}
        for attr in sorted(extras):
            for m in ("__len__", "__iter__", "items"):
                fn = c.methods.get(m)
                if fn is None:
                    continue
                n += 1
                body = unparse(fn)
                delegates = "self.keys()" in body
                helper_uses = False
                for cc in walk_shallow(fn):
                    if isinstance(cc, ast.Call) and isinstance(cc.func, ast.Attribute) and is_self_attr(cc.func) and cc.func.attr in c.methods:
                        helper_uses |= attr in _self_attrs(c.methods[cc.func.attr])
                ok = attr in _self_attrs(fn) or delegates or helper_uses
                ctx.ob("C13.R2", c.rel, f"{c.qual}.{m}", fn, f"{m} accounts for self.{attr}, which keys() includes in the key set", ok,
                       stmt=f"{c.name}.{m} vs keys(): self.{attr}")
    ctx.floor("C13.R2", "key-set agreement instances", n, 9)
    # __len__ / __iter__ count and enumerate exactly the key-set expression of keys()
    for c in sparse:
        keys = c.methods.get("keys")
        if keys is None:
            continue
        K = None
        for x in walk_shallow(keys):
            if isinstance(x, ast.BinOp) and isinstance(x.op, (ast.BitOr, ast.Sub, ast.BitAnd)) and _self_attrs(x):
                K = x
                break
        if K is None:
            continue
        for m, wrap in (("__len__", "len"), ("__iter__", "iter")):
            fn = c.methods.get(m)
            if fn is None:
                continue
            rets = [r.value for r in walk_shallow(fn) if isinstance(r, ast.Return) and r.value is not None]
            ok = len(rets) == 1 and isinstance(rets[0], ast.Call) and call_name(rets[0]) == wrap and len(rets[0].args) == 1 and \
                unparse(rets[0].args[0]) in (unparse(K), "self.keys()")
            ctx.ob("C13.R2", c.rel, f"{c.qual}.{m}", fn, f"{m} is {wrap}() of the same key-set expression keys() uses (no double counting, no missing default keys)", ok,
                   detail={"keys_expr": unparse(K), m: [unparse(r) for r in rets]}, stmt=f"{c.name}.{m} == {wrap}(keys-expr)")


def r3_load_once(ctx, classes):
    ctx.rule("C13.R3", "the lazy loader self._row() is called only in _load_or_get, which stores the loaded row back into self._row")
    n = 0
    for c in classes:
        if "_load_or_get" not in c.methods:
            continue
        for mname, fn in c.methods.items():
            for x in walk_shallow(fn):
                ROWV = [t.id for a in walk_shallow(fn) if isinstance(a, ast.Assign) and unparse(a.value) == "self._row" for t in a.targets if isinstance(t, ast.Name)]
                if isinstance(x, ast.Call) and (unparse(x.func) == "self._row" or (isinstance(x.func, ast.Name) and x.func.id in ROWV and mname == "_load_or_get")):
                    n += 1
                    ctx.ob("C13.R3", c.rel, f"{c.qual}.{mname}", x, "the row loader is invoked only inside _load_or_get", mname == "_load_or_get")
        lg = c.methods["_load_or_get"]
        stores = [x for x in walk_shallow(lg) if isinstance(x, ast.Assign) and any(is_self_attr(t, "_row") for t in x.targets)]
        guard = any(isinstance(x, ast.If) and "callable(" in unparse(x.test) and any(isinstance(s, ast.Return) for s in x.body) for x in walk_shallow(lg))
        ctx.ob("C13.R3", c.rel, f"{c.qual}._load_or_get", lg, "the loaded row replaces the loader (so it is loaded at most once)", len(stores) == 1 and guard)
        # accessors reach the data only through _load_or_get
        for mname, fn in c.methods.items():
            if mname in ("__init__", "_load_or_get", "copy"):
                continue
            raw = [x for x in walk_shallow(fn) if is_self_attr(x, "_row") and isinstance(x.ctx, ast.Load)]
            n += 1
            ctx.ob("C13.R3", c.rel, f"{c.qual}.{mname}", fn, "accessor reads the row through _load_or_get, never self._row directly", not raw, stmt=f"{c.name}.{mname} via _load_or_get")
    ctx.floor("C13.R3", "lazy loader instances", n, 6)


def r4_purity(ctx, classes=None, rule="C13.R4"):
    ctx.rule(rule, "accessor methods of row classes write no self state (the only write is the load-once memo)")
    n = 0
    if classes is None:
        classes = ctx.model.subclasses(ctx.model.cls(PRIM, "Dense_")) + ctx.model.subclasses(ctx.model.cls(PRIM, "Sparse_"))
    for c in classes:
        for mname, fn in c.methods.items():
            if mname in ("__init__", "__setitem__", "copy", "__setstate__"):
                continue
            # a local bound to exactly `self.<attr>` is the same object: `keys = self._nsp; keys |= ...` grows the set every view of the table shares
            alias = {}
            for x in walk_shallow(fn):
                if isinstance(x, ast.Assign) and len(x.targets) == 1 and isinstance(x.targets[0], ast.Name):
                    if is_self_attr(x.value):
                        alias[x.targets[0].id] = x.value
                    else:
                        alias.pop(x.targets[0].id, None)
                    continue
                if isinstance(x, ast.AugAssign) and isinstance(x.target, ast.Name) and x.target.id in alias:
                    n += 1
                    ctx.ob(rule, c.rel, f"{c.qual}.{mname}", x, f"no access mutates the view's own state (`{x.target.id}` is {unparse(alias[x.target.id])} itself, the operator works in place)", False)
                if isinstance(x, ast.Call) and isinstance(x.func, ast.Attribute) and isinstance(x.func.value, ast.Name) and x.func.value.id in alias \
                        and x.func.attr in ("append", "pop", "update", "clear", "extend", "remove", "insert", "setdefault", "add", "discard", "sort", "popitem", "reverse"):
                    n += 1
                    ctx.ob(rule, c.rel, f"{c.qual}.{mname}", x, f"no access mutates the view's own state (`{x.func.value.id}` is {unparse(alias[x.func.value.id])} itself)", False)
                if isinstance(x, (ast.Assign, ast.Delete)):
                    for t in x.targets:
                        if isinstance(t, ast.Subscript) and isinstance(t.value, ast.Name) and t.value.id in alias:
                            n += 1
                            ctx.ob(rule, c.rel, f"{c.qual}.{mname}", x, f"no access mutates the view's own state (`{t.value.id}` is {unparse(alias[t.value.id])} itself)", False)
            for x in walk_shallow(fn):
                targets = []
                if isinstance(x, ast.Assign):
                    targets = x.targets
                elif isinstance(x, (ast.AugAssign,)):
                    targets = [x.target]
                elif isinstance(x, ast.Delete):
                    targets = x.targets
                for t in targets:
                    base = t
                    while isinstance(base, ast.Subscript):
                        base = base.value
                    if is_self_attr(base):
                        n += 1
                        ok = mname == "_load_or_get" and base.attr == "_row"
                        ctx.ob(rule, c.rel, f"{c.qual}.{mname}", x, "no access changes what later accesses return", ok)
                if isinstance(x, ast.Call) and isinstance(x.func, ast.Attribute) and x.func.attr in ("append", "pop", "update", "clear", "extend", "remove", "insert", "setdefault", "add") \
                        and is_self_attr(x.func.value):
                    n += 1
                    ctx.ob(rule, c.rel, f"{c.qual}.{mname}", x, "no access mutates the view's own state", False)
    ctx.floor(rule, "self-state writes in row accessors", n, 2)


def r5_no_silent_none(ctx, classes):
    ctx.rule("C13.R5", "__getitem__ of a row class has no path that falls off its end (a missing key raises, it never yields None)")
    n = 0
    for c in classes:
        fn = c.methods.get("__getitem__")
        if fn is None:
            continue
        n += 1
        g = CFG(fn)
        fall = [p for p, l in g.pred[g.exit_return] if not (g.nodes[p].kind == "stmt" and isinstance(g.nodes[p].ast, ast.Return))]
        reach = g.reachable()
        fall = [p for p in fall if p in reach]
        ctx.ob("C13.R5", c.rel, f"{c.qual}.__getitem__", fn, "every path ends in an explicit return or an exception", not fall,
               detail=None if not fall else {"falls_off_after": g.describe_path(fall)})
    ctx.floor("C13.R5", "__getitem__ implementations", n, 12)


def r6_split(ctx):
    ctx.rule("C13.R6", "LabelDense/LabelSparse take feats, label and labeled from the same index/key; DropOne's len, getitem and iter "
                       "agree on the dropped position")
    for cname, field, drop in (("LabelDense", "_ind", "DropOne"), ("LabelSparse", "_key", "DropSparse")):
        c = ctx.model.cls(ROWS, cname)
        feats, label, labeled = c.methods.get("feats"), c.methods.get("label"), c.methods.get("labeled")
        ok = all(f is not None for f in (feats, label, labeled))
        if ok:
            fa = {a for a in _self_attrs(feats)} - {"_row"}
            la = {a for a in _self_attrs(label)} - {"_row"}
            lb = {a for a in _self_attrs(labeled)} - {"_row", "_tipe"}
            ok = fa == la == lb == {field}
            ok = ok and call_name(next(x for x in walk_shallow(feats) if isinstance(x, ast.Call))) == drop
            # labeled == (feats, label, tipe) built the same way
            rf = unparse(next(x for x in walk_shallow(feats) if isinstance(x, ast.Return)).value)
            rl = unparse(next(x for x in walk_shallow(label) if isinstance(x, ast.Return)).value)
            rb = next(x for x in walk_shallow(labeled) if isinstance(x, ast.Return)).value
            ok = ok and isinstance(rb, ast.Tuple) and [unparse(e) for e in rb.elts] == [rf, rl, "self._tipe"]
        ctx.ob("C13.R6", ROWS, cname, c.node, f"{cname}: feats drops exactly the position label reads, labeled is (feats, label, tipe)", ok, stmt=f"{cname} split")
    d = ctx.model.cls(ROWS, "DropOne")
    ln = unparse(next(x for x in walk_shallow(d.methods["__len__"]) if isinstance(x, ast.Return)).value)
    ctx.ob("C13.R6", ROWS, "DropOne.__len__", d.methods["__len__"], "DropOne has one element fewer than its row", ln == "len(self._row) - 1", detail={"len": ln})
    gi = d.methods["__getitem__"]
    K = gi.args.args[1].arg
    shift = [x for x in gi.body if isinstance(x, ast.If) and any(isinstance(b, ast.AugAssign) for b in x.body)]
    ok = len(shift) == 1 and canon(unparse(shift[0].test)) == canon(f"{K} >= self._ind") and unparse(shift[0].body[0]) == f"{K} += 1"
    ctx.ob("C13.R6", ROWS, "DropOne.__getitem__", gi, "positions at or after the dropped index are shifted by one", ok)
    it = d.methods["__iter__"]
    r = unparse(next(x for x in walk_shallow(it) if isinstance(x, ast.Return)).value)
    from ..util import name_bound
    RW = name_bound(it, lambda v: unparse(v) == "self._row", "self._row")
    IN = name_bound(it, lambda v: unparse(v) == "self._ind", "self._ind")
    ctx.ob("C13.R6", ROWS, "DropOne.__iter__", it, "iteration skips exactly the dropped index", r == f"iter(chain(islice({RW}, {IN}), islice({RW}, {IN} + 1, None)))", detail={"iter": r})


def r7_predicate_stage(ctx):
    ctx.rule("C13.R7", "DropRows applies the row predicate to the rows as the previous stage produced them (before columns are dropped / rows are wrapped)")
    fn = ctx.fn(ROWS, "DropRows.filter")
    ff = [c for c in walk_shallow(fn) if isinstance(c, ast.Call) and call_name(c) == "filterfalse"]
    ctx.floor("C13.R7", "row-predicate applications in DropRows.filter", len(ff), 1)
    wraps = [x for x in walk_shallow(fn) if isinstance(x, ast.GeneratorExp) and isinstance(x.elt, ast.Call) and call_name(x.elt) in ("KeepDense", "DropSparse")]
    for c in ff:
        src = c.args[1] if len(c.args) == 2 else None
        # the predicate's input must be the peeked input stream: a name whose only earlier bindings are peek_first(...) / itself
        ok = isinstance(src, ast.Name) and unparse(c.args[0]) == "self._drop_row"
        if ok:
            binds = [x for x in walk_shallow(fn) if isinstance(x, ast.Assign) and x.lineno < c.lineno and any(src.id in [n.id for n in ast.walk(t) if isinstance(n, ast.Name)] for t in x.targets)]
            ok = all(has_call(b.value, "peek_first") for b in binds) and bool(binds)
        before_wrap = all(c.lineno < w.lineno for w in wraps)
        ctx.ob("C13.R7", ROWS, "DropRows.filter", c, "the predicate sees un-dropped rows: it is applied to the peeked input before any KeepDense/DropSparse wrapping", ok and before_wrap,
               detail={"input": unparse(src) if src is not None else None})
    for w in wraps:
        it = w.generators[0].iter
        ok = isinstance(it, ast.Name)
        ctx.ob("C13.R7", ROWS, "DropRows.filter", w, "column dropping wraps every surviving row once", ok and unparse(w.elt.args[0]) == unparse(w.generators[0].target), stmt="wrap " + call_name(w.elt))


def _guard_signature(t):
    """(caught types, missing markers answered with None, re-raises otherwise) of a try statement"""
    h = t.handlers[0]
    types = sorted(unparse(e) for e in (h.type.elts if isinstance(h.type, ast.Tuple) else [h.type])) if h.type is not None else ["<anything>"]
    markers = sorted({repr(c.value) for x in ast.walk(h) if isinstance(x, ast.Compare) and isinstance(x.ops[0], ast.In) for c in ast.walk(x.comparators[0]) if isinstance(c, ast.Constant)})
    nones = any((isinstance(x, ast.Return) and isinstance(x.value, ast.Constant) and x.value.value is None) or
                (isinstance(x, ast.Yield) and isinstance(x.value, ast.Constant) and x.value.value is None) or
                (isinstance(x, ast.Assign) and isinstance(x.value, ast.Constant) and x.value.value is None) for x in ast.walk(h))
    reraise = any(isinstance(x, ast.Raise) and x.exc is None for x in ast.walk(h))
    return (tuple(types), tuple(markers), nones, reraise)


def r8_decode_guards(ctx):
    ctx.rule("C13.R8", "a cell decodes the same way by position, by name and by iteration: every try around an encoder application in the lazy row "
                       "classes has the same handler (same exceptions caught, same missing markers answered with None, anything else re-raised)")
    fam = []
    for cname in ("LazyDense", "LazySparse"):
        c = ctx.model.cls(ROWS, cname)
        for name, fn in sorted(c.methods.items()):
            for t in [x for x in ast.walk(fn) if isinstance(x, ast.Try) and len(x.handlers) == 1]:
                applies = [k for st in t.body for k in ast.walk(st) if isinstance(k, ast.Call) and not isinstance(k.func, ast.Attribute) or
                           (isinstance(k, ast.Call) and isinstance(k.func, ast.Call))]
                applies = [k for k in applies if isinstance(k.func, (ast.Subscript, ast.Call)) or (isinstance(k.func, ast.Name) and len(k.func.id) <= 3)]
                if applies:
                    fam.append((cname, name, t, _guard_signature(t)))
                    ctx.touch(ROWS, f"{cname}.{name}")
    ctx.floor("C13.R8", "guarded encoder applications in LazyDense/LazySparse", len(fam), 4)
    sigs = [s_ for *_, s_ in fam]
    major = max(set(sigs), key=sigs.count) if sigs else None
    for cname, name, t, sig in fam:
        ctx.ob("C13.R8", ROWS, f"{cname}.{name}", t, "the decode guard equals the one used by the sibling access paths", sig == major,
               detail={"this": sig, "siblings": major}, stmt=f"decode guard in {cname}.{name}")
    # ... and no access path applies an encoder outside such a guard (a fast path that skips it answers '?' / '' with an exception instead of None)
    n_app = 0
    for cname in ("LazyDense", "LazySparse"):
        c = ctx.model.cls(ROWS, cname)
        for name, fn in sorted(c.methods.items()):
            aliases = {"self._enc"} | {t_.id for st in ast.walk(fn) if isinstance(st, ast.Assign) and unparse(st.value) == "self._enc" for t_ in st.targets if isinstance(t_, ast.Name)}
            elems = set()
            for x in ast.walk(fn):
                its = [(x.target, x.iter)] if isinstance(x, ast.For) else [(g.target, g.iter) for g in x.generators] if isinstance(x, (ast.GeneratorExp, ast.ListComp, ast.SetComp, ast.DictComp)) else []
                for tgt, it in its:
                    if isinstance(it, ast.Call) and call_name(it) == "zip" and isinstance(tgt, ast.Tuple):
                        for a_, t_ in zip(it.args, tgt.elts):
                            if unparse(a_) in aliases and isinstance(t_, ast.Name):
                                elems.add(t_.id)
                    elif unparse(it) in aliases and isinstance(tgt, ast.Name):
                        elems.add(tgt.id)
            for k in [k for k in ast.walk(fn) if isinstance(k, ast.Call)]:
                f = k.func
                is_app = (isinstance(f, ast.Subscript) and unparse(f.value) in aliases) or (isinstance(f, ast.Name) and f.id in elems) or \
                         (isinstance(f, ast.Call) and isinstance(f.func, ast.Attribute) and f.func.attr == "get" and unparse(f.func.value) in aliases)
                if not is_app:
                    continue
                n_app += 1
                tries = [a for a in ancestors(k) if isinstance(a, ast.Try) and any(k is y for b in a.body for y in ast.walk(b))]
                ok = any(len(t.handlers) == 1 and _guard_signature(t) == major for t in tries)
                ctx.ob("C13.R8", ROWS, f"{cname}.{name}", k, "the encoder is applied inside the decode guard (missing markers are answered with None on this access path too)", ok)
    ctx.floor("C13.R8", "encoder applications in LazyDense/LazySparse", n_app, 4)


def _producers(ctx, fn, e, depth=0):
    """abstract values an expression may take: 'none', 'empty' (literal empty container), 'built' (comprehension / call / other)"""
    if depth > 4:
        return {"built"}
    if isinstance(e, ast.Constant) and e.value is None:
        return {"none"}
    if (isinstance(e, (ast.Dict, ast.List, ast.Tuple, ast.Set)) and not (e.keys if isinstance(e, ast.Dict) else e.elts)) or \
            (isinstance(e, ast.Call) and call_name(e) in ("dict", "list", "tuple", "set") and not e.args and not e.keywords):
        return {"empty"}
    if isinstance(e, ast.IfExp):
        return _producers(ctx, fn, e.body, depth + 1) | _producers(ctx, fn, e.orelse, depth + 1)
    if isinstance(e, ast.Name):
        out = set()
        for st in ast.walk(fn):
            if isinstance(st, ast.Assign):
                for t in st.targets:
                    if isinstance(t, ast.Name) and t.id == e.id:
                        out |= _producers(ctx, fn, st.value, depth + 1)
                    elif isinstance(t, ast.Tuple) and any(isinstance(x, ast.Name) and x.id == e.id for x in t.elts):
                        i = [isinstance(x, ast.Name) and x.id == e.id for x in t.elts].index(True)
                        v = st.value
                        if isinstance(v, ast.Tuple) and len(v.elts) == len(t.elts):
                            out |= _producers(ctx, fn, v.elts[i], depth + 1)
                        elif isinstance(v, ast.Call) and call_name(v) is not None:
                            callee = call_name(v).split(".")[-1]
                            cands = [(q, f) for (r, q), f in ctx.model.functions.items() if r == ROWS and q.split(".")[-1] == callee]
                            for q, f in cands:
                                for r_ in walk_shallow(f):
                                    if isinstance(r_, ast.Return) and isinstance(r_.value, ast.Tuple) and len(r_.value.elts) == len(t.elts):
                                        out |= _producers(ctx, f, r_.value.elts[i], depth + 1)
                            if not cands:
                                out.add("built")
                        else:
                            out.add("built")
        return out or {"built"}
    return {"built"}


def r9_headers_only_with_headers(ctx):
    ctx.rule("C13.R9", "a wrapped row gets a `headers` attribute only when its table has headers: where the producer marks `no headers` with an empty "
                       "container the consumer's guard must be a truthiness test, where it marks it with None an `is not None` test suffices "
                       "(producer and consumer of the marker agree)")
    n = 0
    for c in ctx.model.subclasses(ctx.model.cls(PRIM, "Dense_")) + ctx.model.subclasses(ctx.model.cls(PRIM, "Sparse_")):
        if c.rel != ROWS:
            continue
        init = c.methods.get("__init__")
        if init is None:
            continue
        for st in [x for x in ast.walk(init) if isinstance(x, ast.Assign) and any(is_self_attr(t, "headers") for t in x.targets) and isinstance(x.value, ast.Name)]:
            P = st.value.id
            g = [(unparse(t), pol) for t, pol in guards_of(st, init)]
            truthy = (P, True) in g
            not_none = (f"{P} is not None", True) in g
            params = [a.arg for a in init.args.args]
            if P not in params:
                continue
            pos = params.index(P) - 1
            sites = []
            for (rel, qual), fn in sorted(ctx.model.functions.items()):
                if rel != ROWS:
                    continue
                for k in walk_shallow(fn):
                    if isinstance(k, ast.Call) and call_name(k) == c.name:
                        a = arg_or_kw(k, pos, P)
                        if a is not None:
                            sites.append((qual, fn, k, a))
            for qual, fn, k, a in sites:
                n += 1
                prod = _producers(ctx, fn, a)
                ok = truthy or (not_none and "empty" not in prod) or (not g and not (prod & {"empty", "none"}))
                ctx.touch(ROWS, qual)
                ctx.ob("C13.R9", ROWS, qual, k, f"{c.name}'s headers guard rejects every `no headers` marker its producer can send", ok,
                       detail={"guard": "truthiness" if truthy else "is not None" if not_none else [x for x, _ in g], "producer values": sorted(prod)})
                # ... and accepts every map the producer computes, the EMPTY one included (all named columns dropped): under a truthiness guard the attribute would not be
                # set and Dense_.__getattr__ would show the wrapped row's map instead
                if "built" in prod and c.name == "KeepDense":
                    ctx.ob("C13.R9", ROWS, qual, k, f"{c.name} sets the header map its producer computed even when that map is empty (guard `is not None`, marker None)", not_none and "empty" not in prod,
                           detail={"guard": "truthiness" if truthy else "is not None" if not_none else [x for x, _ in g], "producer values": sorted(prod)}, stmt=f"{c.name}: empty computed map is set")
    ctx.floor("C13.R9", "construction sites of header-carrying row wrappers", n, 2)


def r10_filters_stateless(ctx):
    ctx.rule("C13.R10", "the row filters (HeadRows, EncodeRows, DropRows, LabelRows, EncodeCatRows) resolve everything per call from the table they are "
                        "given: filter() and its helpers store nothing on the filter object (one filter object serves many tables)")
    n = 0
    base = ctx.model.cls(PRIM, "Filter")
    for c in ctx.model.subclasses(base):
        if c.rel != ROWS:
            continue
        for name, fn in sorted(c.methods.items()):
            if name == "__init__":
                continue
            n += 1
            ctx.touch(ROWS, f"{c.name}.{name}")
            from ..util import self_state_stores
            stores = self_state_stores(fn, c.methods.values())
            ctx.ob("C13.R10", ROWS, f"{c.name}.{name}", fn, "the method stores nothing on the filter object", not stores, detail={"stores": stores}, stmt=f"{c.name}.{name} stateless")
    ctx.floor("C13.R10", "row filter methods", n, 6)


def r12_header_names(ctx):
    from ..cfg import CFG
    from ..dataflow import reaching_defs, PARAM
    ctx.rule("C13.R12", "header names resolve to the column they name after every stage: a wrapper that carries per-position data (encoders) translates a name to its "
                        "position before using it; EncodeRows takes positions from the header map's values (not from the order the map was written in); "
                        "DropRows keeps only the surviving columns in its name map")
    n = 0
    for c in ctx.model.subclasses(ctx.model.cls(PRIM, "Dense_")):
        if c.rel != ROWS or "__getitem__" not in c.methods or "__init__" not in c.methods:
            continue
        gi, init = c.methods["__getitem__"], c.methods["__init__"]
        K = gi.args.args[1].arg
        seq_attrs = {t.attr for x in walk_shallow(init) if isinstance(x, ast.Assign) for t in x.targets if is_self_attr(t) and isinstance(x.value, ast.Name)
                     and any(a.arg == x.value.id and a.annotation is not None and unparse(a.annotation).startswith(("Sequence", "list", "List")) for a in init.args.args)}
        seq_attrs -= {"_row"}
        if not seq_attrs:
            continue
        g = CFG(gi)
        rd = reaching_defs(g, [a.arg for a in gi.args.args])
        for nd in g.nodes:
            if nd.ast is None or nd.id not in rd:
                continue
            for sub in [x for x in walk_shallow(nd.ast) if isinstance(x, ast.Subscript) and is_self_attr(x.value) and x.value.attr in seq_attrs and isinstance(x.slice, ast.Name) and x.slice.id == K]:
                n += 1
                ctx.touch(ROWS, f"{c.name}.__getitem__")
                ok = rd[nd.id].get(K) != frozenset([PARAM])
                ctx.ob("C13.R12", ROWS, f"{c.name}.__getitem__", sub, f"the key indexing the per-position list self.{sub.value.attr} was translated from a possible header name first", ok)
    ctx.floor("C13.R12", "per-position lists indexed by the access key", n, 1)
    er = ctx.fn(ROWS, "EncodeRows.filter")
    from ..util import all_guards
    enum_hdr = [c for c in ast.walk(er) if isinstance(c, ast.Call) and call_name(c) == "enumerate" and c.args and unparse(c.args[0]).endswith(".headers")
                and not any((not pol) and "isinstance(" in unparse(t) and "Mapping" in unparse(t) for t, pol in all_guards(c, er))]  # enumerating a header *list* is fine
    ctx.ob("C13.R12", ROWS, "EncodeRows.filter", enum_hdr[0] if enum_hdr else er, "positions of named columns come from the header map's values, not from enumerating the map", not enum_hdr, stmt="encoders by header position")
    md = ctx.fn(ROWS, "DropRows.make_drop_row_args")
    # the same holds for every stage that pairs header names with positions: enumerate(<row>.headers) is the order the map was WRITTEN in
    n_enum = 0
    for qual in ("DropRows.make_drop_row_args", "LabelRows.filter", "HeadRows.filter", "EncodeCatRows.filter"):
        if not ctx.model.has_func(ROWS, qual):
            continue
        f_ = ctx.fn(ROWS, qual)
        for c_ in [c_ for c_ in ast.walk(f_) if isinstance(c_, ast.Call) and call_name(c_) == "enumerate" and c_.args and unparse(c_.args[0]).endswith(".headers")]:
            n_enum += 1
            guarded = any((not pol) and "isinstance(" in unparse(t) and "Mapping" in unparse(t) for t, pol in all_guards(c_, f_))
            ctx.ob("C13.R12", ROWS, qual, c_, "positions of named columns come from the header map's values, not from enumerating the map", guarded, stmt=f"{qual}: enumerate(headers)")
    ctx.note(f"C13.R12: {n_enum} enumerations of a header map outside EncodeRows")
    header_renumbering(ctx, "C13.R12")
    maps = [x for x in walk_shallow(md) if isinstance(x, ast.Assign) and isinstance(x.value, (ast.DictComp, ast.Call)) and "enumerate(" in unparse(x.value) and "chain(" in unparse(x.value)]
    ok = len(maps) == 1 and any(isinstance(g_, (ast.GeneratorExp, ast.ListComp)) and g_.generators[0].ifs for g_ in ast.walk(maps[0].value) if isinstance(g_, (ast.GeneratorExp, ast.ListComp)))
    ctx.ob("C13.R12", ROWS, "DropRows.make_drop_row_args", maps[0] if maps else md, "the name -> position map handed to KeepDense lists only the columns that survive the drop", ok, stmt="kept names only")
    # the header map SHOWN by the reduced row gives every kept name its position among the kept COLUMNS (old position -> new position), not its rank among the kept names
    # in the order the original map lists them
    ext = [x for x in walk_shallow(md) if isinstance(x, ast.Assign) and isinstance(x.targets[0], ast.Name) and isinstance(x.value, (ast.DictComp, ast.Call)) and
           any(isinstance(b, ast.Return) and isinstance(b.value, ast.Tuple) and unparse(b.value.elts[-1]) == x.targets[0].id for b in ast.walk(md))]
    okx = False
    for x in ext:
        v = x.value
        if isinstance(v, ast.DictComp) and isinstance(v.value, ast.Subscript) and isinstance(v.value.value, ast.Name) and isinstance(v.generators[0].target, ast.Tuple) and len(v.generators[0].target.elts) == 2:
            pos_var = unparse(v.generators[0].target.elts[1])
            m_defs = assigned_value(md, v.value.value.id)
            def old_to_new(d_):
                # dict(zip(<kept old positions>, count())) where the kept old positions are list(compress(range(len(first)), <selects>))
                if not (isinstance(d_, ast.Call) and call_name(d_) == "dict" and len(d_.args) == 1 and isinstance(d_.args[0], ast.Call) and call_name(d_.args[0]) == "zip" and len(d_.args[0].args) == 2):
                    return False
                a0, a1 = d_.args[0].args
                if not (isinstance(a0, ast.Name) and unparse(a1) == "count()"):
                    return False
                kept = assigned_value(md, a0.id)
                return bool(kept) and all(isinstance(k_, ast.Call) and call_name(k_) == "list" and k_.args and isinstance(k_.args[0], ast.Call) and call_name(k_.args[0]) == "compress"
                                          and unparse(k_.args[0].args[0]).startswith("range(len(") for k_ in kept)
            okx = unparse(v.value.slice) == pos_var and bool(m_defs) and all(old_to_new(d_) for d_ in m_defs)
    ctx.ob("C13.R12", ROWS, "DropRows.make_drop_row_args", ext[0] if ext else md, "the reduced row's header map sends each kept name to the new position OF ITS COLUMN (looked up by the column's old position)", okx,
           stmt="external headers by column position")


def header_renumbering(ctx, rule):
    """a view that drops columns shows every kept name at its position among the kept COLUMNS (old position minus the dropped ones in front of it); pairing the names with
    0,1,2... in the order the wrapped map lists them is the same thing only when that map was written in column order"""
    n = 0
    for c in [c for c in ast.walk(ctx.model.modules[ROWS].tree) if isinstance(c, ast.ClassDef)]:
        for f in [f for f in c.body if isinstance(f, ast.FunctionDef) and f.name == "headers"]:
            n += 1
            bad = [k for k in ast.walk(f) if isinstance(k, ast.Call) and ((call_name(k) == "enumerate" and k.args and "headers" in unparse(k.args[0]))
                                                                            or (call_name(k) == "zip" and any(isinstance(a_, ast.Call) and call_name(a_) in ("count", "itertools.count", "range") for a_ in k.args)
                                                                                and any("headers" in unparse(a_) for a_ in k.args)))]
            ctx.ob(rule, ROWS, f"{c.name}.headers", (bad or [f])[0], "the positions a view shows for its names are computed from the wrapped positions, never by numbering the names in the order the wrapped map lists them",
                   not bad, detail={"renumbering": [unparse(k)[:80] for k in bad]}, stmt=f"{c.name}.headers positions")
    ctx.note(f"{rule}: {n} headers properties of row views examined")


def r13_forwarding_getattr(ctx, rule="C13.R13"):
    ctx.rule(rule, "row views can be copied and pickled like the rows they describe: a __getattr__ that forwards to self.<field> refuses to forward the look-up of that "
                   "field itself (copy / pickle probe attributes of an instance whose slots are not set yet; forwarding `_row` to `self._row` recurses without end)")
    n = 0
    for c in ctx.model.classes:
        if c.rel.startswith("coba/tests") or "__getattr__" not in c.methods:
            continue
        ga = c.methods["__getattr__"]
        A = ga.args.args[1].arg if len(ga.args.args) > 1 else "attr"
        fwd = [k for k in ast.walk(ga) if isinstance(k, ast.Call) and call_name(k) == "getattr" and len(k.args) >= 2 and is_self_attr(k.args[0]) and unparse(k.args[1]) == A]
        for k in fwd:
            n += 1
            field = k.args[0].attr
            ctx.touch(c.rel, f"{c.name}.__getattr__")
            guards = [x for x in walk_shallow(ga) if isinstance(x, ast.If) and any(isinstance(r, ast.Raise) for r in x.body) and
                      (repr(field) in unparse(x.test) or f"{A}.startswith('_')" in unparse(x.test) or f"{A}[0] == '_'" in unparse(x.test)) and x.lineno < k.lineno]
            ctx.ob(rule, c.rel, f"{c.name}.__getattr__", k, f"the look-up of `{field}` itself is answered with AttributeError before anything is forwarded to self.{field}", bool(guards))
    ctx.floor(rule, "forwarding __getattr__ methods", n, 2)


def r14_empty_views(ctx):
    from ..util import all_guards
    ctx.rule("C13.R14", "iteration agrees with length for degenerate rows: in the row classes a local built from the row's own storage (sorted(...)/list(...) of a self "
                        "field) is subscripted with a constant position only after it was tested for emptiness (SparseDense with no stored value is n defaults, not an IndexError)")
    n = 0
    for c in ctx.model.subclasses(ctx.model.cls(PRIM, "Dense_")) + ctx.model.subclasses(ctx.model.cls(PRIM, "Sparse_")):
        if c.rel != ROWS:
            continue
        for name, fn in sorted(c.methods.items()):
            locs = {t.id: x for x in walk_shallow(fn) if isinstance(x, ast.Assign) and isinstance(x.value, ast.Call) and call_name(x.value) in ("sorted", "list", "tuple")
                    and any(is_self_attr(a) for a in ast.walk(x.value)) for t in x.targets if isinstance(t, ast.Name)}
            if not locs:
                continue
            for sub in [x for x in walk_shallow(fn) if isinstance(x, ast.Subscript) and isinstance(x.value, ast.Name) and x.value.id in locs and isinstance(x.slice, (ast.Constant, ast.UnaryOp))
                        and unparse(x.slice) in ("0", "-1")]:
                n += 1
                L = sub.value.id
                st = enclosing_stmt(sub)
                # an earlier `if not L: ...; return` in the same body (early exit) or an enclosing positive guard on L
                early = [x for x in fn.body if isinstance(x, ast.If) and unparse(x.test) in (f"not {L}", f"len({L}) == 0", f"{L} == []") and x.lineno < st.lineno
                         and any(isinstance(r, (ast.Return, ast.Raise)) for r in ast.walk(x))]
                guarded = any(pol and unparse(t) in (L, f"len({L}) > 0", f"len({L})") for t, pol in all_guards(sub, fn))
                ctx.touch(ROWS, f"{c.name}.{name}")
                ctx.ob("C13.R14", ROWS, f"{c.name}.{name}", sub, f"`{L}` is known to be non-empty where its first / last element is taken", bool(early) or guarded)
    ctx.floor("C13.R14", "constant-position reads of storage snapshots in row classes", n, 1)


def r11_equality(ctx):
    ctx.rule("C13.R11", "a row view equals the eager list/dict it describes whatever its cells hold: Dense_.__eq__ / Sparse_.__eq__ compare list(...) / dict(...) of the "
                        "row (cells are compared with ==, never hashed -- a list- or dict-valued cell must not make a row unequal to itself)")
    n = 0
    for cname, builder in (("Dense_", "list"), ("Sparse_", "dict")):
        c = ctx.model.cls(PRIM, cname)
        eq = c.methods.get("__eq__")
        if eq is None:
            continue
        n += 1
        ctx.touch(PRIM, f"{cname}.__eq__")
        hashed = [k for k in ast.walk(eq) if isinstance(k, ast.Call) and call_name(k) in ("set", "frozenset", "hash", "sorted", "Counter")]
        cmps = [k for k in ast.walk(eq) if isinstance(k, ast.Compare) and len(k.ops) == 1 and isinstance(k.ops[0], ast.Eq)]
        elementwise = any(isinstance(k, ast.Call) and call_name(k) == "map" and k.args and unparse(k.args[0]) in ("eq", "operator.eq") for k in ast.walk(eq))
        ok = not hashed and (any(isinstance(k.left, ast.Call) and call_name(k.left) == builder for k in cmps) or elementwise)
        ctx.ob("C13.R11", PRIM, f"{cname}.__eq__", eq, f"equality compares the cells pairwise ({builder}(<row>) == {builder}(<other>) or all(map(eq, ..))) and hashes / orders nothing", ok,
               detail={"hashing or ordering calls": [unparse(k)[:60] for k in hashed]}, stmt=f"{cname}.__eq__")
    ctx.floor("C13.R11", "__eq__ of the row base classes", n, 2)
    # element-wise comparison over iteration would also accept what an eager list never equals: a string (iterates characters) or a mapping (iterates keys)
    for cname in ("Dense_", "Dense"):
        c = ctx.model.cls(PRIM, cname)
        eq = c.methods.get("__eq__")
        if eq is None:
            continue
        O = eq.args.args[1].arg
        elementwise = [k for k in ast.walk(eq) if isinstance(k, ast.Call) and call_name(k) == "map" and k.args and unparse(k.args[0]) in ("eq", "operator.eq")]
        if not elementwise:
            continue
        excl = [st for st in eq.body if isinstance(st, ast.If) and any(isinstance(r, ast.Return) and isinstance(r.value, ast.Constant) and r.value.value is False for r in st.body)
                and any(isinstance(k, ast.Call) and call_name(k) == "isinstance" and unparse(k.args[0]) == O and "str" in unparse(k.args[1]) and ("Sparse" in unparse(k.args[1]) or "Mapping" in unparse(k.args[1]))
                        for k in ast.walk(st.test))]
        ctx.ob("C13.R11", PRIM, f"{cname}.__eq__", (excl or [eq])[0], "element-wise equality first rules out strings and mappings (which iterate as characters / keys)", bool(excl) and excl[0].lineno < elementwise[0].lineno,
               stmt=f"{cname}.__eq__ excludes str and mappings")


def r18_equality_by_contents(ctx, rule="C13.R18"):
    """Two views of one class over the same wrapped object can show different values (KeepDense with different kept columns, DropOne with different label positions,
    EncodeDense with different encoders; SparseDense keeps nothing in _row at all): equality must be answered from what the view shows."""
    ctx.rule(rule, "equality of row views is decided by their visible contents: in Dense_.__eq__ / Sparse_.__eq__ (and any __eq__ a row class of pipes/rows.py defines) every returned "
                   "value that can be true reads the contents of `self` (iterates it, takes its len / items) -- `return True` is reachable only under `o is self`")
    sites = [(PRIM, "Dense_"), (PRIM, "Sparse_")] + [(ROWS, c.name) for c in ast.walk(ctx.model.modules[ROWS].tree) if isinstance(c, ast.ClassDef)]
    n = 0
    for rel, cname in sites:
        eq = ctx.model.cls(rel, cname).methods.get("__eq__")
        if eq is None:
            continue
        n += 1
        SELF, O = eq.args.args[0].arg, eq.args.args[1].arg
        for r in [x for x in ast.walk(eq) if isinstance(x, ast.Return) and x.value is not None]:
            v = r.value
            if isinstance(v, ast.Constant) and not v.value:
                continue
            reads = any((isinstance(x, ast.Name) and x.id == SELF and not isinstance(parent(x), ast.Attribute))
                        or (isinstance(x, ast.Call) and isinstance(x.func, ast.Attribute) and isinstance(x.func.value, ast.Name) and x.func.value.id == SELF and x.func.attr in ("items", "keys", "values", "copy"))
                        for x in ast.walk(v))
            same = any(pol and isinstance(t, ast.Compare) and len(t.ops) == 1 and isinstance(t.ops[0], ast.Is) and {unparse(t.left), unparse(t.comparators[0])} == {SELF, O}
                       for t, pol in guards_of(r, eq))
            ctx.ob(rule, rel, f"{cname}.__eq__", r, "a result that can be true is computed from the contents of the view (or the other object IS this one)", reads or same, detail={"returns": unparse(v)[:100]})
            if cname == "Sparse_" and not same:
                # a mapping equals another only if NEITHER has an entry the other lacks: the other object's whole content (items / keys / len) takes part, not only look-ups of our own keys in it
                whole = any(isinstance(x, ast.Call) and ((isinstance(x.func, ast.Attribute) and isinstance(x.func.value, ast.Name) and x.func.value.id == O and x.func.attr in ("items", "keys"))
                                                         or (call_name(x) in ("len", "dict", "set") and x.args and isinstance(x.args[0], ast.Name) and x.args[0].id == O)) for x in ast.walk(v))
                ctx.ob(rule, rel, f"{cname}.__eq__", r, "sparse equality is symmetric: the other mapping's own keys take part (a row is not equal to every mapping it is a subset of)", whole, detail={"returns": unparse(v)[:100]},
                       stmt="Sparse_.__eq__ symmetric")
    ctx.floor(rule, "__eq__ methods of row classes", n, 2)
    # copies of the generic bases: what a view shows, not what it wraps (KeepDense over a list would give the dropped columns back, EncodeDense the raw strings)
    for cname in ("Dense_", "Sparse_"):
        cp = ctx.model.cls(PRIM, cname).methods.get("copy")
        if cp is None:
            continue
        SELF = cp.args.args[0].arg
        for r in [x for x in ast.walk(cp) if isinstance(x, ast.Return) and x.value is not None]:
            reads = [x for x in ast.walk(r.value) if (isinstance(x, ast.Name) and x.id == SELF and not isinstance(parent(x), ast.Attribute))
                     or (isinstance(x, ast.Call) and isinstance(x.func, ast.Attribute) and isinstance(x.func.value, ast.Name) and x.func.value.id == SELF and x.func.attr in ("items", "keys", "values"))]
            wrapped = [x for x in ast.walk(r.value) if isinstance(x, ast.Attribute) and isinstance(x.value, ast.Name) and x.value.id == SELF and x.attr not in ("items", "keys", "values")]
            locs = {t.id for st in walk_shallow(cp) if isinstance(st, ast.Assign) and any(isinstance(y, ast.Attribute) and isinstance(y.value, ast.Name) and y.value.id == SELF for y in ast.walk(st.value))
                    for t in st.targets if isinstance(t, ast.Name)}
            via_local = [x for x in ast.walk(r.value) if isinstance(x, ast.Name) and x.id in locs]
            ctx.ob(rule, PRIM, f"{cname}.copy", r, "the copy of a view is built from what the view shows (its iteration / items), never from the object it wraps", bool(reads) and not wrapped and not via_local,
                   detail={"returns": unparse(r.value)[:100]})


def r19_len_iter_agreement(ctx, rule="C13.R19"):
    """len(view) is the number of values the view iterates: consumers size their work by len() and then walk the row (InteractionsEncoder: `starts=[1]*len(values)`
    zipped with the values -- a len that is too small silently drops the trailing features)."""
    ctx.rule(rule, "for every row view of pipes/rows.py, __len__ and __iter__ count the same thing: (a) len(E) with __iter__ iterating E (through iter / map / set / comprehension / zip, "
                   "self.keys() inlined), (b) len(E) - 1 with iteration of E minus one position, (c) a stored length that __iter__ itself is bounded by, or -- KeepDense -- that every "
                   "construction site computes as the number of true selectors handed over with it")
    mod = ctx.model.modules[ROWS]
    n = 0

    def inline_locals(fn, e):
        env = {}
        for st in walk_shallow(fn):
            if isinstance(st, ast.Assign) and len(st.targets) == 1 and isinstance(st.targets[0], ast.Name):
                env.setdefault(st.targets[0].id, []).append(st.value)

        class T(ast.NodeTransformer):
            def visit_Name(self, nd):
                v = env.get(nd.id)
                return self.visit(clone(v[0])) if v and len(v) == 1 else nd
        return T().visit(clone(e))

    def peel(e, cls, depth=0):
        """the collections whose members are counted / iterated by e"""
        if isinstance(e, ast.Call):
            f = call_name(e) or ""
            if isinstance(e.func, ast.Attribute) and isinstance(e.func.value, ast.Name) and e.func.value.id == "self" and e.func.attr in cls and not e.args and depth < 2 and e.func.attr != "_load_or_get":
                m = cls[e.func.attr]
                outs = [r.value for r in walk_shallow(m) if isinstance(r, ast.Return) and r.value is not None] + \
                       [y.value for y in ast.walk(m) if isinstance(y, ast.YieldFrom)] + [l_.iter for l_ in ast.walk(m) if isinstance(l_, ast.For)]
                return [s_ for o in outs for s_ in peel(inline_locals(m, o), cls, depth + 1)]
            if f in ("iter", "set", "list", "tuple", "sorted", "frozenset", "reversed") and e.args:
                return peel(e.args[0], cls, depth)
            if f == "map" and len(e.args) >= 2:
                return [s_ for a in e.args[1:] for s_ in peel(a, cls, depth)]
            if f == "zip":
                return [s_ for a in e.args for s_ in peel(a, cls, depth)]
            if isinstance(e.func, ast.Attribute) and e.func.attr == "keys" and not e.args:
                return peel(e.func.value, cls, depth)
        if isinstance(e, (ast.GeneratorExp, ast.ListComp, ast.SetComp)):
            return [s_ for g in e.generators for s_ in peel(g.iter, cls, depth)]
        return [unparse(e)]

    for c in [c for c in mod.tree.body if isinstance(c, ast.ClassDef)]:
        m = {f.name: f for f in c.body if isinstance(f, ast.FunctionDef)}
        if "__len__" not in m or "__iter__" not in m:
            continue
        n += 1
        ln, it = m["__len__"], m["__iter__"]
        lret = [r.value for r in walk_shallow(ln) if isinstance(r, ast.Return) and r.value is not None]
        outs = [r.value for r in walk_shallow(it) if isinstance(r, ast.Return) and r.value is not None] + [y.value for y in ast.walk(it) if isinstance(y, ast.YieldFrom)]
        it_src = {s_ for o in outs for s_ in peel(inline_locals(it, o), m)}
        it_txt = unparse(it)
        ok, how = False, ""
        if len(lret) == 1:
            L = inline_locals(ln, lret[0])
            if isinstance(L, ast.Call) and call_name(L) == "len" and len(L.args) == 1:
                src = set(peel(L.args[0], m))
                ok, how = bool(src & it_src), f"len of {sorted(src)} / iterates {sorted(it_src)}"
            elif isinstance(L, ast.BinOp) and isinstance(L.op, ast.Sub) and isinstance(L.right, ast.Constant) and L.right.value == 1 and isinstance(L.left, ast.Call) and call_name(L.left) == "len":
                E = unparse(L.left.args[0])
                ch = [x for o in outs for x in ast.walk(inline_locals(it, o)) if isinstance(x, ast.Call) and call_name(x) == "chain" and len(x.args) == 2]
                ok = any(all(isinstance(a, ast.Call) and call_name(a) == "islice" and unparse(a.args[0]) == E for a in x.args) and len(x.args[0].args) == 2 and len(x.args[1].args) == 3
                         and unparse(x.args[1].args[1]) in (f"{unparse(x.args[0].args[1])} + 1", f"1 + {unparse(x.args[0].args[1])}") and unparse(x.args[1].args[2]) == "None" for x in ch)
                how = f"len({E}) - 1 / iteration of {E} without one position"
            elif is_self_attr(L):
                comp = [x for o in outs for x in ast.walk(inline_locals(it, o)) if isinstance(x, ast.Call) and call_name(x) == "compress" and len(x.args) == 2]
                if comp:
                    ok, how = _stored_length_is_selector_count(ctx, c.name, m, L.attr, comp[0]), "stored length = number of true selectors at every construction site"
                else:
                    ok, how = unparse(L) in it_txt, f"stored length {unparse(L)} bounds the iteration"
        ctx.ob(rule, ROWS, f"{c.name}.__len__", ln, "len() of the view is the number of values it iterates", ok, detail={"how": how}, stmt=f"{c.name}: len ~ iter")
    ctx.floor(rule, "row classes with __len__ and __iter__", n, 10)


def _stored_length_is_selector_count(ctx, cname, methods, attr, comp):
    """KeepDense(row, mapping, selects, len, headers): at every construction site `len` is len(list(compress(range(len(first)), selects))) of the selects passed along"""
    init = methods.get("__init__")
    if init is None:
        return False
    params = [a.arg for a in init.args.args]
    binds = {unparse(t): unparse(st.value) for st in walk_shallow(init) if isinstance(st, ast.Assign) for t in st.targets}
    p_len, p_sel = binds.get(f"self.{attr}"), binds.get(unparse(comp.args[1]))
    if p_len not in params or p_sel not in params:
        return False
    i_len, i_sel = params.index(p_len) - 1, params.index(p_sel) - 1
    mod = ctx.model.modules[ROWS]
    sites = [k for k in ast.walk(mod.tree) if isinstance(k, ast.Call) and call_name(k) == cname]
    if not sites:
        return False
    for k in sites:
        fn = enclosing_function(k)
        if len(k.args) <= max(i_len, i_sel) or not all(isinstance(k.args[i], ast.Name) for i in (i_len, i_sel)):
            return False
        a_len, a_sel = k.args[i_len].id, k.args[i_sel].id
        # the two names are unpacked from one call of a helper that returns them side by side
        unp = [st for st in ast.walk(fn) if isinstance(st, ast.Assign) and isinstance(st.targets[0], ast.Tuple) and {a_len, a_sel} <= {unparse(e) for e in st.targets[0].elts} and isinstance(st.value, ast.Call)]
        if len(unp) != 1:
            return False
        names = [unparse(e) for e in unp[0].targets[0].elts]
        helper = (call_name(unp[0].value) or "").split(".")[-1]
        hf = next((f for (rel, q), f in ctx.model.functions.items() if rel == ROWS and q.split(".")[-1] == helper), None)
        if hf is None:
            return False
        rets = [r.value for r in ast.walk(hf) if isinstance(r, ast.Return) and isinstance(r.value, ast.Tuple) and len(r.value.elts) == len(names)]
        if not rets:
            return False
        for r in rets:
            LN, SL = unparse(r.elts[names.index(a_len)]), unparse(r.elts[names.index(a_sel)])
            ldefs = [st.value for st in ast.walk(hf) if isinstance(st, ast.Assign) and any(unparse(t) == LN for t in st.targets)]
            if not ldefs or not all(isinstance(v, ast.Call) and call_name(v) == "len" and len(v.args) == 1 for v in ldefs):
                return False
            for v in ldefs:
                X = v.args[0]
                xdefs = [X] if not isinstance(X, ast.Name) else [st.value for st in ast.walk(hf) if isinstance(st, ast.Assign) and any(unparse(t) == X.id for t in st.targets)]
                if not xdefs or not all(canon(unparse(x)) in (canon(f"list(compress(range(len(first)), {SL}))"), canon(f"list(compress(count(), {SL}))")) or
                                        (isinstance(x, ast.Call) and call_name(x) in ("list", "tuple") and x.args and isinstance(x.args[0], ast.Call) and call_name(x.args[0]) == "compress"
                                         and unparse(x.args[0].args[1]) == SL and unparse(x.args[0].args[0]).startswith("range(len(")) for x in xdefs):
                    return False
    return True


def r20_truthiness(ctx, rule="C13.R20"):
    """`if not context`, `context or []`, `if not values: return []` (InteractionsEncoder._pows): a row is falsy exactly when it is empty.  Without __bool__ python uses
    __len__; a __bool__ that looks at the wrapped object is wrong for every view whose storage is elsewhere (SparseDense keeps None in _row)."""
    ctx.rule(rule, "the truth value of a row view is `len(view) > 0`: no row class (nor Dense_ / Sparse_) defines __bool__ other than through len(self)")
    n = 0
    sites = [(PRIM, "Dense_"), (PRIM, "Sparse_")] + [(ROWS, c.name) for c in ast.walk(ctx.model.modules[ROWS].tree) if isinstance(c, ast.ClassDef)]
    for rel, cname in sites:
        c = ctx.model.cls(rel, cname)
        n += 1
        b_ = c.methods.get("__bool__")
        if b_ is None:
            ctx.ob(rule, rel, cname, c.node, "truthiness falls back to __len__", True, trivial=True, stmt=f"{cname}: no __bool__")
            continue
        SELF = b_.args.args[0].arg
        rets = [r.value for r in walk_shallow(b_) if isinstance(r, ast.Return) and r.value is not None]
        ok = bool(rets) and all(canon(unparse(v)) in (canon(f"len({SELF}) > 0"), canon(f"bool(len({SELF}))"), canon(f"len({SELF}) != 0"), canon(f"0 < len({SELF})")) for v in rets)
        ctx.ob(rule, rel, f"{cname}.__bool__", b_, "__bool__ answers from len(self)", ok, detail={"returns": [unparse(v) for v in rets]})
    ctx.floor(rule, "row classes examined for __bool__", n, 12)


def _empty_marker(tree):
    from ..mutate import find_def
    f = find_def(tree, "DropRows.make_drop_row_args")
    for x in ast.walk(f):
        if isinstance(x, ast.Assign) and ast.unparse(x.targets[0]) == "external_headers" and isinstance(x.value, ast.Constant) and x.value.value is None:
            x.value = ast.Dict(keys=[], values=[])
    k = find_def(tree, "KeepDense.__init__")
    for x in ast.walk(k):
        if isinstance(x, ast.If) and ast.unparse(x.test) == "headers":
            x.test = ast.parse("headers is not None", mode="eval").body


def r15_getitem_domain(ctx, sparse, rule="C13.R15"):
    """the keys a sparse view answers by subscription are the keys it advertises: a key that the underlying row lacks is answered (rather than KeyError)
    only if keys() adds it -- i.e. only on the true edge of a membership test in the very set that keys() unions in."""
    from ..cfg import CFG
    from ..util import escape_path
    ctx.rule(rule, "subscription agrees with keys(): in a sparse view whose keys() is `<row>.keys() | self.<extra>`, every path of __getitem__ that answers after the row raised "
                   "KeyError passes the true edge of `key in self.<extra>` (a default for any other key would make row[k] succeed for a k that keys(), items(), len and == report absent)")
    n = 0
    for c in sparse:
        keys, gi = c.methods.get("keys"), c.methods.get("__getitem__")
        if keys is None or gi is None:
            continue
        extra = None
        for x in walk_shallow(keys):
            if isinstance(x, ast.BinOp) and isinstance(x.op, ast.BitOr):
                for side in (x.left, x.right):
                    if is_self_attr(side):
                        extra = side.attr
        handlers = []
        for t in [t for t in ast.walk(gi) if isinstance(t, ast.Try)]:
            reads_row = any(isinstance(y, ast.Subscript) and isinstance(y.slice, ast.Name) and y.slice.id == gi.args.args[1].arg for b in t.body for y in ast.walk(b))
            if reads_row:
                handlers += [h for h in t.handlers if h.type is None or "KeyError" in unparse(h.type)]
        if extra is None or not handlers:
            continue
        g = CFG(gi)
        K = gi.args.args[1].arg
        # the try that decides "the row lacks this key" contains the row look-up only: an encoder applied inside it could raise the same KeyError for a key the row HAS
        for t in [t for t in ast.walk(gi) if isinstance(t, ast.Try) and any(h in t.handlers for h in handlers)]:
            apps = [k for b in t.body for k in ast.walk(b) if isinstance(k, ast.Call) and (isinstance(k.func, ast.Call) or
                    (isinstance(k.func, ast.Subscript) and "_enc" in unparse(k.func.value)) or (isinstance(k.func, ast.Name) and k.func.id in ("enc", "encoder")))]
            ctx.ob(rule, c.rel, f"{c.qual}.__getitem__", t, "no encoder is applied inside the try whose KeyError means `the row lacks the key`", not apps,
                   detail={"applications": [unparse(k)[:60] for k in apps]}, stmt=f"{c.name}: look-up try holds the look-up only")
        for h in handlers:
            n += 1
            starts = [nd.id for nd in g.nodes if nd.kind == "handler" and nd.ast is h]

            def edge_ok(a, b, l, extra=extra):
                nd = g.nodes[a]
                if nd.kind == "test" and nd.ast is not None and unparse(nd.ast) == f"{K} in self.{extra}" and l == "true":
                    return False
                if nd.kind == "test" and nd.ast is not None and unparse(nd.ast) in (f"{K} not in self.{extra}", f"not {K} in self.{extra}") and l == "false":
                    return False
                return True
            bad = None
            for s0 in starts:
                # leave the handler node itself by any edge
                p_ = escape_path(g, s0, set(), {g.exit_return}, first_labels_skip=(), edge_ok=edge_ok)
                if p_ is not None:
                    bad = p_
            ctx.ob(rule, c.rel, f"{c.qual}.__getitem__", h, f"a key the row lacks is answered only when it is in self.{extra} (what keys() adds)", bool(starts) and bad is None,
                   detail=None if bad is None else {"path": [repr(g.nodes[i]) for i in bad]})
    ctx.floor(rule, "KeyError handlers in __getitem__ of sparse views with an augmented key set", n, 1)


def r17_categorical_expansion(ctx, rule="C13.R17"):
    """EncodeCatRows: a categorical cell of a sparse row expands to `<key>_<index of its level>: 1`, and keys are handed to the encoder as keys, never as iterables."""
    ctx.rule(rule, "flat one-hot of a sparse categorical: in the loop over enumerate(<one-hot>) the new key interpolates the POSITION, the value stored is the bit and the guard tests the bit; "
                   "every key handed to the per-row encoder (catset) is wrapped in a list or is a [key, keys] pair -- a bare string key would be iterated character by character")
    fn = ctx.fn(ROWS, "EncodeCatRows._encode_collection")
    n = 0
    for lp in [x for x in ast.walk(fn) if isinstance(x, ast.For) and isinstance(x.iter, ast.Call) and call_name(x.iter) == "enumerate" and isinstance(x.target, ast.Tuple) and len(x.target.elts) == 2]:
        I, V = (unparse(e) for e in lp.target.elts)
        scope = enclosing_function(lp) or fn
        its = assigned_value(scope, unparse(lp.iter.args[0])) if isinstance(lp.iter.args[0], ast.Name) else [lp.iter.args[0]]
        if not any("as_onehot" in unparse(v) for v in its):
            continue
        for st in [x for x in ast.walk(lp) if isinstance(x, ast.Assign) and isinstance(x.targets[0], ast.Subscript) and isinstance(x.targets[0].slice, ast.JoinedStr)]:
            n += 1
            interp = [unparse(fv.value) for fv in st.targets[0].slice.values if isinstance(fv, ast.FormattedValue)]
            from ..util import all_guards
            tests = [unparse(t) for t, pol in all_guards(st, scope) if pol]
            ok = I in interp and V not in interp and unparse(st.value) in (V, "1") and any(canon(t) in (canon(f"{V} != 0"), canon(V), canon(f"{V} == 1")) for t in tests)
            ctx.ob(rule, ROWS, "EncodeCatRows._encode_collection", st, "the expanded key names the position of the hot bit and holds the bit", ok,
                   detail={"key interpolates": interp, "value": unparse(st.value), "guards": tests})
    ctx.floor(rule, "sparse one-hot expansions", n, 1)
    m = 0
    inner = [x for x in ast.walk(fn) if isinstance(x, ast.FunctionDef) and x.name == "catset"]
    for c_ in [c_ for c_ in ast.walk(fn) if isinstance(c_, ast.Call) and isinstance(c_.func, ast.Name) and c_.func.id == "catset" and len(c_.args) == 2
               and not (inner and c_ in list(ast.walk(inner[0])))]:
        m += 1
        a = c_.args[1]
        listy = isinstance(a, ast.List) or (isinstance(a, ast.IfExp) and "isinstance" in unparse(a.test) and "list" in unparse(a.test) and isinstance(a.orelse, ast.List)) or \
            (isinstance(a, ast.Name) and all(isinstance(v, (ast.List, ast.ListComp)) or (isinstance(v, ast.Call) and call_name(v) == "list") for v in assigned_value(fn, a.id)) and bool(assigned_value(fn, a.id)))
        ctx.ob(rule, ROWS, "EncodeCatRows._encode_collection", c_, "the keys argument of catset is a list (a key, also a string key, is wrapped)", listy, detail={"argument": unparse(a)})
    ctx.floor(rule, "calls of catset from the row loop", m, 1)
    # the scan for categorical cells treats the row VIEWS (Dense / Sparse ABCs) like the plain containers -- a lazy first row must not make the filter a no-op
    ck = [x for x in ast.walk(fn) if isinstance(x, ast.FunctionDef) and x.name == "catkey"]
    tests = [unparse(t.args[1]) for c_ in ck for t in ast.walk(c_) if isinstance(t, ast.Call) and call_name(t) == "isinstance" and len(t.args) == 2]
    ctx.ob(rule, ROWS, "EncodeCatRows._encode_collection", ck[0] if ck else fn, "the scan for categorical cells looks into Dense and Sparse row views as well as lists, tuples and dicts",
           any("Dense" in t for t in tests) and any("Sparse" in t for t in tests), detail={"types scanned": tests}, stmt="catkey scans row views")


def _drop_member(tree, cname, member):
    from ..mutate import find_def
    cls = find_def(tree, cname)
    keep = [st for st in cls.body if not (isinstance(st, ast.FunctionDef) and st.name == member)]
    if len(keep) == len(cls.body):
        raise M.TargetMissing(f"{cname}.{member}")
    cls.body = keep


def r16_position_changing_views(ctx, dense=None, rule="C13.R16"):
    dense = dense if dense is not None else ctx.model.subclasses(ctx.model.cls(PRIM, "Dense_"))
    """a dense view that leaves columns out moves the positions of the columns behind them: the header map it shows, and the way it resolves a header
    name, must be its own -- the attribute forwarding of Dense_ would hand out the map of the full row."""
    ctx.rule(rule, "dense views that drop columns (their __len__ is not the wrapped row's) define their own `headers` (slot or property, not the forwarded map of the full row) "
                   "and their __getitem__ distinguishes names from positions before any position arithmetic")
    n = 0
    for c in dense:
        if c.rel != ROWS or "__len__" not in c.methods or "__getitem__" not in c.methods:
            continue
        ln = c.methods["__len__"]
        rets = [unparse(r.value) for r in walk_shallow(ln) if isinstance(r, ast.Return) and r.value is not None]
        if all(r in ("len(self._row)", "len(self._load_or_get())", "self._length", "len(self._encoders)") for r in rets):
            continue
        if not any("self._row" in r or "self._len" in r for r in rets):
            continue
        n += 1
        slots = []
        for st in c.node.body:
            if isinstance(st, ast.Assign) and unparse(st.targets[0]) == "__slots__":
                slots = [const_str(e) for e in ast.walk(st.value) if isinstance(e, ast.Constant)]
        own_headers = "headers" in slots or "headers" in c.methods
        ctx.ob(rule, ROWS, c.name, c.node, f"{c.name} shows its own header map (columns left, their positions in the view)", own_headers, stmt=f"{c.name}.headers")
        gi = c.methods["__getitem__"]
        K = gi.args.args[1].arg
        arith = [x for x in ast.walk(gi) if (isinstance(x, ast.AugAssign) and isinstance(x.target, ast.Name) and x.target.id == K) or
                 (isinstance(x, ast.Compare) and unparse(x.left) == K and isinstance(x.ops[0], (ast.Lt, ast.LtE, ast.Gt, ast.GtE)))]
        by_map = any(isinstance(x, ast.Call) and call_tail(x) == "get" and x.args and unparse(x.args[0]) == K and isinstance(x.func, ast.Attribute) and is_self_attr(x.func.value) for x in ast.walk(gi)) \
            and not arith   # one look-up table for names and positions alike, no position arithmetic at all
        from ..util import all_guards
        # either the arithmetic sits under a type test itself, or an earlier type-test branch handles names completely: its body ENDS in return / raise on every path
        # (a name translated to a position must not fall through into the arithmetic meant for positions of the VIEW)
        def terminates(body):
            last = body[-1] if body else None
            if isinstance(last, (ast.Return, ast.Raise)):
                return True
            if isinstance(last, ast.If):
                return bool(last.orelse) and terminates(last.body) and terminates(last.orelse)
            return False
        typed = all(any("__class__" in unparse(t) or "isinstance" in unparse(t) for t, pol in all_guards(x, gi)) or
                    any(isinstance(p_, ast.If) and ("__class__" in unparse(p_.test) or "isinstance" in unparse(p_.test)) and p_.lineno < x.lineno and terminates(p_.body)
                        for p_ in gi.body) for x in arith)
        ctx.ob(rule, ROWS, f"{c.name}.__getitem__", gi, "a header name is told apart from a position before positions are compared or shifted", by_map or (bool(arith) and typed),
               stmt=f"{c.name}.__getitem__ names")
    ctx.floor(rule, "dense views that drop columns", n, 2)


def _unguarded_fast_iter(tree):
    from ..mutate import find_def
    fn = find_def(tree, "LazyDense.__iter__")
    fn.body = ast.parse("enc = self._enc\nif not enc:\n    return iter(self._load_or_get())\nelif getattr(self, 'missing', None) is False:\n    return (e(v) for e, v in zip(enc, self._load_or_get()))\nelse:\n    return self._enc_all()").body


CONTROLS = [
    ("a sparse row equals every mapping it is a subset of", PRIM, M.replace_expr("Sparse_.__eq__", "dict(self.items()) == dict(o.items())", "all((o[k] == v for k, v in self.items()))"), "C13.R18"),
    ("DropOne numbers the kept names in the order the map lists them", ROWS, M.replace_stmt("DropOne.headers", lambda st: isinstance(st, ast.Return), "return dict(zip((h for h, i in self._row.headers.items() if i != ind), count()))"), "C13.R12"),
    ("Dense_.copy copies the wrapped list", PRIM, M.replace_stmt("Dense_.copy", lambda st: isinstance(st, ast.Return), "return self._row.copy() if self._row.__class__ is list else list(iter(self))"), "C13.R18"),
    ("Dense_ is falsy when what it wraps is", PRIM, M.insert_before("Dense_.__eq__", lambda st: True, "pass") if False else (lambda tree: _add_method(tree, "Dense_", "def __bool__(self):\n    return bool(self._row)")), "C13.R20"),
    ("HeadDense measures its header map", ROWS, M.replace_expr("HeadDense.__len__", "len(self._row)", "len(self.headers)"), "C13.R19"),
    ("kept length computed from the size of the drop list", ROWS, M.replace_expr("DropRows.make_drop_row_args", "len(indexes)", "len(first) - len(drop_cols)"), "C13.R19"),
    ("EncodeSparse.keys grows the shared not-sparse set through an alias", ROWS, M.replace_stmt("EncodeSparse.keys", lambda st: isinstance(st, ast.Return), "keys = self._nsp\nkeys |= self._row.keys()\nreturn keys"), "C13.R4"),
    ("views of one class over the same row compare equal unwalked", PRIM, M.insert_before("Dense_.__eq__", lambda st: isinstance(st, ast.Try), "if o.__class__ is self.__class__ and o._row is self._row: return True"), "C13.R18"),
    ("KeepDense sets only non-empty header maps", ROWS, M.replace_expr("KeepDense.__init__", "headers is not None", "headers"), "C13.R9"),
    ("EncodeCatRows scans plain containers only", ROWS, M.replace_expr("EncodeCatRows._encode_collection", "isinstance(o, (list, tuple, Dense))", "isinstance(o, (list, tuple))"), "C13.R17"),
    ("a name's position falls through into the view's index shift", ROWS, M.delete_stmt("DropOne.__getitem__", lambda st: isinstance(st, ast.Return), nth=0), "C13.R16"),
    ("kept names numbered in the order the header map lists them", ROWS, M.replace_expr("DropRows.make_drop_row_args", "{h: external_indexes[i] for h, i in headers if i in external_indexes}", "dict(zip((h for h, i in headers if selects[i]), count()))"), "C13.R12"),
    ("sparse one-hot keyed by the bit", ROWS, M.replace_stmt("EncodeCatRows._encode_collection", M.text_has("o[f'{_k}_{i}'] = v"), "if i != 0: o[f'{_k}_{v}'] = i"), "C13.R17"),
    ("string keys handed to catset as they are", ROWS, M.replace_expr("EncodeCatRows._encode_collection", "k if isinstance(k, list) else [k]", "k"), "C13.R17"),
    ("dense rows equal strings of their characters", PRIM, M.delete_stmt("Dense_.__eq__", M.text_has("isinstance(o, (str, bytes, Sparse))")), "C13.R11"),
    ("feats forwards the full row's header map", ROWS, lambda tree: _drop_member(tree, "DropOne", "headers"), "C13.R16"),
    ("DropRows pairs names with positions by the order the header map was written in", ROWS, M.replace_expr("DropRows.make_drop_row_args",
        "[not (i in drop_cols or (i in names and names[i] in drop_cols)) for i in range(len(first))]", "[not any((i in drop_cols for i in I)) for I in enumerate(first.headers)]"), "C13.R12"),
    ("EncodeSparse answers every encoded key", ROWS, M.replace_expr("EncodeSparse.__getitem__", "key not in self._nsp", "key not in self._enc"), "C13.R15"),
    ("EncodeSparse applies the encoder inside the look-up try", ROWS, M.replace_stmt("EncodeSparse.__getitem__", lambda st: isinstance(st, ast.Try),
        "try:\n    return self._enc.get(key, lambda x: x)(self._row[key])\nexcept KeyError:\n    if key not in self._nsp: raise\n    val = '0'"), "C13.R15"),
    ("LazyDense iterates without the decode guard when the reader saw no marker", ROWS, _unguarded_fast_iter, "C13.R8"),
    ("SparseDense iterates an empty snapshot", ROWS, M.delete_stmt("SparseDense.__iter__", lambda st: isinstance(st, ast.If) and ast.unparse(st.test) == "not sort"), "C13.R14"),
    ("forwarding __getattr__ without a base case", PRIM, M.delete_stmt("Dense_.__getattr__", M.text_has("if attr == '_row': raise AttributeError(attr)")), "C13.R13"),
    ("EncodeDense indexes its encoders with the raw key", ROWS, M.delete_stmt("EncodeDense.__getitem__", M.text_has("key = key if key.__class__ is int else self._row.headers[key]")), "C13.R12"),
    ("encoders resolved by enumerating the header map", ROWS, M.replace_expr("EncodeRows.filter", "[enc.get(names.get(i), enc.get(i, lambda x: x)) for i in range(len(first))]", "[enc.get(h, enc.get(i, lambda x: x)) for i, h in enumerate(first.headers)]"), "C13.R12"),
    ("dropped columns stay in the name map", ROWS, M.replace_expr("DropRows.make_drop_row_args", "(hi for hi in headers if selects[hi[1]])", "headers"), "C13.R12"),
    ("sparse rows compared through frozenset", PRIM, M.replace_expr("Sparse_.__eq__", "dict(self.items()) == dict(o.items())", "frozenset(self.items()) == frozenset(o.items())"), "C13.R11"),
    ("getitem catches ValueError only", ROWS, M.replace_stmt("LazyDense.__getitem__", lambda st: isinstance(st, ast.Try), "try:\n    return enc[key](val)\nexcept ValueError:\n    if val in ['?', '']: return None\n    raise"), "C13.R8"),
    ("empty header map for headerless rows", ROWS, _empty_marker, "C13.R9"),
    ("EncodeRows keeps the resolved encoders", ROWS, M.insert_before("EncodeRows.filter", lambda st: isinstance(st, ast.Return) and "EncodeDense" in ast.unparse(st), "self._encoders = enc"), "C13.R10"),
    ("len double counts", ROWS, M.replace_expr("LazySparse.__len__", "len(self._load_or_get().keys() | self._nsp)", "len(self._load_or_get()) + len(self._nsp)"), "C13.R2"),
    ("DropSparse without keys", ROWS, lambda tree: _remove_method(tree, "DropSparse", "keys"), "C13.R1"),
    ("EncodeSparse len ignores nsp", ROWS, M.replace_expr("EncodeSparse.__len__", "len(self._row.keys() | self._nsp)", "len(self._row)"), "C13.R2"),
    ("loader called in __iter__", ROWS, M.replace_expr("LazyDense.__iter__", "iter(self._load_or_get())", "iter(self._row())"), "C13.R3"),
    ("getitem caches", ROWS, M.insert_before("HeadDense.__getitem__", M.simple_has("return self._row["), "self.headers = dict(self.headers)"), "C13.R4"),
    ("LabelSparse silent None", ROWS, M.replace_stmt("LabelSparse.__getitem__", M.simple_has("raise"), "pass"), "C13.R5"),
    ("label reads other index", ROWS, M.replace_expr("LabelDense.label", "self._row[self._ind]", "self._row[-1]"), "C13.R6"),
]


def _add_method(tree, cls, src):
    for c in ast.walk(tree):
        if isinstance(c, ast.ClassDef) and c.name == cls:
            c.body.append(ast.parse(src).body[0])
            ast.fix_missing_locations(tree)
            return tree
    raise M.TargetMissing(f"class {cls}")


def _remove_method(tree, cls, name):
    from ..mutate import find_def, TargetMissing
    c = find_def(tree, cls)
    before = len(c.body)
    c.body = [s for s in c.body if not (isinstance(s, ast.FunctionDef) and s.name == name)]
    if len(c.body) == before:
        raise TargetMissing(f"{cls}.{name}")
