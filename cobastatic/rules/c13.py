"""C13 -- lazy row views (DESIGN.md 5/C13).

Decided: interface completeness of every row class, agreement of the key set seen by
keys/len/iter/items, load-once, access purity, no silent None from __getitem__, agreement of the
feature/label split.  Not decided: index arithmetic of stacked KeepDense/DropOne/HeadDense.
"""
import ast

from ..cfg import CFG
from ..model import walk_shallow, call_name, is_self_attr, dotted_name, parent, ancestors, enclosing_function
from ..util import (has_call, find_calls, assigned_value, const_str, unparse, kw, arg_or_kw, enclosing_stmt,
                    guards_of, call_tail, control_ancestors)
from .. import mutate as M

EXPLANATION = ("Family rules over every subclass of Dense_/Sparse_ (computed): required methods present; every self "
               "attribute that keys() combines into the key set is also used by __len__, __iter__ and items (or they "
               "delegate to keys()); the lazy loader is called only in _load_or_get which stores its result; accessors write "
               "no self state but that memo; __getitem__ never falls off its end (CFG path check); LabelDense/LabelSparse "
               "use one index/key for feats, label and labeled; DropOne's len/getitem/iter agree on the dropped index.")

ROWS = "coba/pipes/rows.py"
PRIM = "coba/primitives.py"
ACCESSORS = ("__getitem__", "__iter__", "__len__", "keys", "items", "feats", "label", "labeled", "tipe", "_enc_all", "_enc_items", "_key_check")


def run(ctx):
    dense = ctx.model.subclasses(ctx.model.cls(PRIM, "Dense_"))
    sparse = ctx.model.subclasses(ctx.model.cls(PRIM, "Sparse_"))
    ctx.floor("C13.R1", "row classes", len(dense) + len(sparse), 12)
    r1_complete(ctx, dense, sparse)
    r2_keyset(ctx, sparse)
    r3_load_once(ctx, dense + sparse)
    r4_purity(ctx, dense + sparse)
    r5_no_silent_none(ctx, dense + sparse)
    r6_split(ctx)
    r7_predicate_stage(ctx)


def r1_complete(ctx, dense, sparse):
    ctx.rule("C13.R1", "every Dense_ subclass defines __getitem__/__iter__/__len__, every Sparse_ subclass additionally keys/items")
    for group, need in ((dense, ("__getitem__", "__iter__", "__len__")), (sparse, ("__getitem__", "__iter__", "__len__", "keys", "items"))):
        for c in group:
            for m in need:
                has = ctx.model.lookup_method(c, m) is not None and ctx.model.lookup_method(c, m)[0].name not in ("Dense_", "Sparse_")
                ctx.ob("C13.R1", c.rel, c.qual, c.node, f"{c.name} implements {m}", has, stmt=f"{c.name}.{m}", trivial=True)


def _self_attrs(node):
    return {x.attr for x in ast.walk(node) if is_self_attr(x)}


def r2_keyset(ctx, sparse):
    ctx.rule("C13.R2", "a self attribute that keys() combines into the key set with a set operator is also used by __len__, "
                       "__iter__ and items -- unless they delegate to keys()")
    n = 0
    for c in sparse:
        keys = c.methods.get("keys")
        if keys is None:
            continue
        extras = set()
        for x in walk_shallow(keys):
            if isinstance(x, ast.BinOp) and isinstance(x.op, (ast.BitOr, ast.Sub, ast.BitAnd)):
                for side in (x.left, x.right):
                    extras |= {a for a in _self_attrs(side) if a not in ("_row", "_load_or_get", "_inv", "_fwd")}
        for attr in sorted(extras):
            for m in ("__len__", "__iter__", "items"):
                fn = c.methods.get(m)
                if fn is None:
                    continue
                n += 1
                body = unparse(fn)
                delegates = "self.keys()" in body
                helper_uses = False
                for cc in walk_shallow(fn):
                    if isinstance(cc, ast.Call) and isinstance(cc.func, ast.Attribute) and is_self_attr(cc.func) and cc.func.attr in c.methods:
                        helper_uses |= attr in _self_attrs(c.methods[cc.func.attr])
                ok = attr in _self_attrs(fn) or delegates or helper_uses
                ctx.ob("C13.R2", c.rel, f"{c.qual}.{m}", fn, f"{m} accounts for self.{attr}, which keys() includes in the key set", ok,
                       stmt=f"{c.name}.{m} vs keys(): self.{attr}")
    ctx.floor("C13.R2", "key-set agreement instances", n, 9)
    # __len__ / __iter__ count and enumerate exactly the key-set expression of keys()
    for c in sparse:
        keys = c.methods.get("keys")
        if keys is None:
            continue
        K = None
        for x in walk_shallow(keys):
            if isinstance(x, ast.BinOp) and isinstance(x.op, (ast.BitOr, ast.Sub, ast.BitAnd)) and _self_attrs(x):
                K = x
                break
        if K is None:
            continue
        for m, wrap in (("__len__", "len"), ("__iter__", "iter")):
            fn = c.methods.get(m)
            if fn is None:
                continue
            rets = [r.value for r in walk_shallow(fn) if isinstance(r, ast.Return) and r.value is not None]
            ok = len(rets) == 1 and isinstance(rets[0], ast.Call) and call_name(rets[0]) == wrap and len(rets[0].args) == 1 and \
                unparse(rets[0].args[0]) in (unparse(K), "self.keys()")
            ctx.ob("C13.R2", c.rel, f"{c.qual}.{m}", fn, f"{m} is {wrap}() of the same key-set expression keys() uses (no double counting, no missing default keys)", ok,
                   detail={"keys_expr": unparse(K), m: [unparse(r) for r in rets]}, stmt=f"{c.name}.{m} == {wrap}(keys-expr)")


def r3_load_once(ctx, classes):
    ctx.rule("C13.R3", "the lazy loader self._row() is called only in _load_or_get, which stores the loaded row back into self._row")
    n = 0
    for c in classes:
        if "_load_or_get" not in c.methods:
            continue
        for mname, fn in c.methods.items():
            for x in walk_shallow(fn):
                ROWV = [t.id for a in walk_shallow(fn) if isinstance(a, ast.Assign) and unparse(a.value) == "self._row" for t in a.targets if isinstance(t, ast.Name)]
                if isinstance(x, ast.Call) and (unparse(x.func) == "self._row" or (isinstance(x.func, ast.Name) and x.func.id in ROWV and mname == "_load_or_get")):
                    n += 1
                    ctx.ob("C13.R3", c.rel, f"{c.qual}.{mname}", x, "the row loader is invoked only inside _load_or_get", mname == "_load_or_get")
        lg = c.methods["_load_or_get"]
        stores = [x for x in walk_shallow(lg) if isinstance(x, ast.Assign) and any(is_self_attr(t, "_row") for t in x.targets)]
        guard = any(isinstance(x, ast.If) and "callable(" in unparse(x.test) and any(isinstance(s, ast.Return) for s in x.body) for x in walk_shallow(lg))
        ctx.ob("C13.R3", c.rel, f"{c.qual}._load_or_get", lg, "the loaded row replaces the loader (so it is loaded at most once)", len(stores) == 1 and guard)
        # accessors reach the data only through _load_or_get
        for mname, fn in c.methods.items():
            if mname in ("__init__", "_load_or_get", "copy"):
                continue
            raw = [x for x in walk_shallow(fn) if is_self_attr(x, "_row") and isinstance(x.ctx, ast.Load)]
            n += 1
            ctx.ob("C13.R3", c.rel, f"{c.qual}.{mname}", fn, "accessor reads the row through _load_or_get, never self._row directly", not raw, stmt=f"{c.name}.{mname} via _load_or_get")
    ctx.floor("C13.R3", "lazy loader instances", n, 6)


def r4_purity(ctx, classes):
    ctx.rule("C13.R4", "accessor methods of row classes write no self state (the only write is the load-once memo)")
    n = 0
    for c in classes:
        for mname, fn in c.methods.items():
            if mname in ("__init__", "__setitem__", "copy", "__setstate__"):
                continue
            for x in walk_shallow(fn):
                targets = []
                if isinstance(x, ast.Assign):
                    targets = x.targets
                elif isinstance(x, (ast.AugAssign,)):
                    targets = [x.target]
                elif isinstance(x, ast.Delete):
                    targets = x.targets
                for t in targets:
                    base = t
                    while isinstance(base, ast.Subscript):
                        base = base.value
                    if is_self_attr(base):
                        n += 1
                        ok = mname == "_load_or_get" and base.attr == "_row"
                        ctx.ob("C13.R4", c.rel, f"{c.qual}.{mname}", x, "no access changes what later accesses return", ok)
                if isinstance(x, ast.Call) and isinstance(x.func, ast.Attribute) and x.func.attr in ("append", "pop", "update", "clear", "extend", "remove", "insert", "setdefault", "add") \
                        and is_self_attr(x.func.value):
                    n += 1
                    ctx.ob("C13.R4", c.rel, f"{c.qual}.{mname}", x, "no access mutates the view's own state", False)
    ctx.floor("C13.R4", "self-state writes in row accessors", n, 2)


def r5_no_silent_none(ctx, classes):
    ctx.rule("C13.R5", "__getitem__ of a row class has no path that falls off its end (a missing key raises, it never yields None)")
    n = 0
    for c in classes:
        fn = c.methods.get("__getitem__")
        if fn is None:
            continue
        n += 1
        g = CFG(fn)
        fall = [p for p, l in g.pred[g.exit_return] if not (g.nodes[p].kind == "stmt" and isinstance(g.nodes[p].ast, ast.Return))]
        reach = g.reachable()
        fall = [p for p in fall if p in reach]
        ctx.ob("C13.R5", c.rel, f"{c.qual}.__getitem__", fn, "every path ends in an explicit return or an exception", not fall,
               detail=None if not fall else {"falls_off_after": g.describe_path(fall)})
    ctx.floor("C13.R5", "__getitem__ implementations", n, 12)


def r6_split(ctx):
    ctx.rule("C13.R6", "LabelDense/LabelSparse take feats, label and labeled from the same index/key; DropOne's len, getitem and iter "
                       "agree on the dropped position")
    for cname, field, drop in (("LabelDense", "_ind", "DropOne"), ("LabelSparse", "_key", "DropSparse")):
        c = ctx.model.cls(ROWS, cname)
        feats, label, labeled = c.methods.get("feats"), c.methods.get("label"), c.methods.get("labeled")
        ok = all(f is not None for f in (feats, label, labeled))
        if ok:
            fa = {a for a in _self_attrs(feats)} - {"_row"}
            la = {a for a in _self_attrs(label)} - {"_row"}
            lb = {a for a in _self_attrs(labeled)} - {"_row", "_tipe"}
            ok = fa == la == lb == {field}
            ok = ok and call_name(next(x for x in walk_shallow(feats) if isinstance(x, ast.Call))) == drop
            # labeled == (feats, label, tipe) built the same way
            rf = unparse(next(x for x in walk_shallow(feats) if isinstance(x, ast.Return)).value)
            rl = unparse(next(x for x in walk_shallow(label) if isinstance(x, ast.Return)).value)
            rb = next(x for x in walk_shallow(labeled) if isinstance(x, ast.Return)).value
            ok = ok and isinstance(rb, ast.Tuple) and [unparse(e) for e in rb.elts] == [rf, rl, "self._tipe"]
        ctx.ob("C13.R6", ROWS, cname, c.node, f"{cname}: feats drops exactly the position label reads, labeled is (feats, label, tipe)", ok, stmt=f"{cname} split")
    d = ctx.model.cls(ROWS, "DropOne")
    ln = unparse(next(x for x in walk_shallow(d.methods["__len__"]) if isinstance(x, ast.Return)).value)
    ctx.ob("C13.R6", ROWS, "DropOne.__len__", d.methods["__len__"], "DropOne has one element fewer than its row", ln == "len(self._row) - 1", detail={"len": ln})
    gi = d.methods["__getitem__"]
    shift = [x for x in walk_shallow(gi) if isinstance(x, ast.If)]
    ok = len(shift) == 1 and unparse(shift[0].test) == "key >= self._ind" and unparse(shift[0].body[0]) == "key += 1"
    ctx.ob("C13.R6", ROWS, "DropOne.__getitem__", gi, "positions at or after the dropped index are shifted by one", ok)
    it = d.methods["__iter__"]
    r = unparse(next(x for x in walk_shallow(it) if isinstance(x, ast.Return)).value)
    from ..util import name_bound
    RW = name_bound(it, lambda v: unparse(v) == "self._row", "self._row")
    IN = name_bound(it, lambda v: unparse(v) == "self._ind", "self._ind")
    ctx.ob("C13.R6", ROWS, "DropOne.__iter__", it, "iteration skips exactly the dropped index", r == f"iter(chain(islice({RW}, {IN}), islice({RW}, {IN} + 1, None)))", detail={"iter": r})


def r7_predicate_stage(ctx):
    ctx.rule("C13.R7", "DropRows applies the row predicate to the rows as the previous stage produced them (before columns are dropped / rows are wrapped)")
    fn = ctx.fn(ROWS, "DropRows.filter")
    ff = [c for c in walk_shallow(fn) if isinstance(c, ast.Call) and call_name(c) == "filterfalse"]
    ctx.floor("C13.R7", "row-predicate applications in DropRows.filter", len(ff), 1)
    wraps = [x for x in walk_shallow(fn) if isinstance(x, ast.GeneratorExp) and isinstance(x.elt, ast.Call) and call_name(x.elt) in ("KeepDense", "DropSparse")]
    for c in ff:
        src = c.args[1] if len(c.args) == 2 else None
        # the predicate's input must be the peeked input stream: a name whose only earlier bindings are peek_first(...) / itself
        ok = isinstance(src, ast.Name) and unparse(c.args[0]) == "self._drop_row"
        if ok:
            binds = [x for x in walk_shallow(fn) if isinstance(x, ast.Assign) and x.lineno < c.lineno and any(src.id in [n.id for n in ast.walk(t) if isinstance(n, ast.Name)] for t in x.targets)]
            ok = all(has_call(b.value, "peek_first") for b in binds) and bool(binds)
        before_wrap = all(c.lineno < w.lineno for w in wraps)
        ctx.ob("C13.R7", ROWS, "DropRows.filter", c, "the predicate sees un-dropped rows: it is applied to the peeked input before any KeepDense/DropSparse wrapping", ok and before_wrap,
               detail={"input": unparse(src) if src is not None else None})
    for w in wraps:
        it = w.generators[0].iter
        ok = isinstance(it, ast.Name)
        ctx.ob("C13.R7", ROWS, "DropRows.filter", w, "column dropping wraps every surviving row once", ok and unparse(w.elt.args[0]) == unparse(w.generators[0].target), stmt="wrap " + call_name(w.elt))


CONTROLS = [
    ("len double counts", ROWS, M.replace_expr("LazySparse.__len__", "len(self._load_or_get().keys() | self._nsp)", "len(self._load_or_get()) + len(self._nsp)"), "C13.R2"),
    ("DropSparse without keys", ROWS, lambda tree: _remove_method(tree, "DropSparse", "keys"), "C13.R1"),
    ("EncodeSparse len ignores nsp", ROWS, M.replace_expr("EncodeSparse.__len__", "len(self._row.keys() | self._nsp)", "len(self._row)"), "C13.R2"),
    ("loader called in __iter__", ROWS, M.replace_expr("LazyDense.__iter__", "iter(self._load_or_get())", "iter(self._row())"), "C13.R3"),
    ("getitem caches", ROWS, M.insert_before("HeadDense.__getitem__", M.simple_has("return self._row["), "self.headers = dict(self.headers)"), "C13.R4"),
    ("LabelSparse silent None", ROWS, M.replace_stmt("LabelSparse.__getitem__", M.simple_has("raise"), "pass"), "C13.R5"),
    ("label reads other index", ROWS, M.replace_expr("LabelDense.label", "self._row[self._ind]", "self._row[-1]"), "C13.R6"),
]


def _remove_method(tree, cls, name):
    from ..mutate import find_def, TargetMissing
    c = find_def(tree, cls)
    before = len(c.body)
    c.body = [s for s in c.body if not (isinstance(s, ast.FunctionDef) and s.name == name)]
    if len(c.body) == before:
        raise TargetMissing(f"{cls}.{name}")
