"""C16 -- built-in learners report their own policy (DESIGN.md 5/C16).

Decided: self-consistency only -- predict and score of each learner go through one predictor built
from the learner's own _pmf (or are the uniform pair / a pure forwarder), the predictor samples
and scores the same PMF call, Corral's kwargs key matches its learn() parameter.
Not decided: validity of the distributions after arbitrary histories; Corral's root search.
"""
import ast

from ..model import walk_shallow, call_name, is_self_attr, dotted_name, parent, ancestors, enclosing_function
from ..util import (has_call, find_calls, assigned_value, const_str, unparse, kw, arg_or_kw, enclosing_stmt,
                    guards_of, call_tail, control_ancestors)
from .. import mutate as M

TECHNIQUE = "static analysis: delegation agreement of predict/score, look-up totality over offered actions, sorted-bracket rule, exact rational identity test of Corral's break points against the poles of f, Dense/Sparse ABC dispatch and registration table, ordered per-function taint analysis (raw actions never hashed), sign analysis of sqrt/log arguments"

EXPLANATION = ("Sibling rules over every class in coba/learners/{bandit,corral,misguided}.py that has predict and score "
               "(family computed): both delegate to the same predictor attribute, which __init__ builds from the bound "
               "self._pmf, or they are the uniform pair (1/len(actions), unweighted choicew), or they forward unchanged to "
               "the wrapped learner; PMFPredictor/PMFInfoPredictor index and sample the same self._pmfcall(context, "
               "actions); MisguidedLearner.learn forwards every argument and **kwargs; Corral's info kwargs key is the name "
               "of its learn() parameter.")
EXPLANATION += " R6: make_hashable dispatches on the Dense/Sparse ABCs and the ABC registrations are in place; R7: Corral's break points are exactly the poles of f and the returned weights are f's terms at the root."
EXPLANATION += " R5 also: fixed-offset bracket probing (known finding); R8: the sampler never draws a zero-weight item; R9: Corral's smoothed weights sum to one (exact identity test)."

UTL = "coba/learners/utilities.py"
FILES = ["coba/learners/bandit.py", "coba/learners/corral.py", "coba/learners/misguided.py"]


def run(ctx):
    r1_same_predictor(ctx)
    r2_predictors(ctx)
    r3_misguided(ctx)
    r4_lookup_totality(ctx)
    r5_corral_brackets(ctx)
    r6_type_dispatch(ctx)
    r7_corral_poles(ctx)
    r8_sampler(ctx)
    r9_smoothing_sums_to_one(ctx)
    r10_math_domains(ctx)
    r11_greedy_set_nonempty(ctx)
    r12_raw_actions_not_hashed(ctx)
    # "an action from the offered set": Corral's base learners (and every wrapped learner) are handed SafeLearner's protected copy of the offered actions -- a copy
    # that is not refreshed when the offered set changes makes them vote for actions that are not offered
    from . import c15
    c15.r6_safe_actions_cache(ctx, rule="C16.R13")


def r12_raw_actions_not_hashed(ctx, rule="C16.R12"):
    """Actions may be lists or dicts (dense / sparse feature vectors): a learner must not use an action AS OFFERED as a dictionary key or set member.  bandit.py
    converts with make_hashable first; everything else has to compare with == / look positions up with .index()."""
    ctx.rule(rule, "no learner hashes an action as offered: ordered per-function taint analysis over coba/learners -- tainted are the `action` parameter, the members of the "
                   "`actions` parameter and whatever a wrapped learner's predict() returned; make_hashable(x) / map(make_hashable, xs) cleans; sinks are dict keys "
                   "(d[x], d.get(x), x in d, setdefault, {x: ..}), set members (set(xs), .add(x)), dict(zip(xs, ..)), Counter(xs) and hash(x)")
    LRN = [rel for rel in ctx.model.modules if rel.startswith("coba/learners/") and not rel.endswith("__init__.py")]
    n_fn = n_sink = 0

    def clean_call(e):
        return isinstance(e, ast.Call) and (call_name(e) == "make_hashable" or (call_name(e) in ("map",) and e.args and unparse(e.args[0]) == "make_hashable")
                                            or (call_name(e) in ("list", "tuple") and e.args and clean_call(e.args[0])))

    ENTRY = ("predict", "score", "learn", "_pmf")               # called from outside (or by the PMF predictors) with the actions as offered
    helper_args = {}                                            # (rel, class, helper name) -> {position: kind} joined over the call sites in analysed methods
    work = [(rel, qual, fn) for rel in sorted(LRN) for (r_, qual), fn in sorted(ctx.model.functions.items()) if r_ == rel]
    work = [w for w in work if w[1].split(".")[-1] in ENTRY] + [w for w in work if w[1].split(".")[-1] not in ENTRY]
    for rel, qual, fn in work:
        if True:
            params = [a.arg for a in fn.args.args]
            mname = qual.split(".")[-1]
            if mname in ENTRY:
                if not ({"action", "actions"} & set(params)):
                    continue
                item = {p for p in params if p == "action"}         # names holding ONE raw action
                coll = {p for p in params if p == "actions"}        # names holding collections whose members are (or contain) raw actions
            else:
                seeds = helper_args.get((rel, ".".join(qual.split(".")[:-1]), mname), {})
                if not seeds:
                    continue
                item = {params[i] for i, k_ in seeds.items() if k_ == "item" and i < len(params)}
                coll = {params[i] for i, k_ in seeds.items() if k_ == "coll" and i < len(params)}
            n_fn += 1

            def kind(e):
                """'item' / 'coll' / None for an expression"""
                if clean_call(e):
                    return None
                if isinstance(e, ast.Name):
                    return "item" if e.id in item else "coll" if e.id in coll else None
                if isinstance(e, ast.Call) and isinstance(e.func, ast.Attribute) and e.func.attr == "predict":
                    return "coll"                                 # (action, prob, ...) of a wrapped learner
                if isinstance(e, ast.Call) and call_name(e) in ("zip", "list", "tuple", "iter", "reversed", "sorted", "enumerate", "chain", "map"):
                    return "coll" if any(kind(a.value if isinstance(a, ast.Starred) else a) for a in e.args) else None
                if isinstance(e, (ast.ListComp, ast.GeneratorExp)):
                    return "coll" if kind(e.elt) or any(kind(g.iter) for g in e.generators) and kind(e.elt) else ("coll" if kind(e.elt) else None)
                if isinstance(e, ast.Subscript):
                    return "item" if kind(e.value) == "coll" and not isinstance(e.slice, ast.Slice) else kind(e.value) if isinstance(e.slice, ast.Slice) else None
                if isinstance(e, (ast.Tuple, ast.List)):
                    return "coll" if any(kind(x) for x in e.elts) else None
                return None

            def bind(target, k):
                names = [target] if isinstance(target, ast.Name) else [x for x in ast.walk(target) if isinstance(x, ast.Name)] if isinstance(target, (ast.Tuple, ast.List)) else []
                for nm in names:
                    item.discard(nm.id)
                    coll.discard(nm.id)
                    if k == "item":
                        item.add(nm.id)
                    elif k == "coll":
                        coll.add(nm.id)

            def bind_iter(target, it):
                """for <target> in <it>: members of a tainted collection are items (of a zip: position-wise)"""
                if isinstance(it, ast.Call) and call_name(it) == "zip" and isinstance(target, (ast.Tuple, ast.List)) and len(target.elts) == len(it.args):
                    for t_, a_ in zip(target.elts, it.args):
                        bind_iter(t_, a_)
                    return
                if isinstance(it, ast.Call) and call_name(it) == "enumerate" and isinstance(target, (ast.Tuple, ast.List)) and len(target.elts) == 2 and it.args:
                    bind(target.elts[0], None)
                    bind_iter(target.elts[1], it.args[0])
                    return
                k = kind(it)
                # members of a collection of predict() tuples are tuples again
                bind(target, "item" if k == "coll" and isinstance(target, ast.Name) else k)

            def sinks(e):
                for x in ast.walk(e):
                    hit = None
                    if isinstance(x, ast.Subscript) and kind(x.slice) == "item":
                        hit = x
                    elif isinstance(x, ast.Call) and isinstance(x.func, ast.Attribute) and x.func.attr in ("get", "setdefault", "pop", "add", "discard", "remove", "__getitem__", "__contains__") \
                            and x.args and kind(x.args[0]) == "item" and not (x.func.attr in ("remove", "pop") and kind(x.func.value) == "coll"):
                        hit = x
                    elif isinstance(x, ast.Call) and call_name(x) in ("set", "frozenset", "Counter", "dict.fromkeys") and x.args and kind(x.args[0]) == "coll":
                        hit = x
                    elif isinstance(x, ast.Call) and call_name(x) == "dict" and x.args and isinstance(x.args[0], ast.Call) and call_name(x.args[0]) == "zip" and x.args[0].args and kind(x.args[0].args[0]) == "coll":
                        hit = x
                    elif isinstance(x, ast.Call) and call_name(x) == "hash" and x.args and kind(x.args[0]):
                        hit = x
                    elif isinstance(x, ast.Dict) and any(k_ is not None and kind(k_) == "item" for k_ in x.keys):
                        hit = x
                    elif isinstance(x, (ast.DictComp,)) and kind(x.key) == "item":
                        hit = x
                    elif isinstance(x, (ast.SetComp,)) and kind(x.elt) == "item":
                        hit = x
                    elif isinstance(x, ast.Compare) and any(isinstance(o, (ast.In, ast.NotIn)) for o in x.ops) and kind(x.left) == "item" and not any(kind(c_) == "coll" for c_ in x.comparators):
                        hit = x
                    if hit is not None:
                        yield hit

            def comp_scopes(e):
                """bind the loop variables of comprehensions (inner first is not needed: names are unique enough in these small functions)"""
                for x in ast.walk(e):
                    if isinstance(x, (ast.ListComp, ast.SetComp, ast.DictComp, ast.GeneratorExp)):
                        for g in x.generators:
                            bind_iter(g.target, g.iter)

            def visit(stmts):
                nonlocal n_sink
                for st in stmts:
                    if isinstance(st, (ast.FunctionDef, ast.ClassDef)):
                        continue
                    exprs = [st.value] if isinstance(st, (ast.Assign, ast.AugAssign, ast.Expr, ast.Return)) and getattr(st, "value", None) is not None else \
                        [st.test] if isinstance(st, (ast.If, ast.While, ast.Assert)) else [st.iter] if isinstance(st, ast.For) else []
                    if isinstance(st, (ast.Assign, ast.AugAssign)):
                        exprs += list(st.targets if isinstance(st, ast.Assign) else [st.target])
                    for e in exprs:
                        comp_scopes(e)
                        for c_ in [c_ for c_ in ast.walk(e) if isinstance(c_, ast.Call) and isinstance(c_.func, ast.Attribute) and isinstance(c_.func.value, ast.Name) and c_.func.value.id == "self"]:
                            slot = helper_args.setdefault((rel, ".".join(qual.split(".")[:-1]), c_.func.attr), {})
                            for i_, a_ in enumerate(c_.args, start=1):
                                k_ = kind(a_)
                                if k_:
                                    slot[i_] = k_
                        for h in sinks(e):
                            n_sink += 1
                            ctx.ob(rule, rel, qual, h, "an action as offered (possibly a list or a dict) is not used as a dictionary key / set member", False, detail={"use": unparse(h)[:100]})
                    if isinstance(st, ast.Assign):
                        k = kind(st.value)
                        for t in st.targets:
                            if isinstance(t, (ast.Tuple, ast.List)) and isinstance(st.value, (ast.Tuple, ast.List)) and len(t.elts) == len(st.value.elts):
                                for t_, v_ in zip(t.elts, st.value.elts):
                                    bind(t_, kind(v_))
                            else:
                                bind(t, k if not isinstance(t, (ast.Tuple, ast.List)) else ("coll" if k else None))
                    elif isinstance(st, ast.For):
                        bind_iter(st.target, st.iter)
                        visit(st.body)
                        visit(st.orelse)
                    elif isinstance(st, (ast.If, ast.While)):
                        visit(st.body)
                        visit(st.orelse)
                    elif isinstance(st, (ast.With, ast.Try)):
                        visit(st.body)
                        for h_ in getattr(st, "handlers", []):
                            visit(h_.body)
                        visit(getattr(st, "orelse", []))
                        visit(getattr(st, "finalbody", []))
            visit(fn.body)
    ctx.floor(rule, "learner methods that receive actions as offered", n_fn, 12)
    ctx.note(f"{rule}: {n_fn} methods analysed, {n_sink} raw-action hash sites")


def _single_return(fn):
    rets = [r for r in walk_shallow(fn) if isinstance(r, ast.Return) and r.value is not None]
    return rets[0].value if len(rets) == 1 and len([s for s in fn.body if not (isinstance(s, ast.Expr) and isinstance(s.value, ast.Constant))]) == 1 else None


def r1_same_predictor(ctx):
    ctx.rule("C16.R1", "predict and score of every built-in learner delegate to one predictor built from the learner's own _pmf, or are "
                       "the uniform pair, or forward to the wrapped learner")
    n = 0
    for rel in FILES:
        for c in ctx.model.classes:
            if c.rel != rel or "predict" not in c.methods or "score" not in c.methods:
                continue
            n += 1
            pr, sc = _single_return(c.methods["predict"]), _single_return(c.methods["score"])
            qual = c.qual
            if pr is None or sc is None:
                ctx.ob("C16.R1", rel, qual, c.node, "predict and score are single delegating returns", False, stmt=f"{c.name} predict/score shape")
                continue
            kind, ok, detail = "?", False, {"predict": unparse(pr), "score": unparse(sc)}
            if isinstance(pr, ast.Call) and isinstance(sc, ast.Call) and isinstance(pr.func, ast.Attribute) and isinstance(sc.func, ast.Attribute) \
                    and is_self_attr(pr.func.value) and is_self_attr(sc.func.value):
                a1, a2 = pr.func.value.attr, sc.func.value.attr
                if pr.func.attr == "predict" and sc.func.attr == "score":
                    kind = "predictor"
                    ok = a1 == a2 and [unparse(a) for a in pr.args] == ["context", "actions"] and [unparse(a) for a in sc.args] == ["context", "actions", "action"]
                    init = c.methods.get("__init__")
                    st = [x for x in walk_shallow(init) if isinstance(x, ast.Assign) and any(is_self_attr(t, a1) for t in x.targets)] if init else []
                    built = len(st) == 1 and isinstance(st[0].value, ast.Call) and call_name(st[0].value) in ("PMFPredictor", "PMFInfoPredictor") \
                        and st[0].value.args and unparse(st[0].value.args[0]) == "self._pmf" and "_pmf" in c.methods
                    is_wrapper = len(st) == 1 and isinstance(st[0].value, ast.Name)  # forwards to a wrapped learner
                    if is_wrapper:
                        kind = "forwarder"
                    else:
                        ok = ok and built
                    detail["predictor"] = unparse(st[0].value) if st else None
                elif pr.func.attr == "choicew":
                    kind = "uniform"
            if kind == "?" and isinstance(pr, ast.Call) and call_tail(pr) == "choicew":
                kind = "uniform"
            if kind == "uniform":
                ok = [unparse(a) for a in pr.args] == ["actions"] and unparse(sc) == "1 / len(actions)"
            ctx.ob("C16.R1", rel, qual, c.node, f"{c.name}: predict and score describe the same policy ({kind})", ok, detail=detail, stmt=f"{c.name} predict~score")
    ctx.floor("C16.R1", "learners with predict and score", n, 6)
    # Corral: info kwargs key == name of learn's extra parameter
    cr = ctx.model.cls("coba/learners/corral.py", "CorralLearner")
    pmf, learn = cr.methods.get("_pmf"), cr.methods.get("learn")
    keys = []
    for r in walk_shallow(pmf):
        if isinstance(r, ast.Return) and isinstance(r.value, ast.Tuple) and isinstance(r.value.elts[-1], ast.Dict):
            keys = [const_str(k) for k in r.value.elts[-1].keys]
    extra = [a.arg for a in learn.args.args[5:]] + [a.arg for a in learn.args.kwonlyargs]
    ctx.ob("C16.R1", cr.rel, "CorralLearner", learn, "the kwargs Corral returns from predict are exactly the extra parameters of its learn()", keys == extra and bool(keys),
           detail={"predict_kwargs": keys, "learn_extra_params": extra}, stmt="Corral kwargs<->learn")
    base = [x for x in walk_shallow(learn) if isinstance(x, ast.Call) and unparse(x.func) == "learner.learn"]
    for c in base:
        ctx.ob("C16.R1", cr.rel, "CorralLearner.learn", c, "base learners get back the kwargs of their own prediction", any(k.arg is None and unparse(k.value) == "base_info" for k in c.keywords))


def r2_predictors(ctx):
    ctx.rule("C16.R2", "PMFPredictor/PMFInfoPredictor: score indexes, and predict samples, the result of the same self._pmfcall(context, actions)")
    for cname, sc_want, pr_want in (
            ("PMFPredictor", "self._pmfcall(context, actions)[actions.index(action)]", ["self._pmfrng.choicew(actions, self._pmfcall(context, actions))"]),
            ("PMFInfoPredictor", "self._pmfcall(context, actions)[0][actions.index(action)]", ["(*self._pmfrng.choicew(actions, pmf), info)"])):
        c = ctx.model.cls(UTL, cname)
        sc = _single_return(c.methods["score"])
        ctx.ob("C16.R2", UTL, f"{cname}.score", c.methods["score"], "score is the PMF's entry at the action's position", sc is not None and unparse(sc) == sc_want,
               detail={"score": unparse(sc) if sc is not None else None})
        pr = c.methods["predict"]
        if cname == "PMFInfoPredictor":
            st = [x for x in walk_shallow(pr) if isinstance(x, ast.Assign) and isinstance(x.targets[0], ast.Tuple) and len(x.targets[0].elts) == 2]
            if st:
                from ..model import rename_copy
                pr = rename_copy(pr, {unparse(st[0].targets[0].elts[0]): "pmf", unparse(st[0].targets[0].elts[1]): "info"})
        rets = [unparse(r.value) for r in walk_shallow(pr) if isinstance(r, ast.Return)]
        ok = rets == pr_want
        if cname == "PMFInfoPredictor":
            st = [x for x in walk_shallow(pr) if isinstance(x, ast.Assign)]
            ok = ok and len(st) == 1 and unparse(st[0]) == "pmf, info = self._pmfcall(context, actions)"
        ctx.ob("C16.R2", UTL, f"{cname}.predict", pr, "predict draws from the same PMF call and reports the drawn action's PMF entry", ok, detail={"returns": rets})
        calls = [x for m in ("score", "predict") for x in walk_shallow(c.methods[m]) if isinstance(x, ast.Call) and unparse(x.func) == "self._pmfcall"]
        ctx.ob("C16.R2", UTL, cname, c.node, "both methods evaluate the PMF on (context, actions)", len(calls) == 2 and all([unparse(a) for a in x.args] == ["context", "actions"] for x in calls),
               stmt=f"{cname} pmf args")
        init = c.methods["__init__"]
        st = {unparse(x.targets[0]): unparse(x.value) for x in walk_shallow(init) if isinstance(x, ast.Assign)}
        ctx.ob("C16.R2", UTL, f"{cname}.__init__", init, "the predictor keeps the given pmf and a generator seeded with the given seed",
               st.get("self._pmfcall") == "pmf" and st.get("self._pmfrng") == "CobaRandom(seed)", detail=st)


def r3_misguided(ctx):
    ctx.rule("C16.R3", "MisguidedLearner forwards predict and score unchanged and learn with every argument and **kwargs")
    rel = "coba/learners/misguided.py"
    c = ctx.model.cls(rel, "MisguidedLearner")
    pr, sc = _single_return(c.methods["predict"]), _single_return(c.methods["score"])
    ctx.ob("C16.R3", rel, "MisguidedLearner.predict", c.methods["predict"], "predict is the wrapped learner's predict", pr is not None and unparse(pr) == "self._learner.predict(context, actions)")
    ctx.ob("C16.R3", rel, "MisguidedLearner.score", c.methods["score"], "score is the wrapped learner's score", sc is not None and unparse(sc) == "self._learner.score(context, actions, action)")
    ln = c.methods["learn"]
    calls = [x for x in walk_shallow(ln) if isinstance(x, ast.Call) and unparse(x.func) == "self._learner.learn"]
    ok = len(calls) == 1 and len(calls[0].args) == 4 and unparse(calls[0].args[0]) == "context" and unparse(calls[0].args[1]) == "action" and \
        unparse(calls[0].args[3]) == "probability" and "reward" in unparse(calls[0].args[2]) and any(k.arg is None and unparse(k.value) == "kwargs" for k in calls[0].keywords)
    ctx.ob("C16.R3", rel, "MisguidedLearner.learn", calls[0] if calls else ln, "learn forwards context, action, (transformed) reward, probability and **kwargs", ok)
    ok = ln.args.kwarg is not None and ln.args.kwarg.arg == "kwargs"
    ctx.ob("C16.R3", rel, "MisguidedLearner.learn", ln, "learn accepts arbitrary kwargs from the wrapped learner's predictions", ok, stmt="learn(**kwargs)")


def r4_lookup_totality(ctx):
    """a never-seen or disappearing action must not make predict/score raise: every statistic look-up keyed by an offered
    action is total (defaultdict / .get) or sits in the branch where 'offered actions minus known keys' was tested empty."""
    ctx.rule("C16.R4", "bandit learners: every self.<stat>[action] look-up for an offered action is total (defaultdict/.get) or guarded by the "
                       "emptiness of set(actions) - self.<stat>.keys(); statistics of one learner are created together")
    rel = "coba/learners/bandit.py"
    n = 0
    for c in ctx.model.classes:
        if c.rel != rel or "_pmf" not in c.methods:
            continue
        init = c.methods.get("__init__")
        kinds = {}
        for x in walk_shallow(init):
            if isinstance(x, (ast.Assign, ast.AnnAssign)):
                t = x.targets[0] if isinstance(x, ast.Assign) else x.target
                if is_self_attr(t) and x.value is not None:
                    v = unparse(x.value)
                    kinds[t.attr] = "defaultdict" if v.startswith("defaultdict(") else "dict" if v == "{}" else "other"
        plain = {a for a, k in kinds.items() if k == "dict"}
        helpers = {m for m in c.methods if m.startswith("_") and m not in ("__init__", "_pmf")}
        pmf = c.methods["_pmf"]
        # the guard: a local bound to set(actions) - self.<d>.keys()
        guards = {}
        for x in walk_shallow(pmf):
            if isinstance(x, ast.Assign) and isinstance(x.targets[0], ast.Name) and isinstance(x.value, ast.BinOp) and isinstance(x.value.op, ast.Sub) \
                    and unparse(x.value.left) == "set(actions)" and unparse(x.value.right).endswith(".keys()") and is_self_attr(x.value.right.func.value):
                guards[x.targets[0].id] = x.value.right.func.value.attr
        for x in walk_shallow(pmf):
            sites = []
            if isinstance(x, ast.Subscript) and is_self_attr(x.value) and x.value.attr in plain and isinstance(x.ctx, ast.Load):
                sites.append((x, x.value.attr))
            if isinstance(x, ast.Call) and isinstance(x.func, ast.Attribute) and is_self_attr(x.func) and x.func.attr in helpers:
                hf = c.methods[x.func.attr]
                for y in ast.walk(hf):
                    if isinstance(y, ast.Subscript) and is_self_attr(y.value) and y.value.attr in plain and isinstance(y.ctx, ast.Load):
                        sites.append((x, y.value.attr))
                    if isinstance(y, ast.Call) and isinstance(y.func, ast.Attribute) and is_self_attr(y.func) and y.func.attr in helpers:
                        for z in ast.walk(c.methods[y.func.attr]):
                            if isinstance(z, ast.Subscript) and is_self_attr(z.value) and z.value.attr in plain and isinstance(z.ctx, ast.Load):
                                sites.append((x, z.value.attr))
            for node, attr in sites:
                n += 1
                ok = False
                for t, pol in guards_of(enclosing_stmt(node), pmf):
                    if isinstance(t, ast.Name) and t.id in guards and not pol:
                        ok = True
                ctx.ob("C16.R4", rel, f"{c.qual}._pmf", node, f"look-up of self.{attr}[<offered action>] happens only when every offered action is known", ok,
                       detail={"guards": guards}, stmt=f"{c.name}: self.{attr}[...] via " + unparse(node)[:50])
        # keys of the plain dicts are created together in learn (so the guard on one covers the others)
        learn = c.methods.get("learn")
        if plain and learn is not None:
            blocks = {}
            for x in walk_shallow(learn):
                if isinstance(x, ast.Assign) and isinstance(x.targets[0], ast.Subscript) and is_self_attr(x.targets[0].value) and x.targets[0].value.attr in plain:
                    g = tuple((unparse(t), p) for t, p in guards_of(x, learn))
                    blocks.setdefault(g, set()).add(x.targets[0].value.attr)
            creating = [v for g, v in blocks.items() if any("not in" in t and p for t, p in g)]
            ctx.ob("C16.R4", rel, f"{c.qual}.learn", learn, "a new action gets an entry in every statistic at once", bool(creating) and creating[0] == plain,
                   detail={"created_together": sorted(creating[0]) if creating else [], "statistics": sorted(plain)}, stmt=f"{c.name}: statistics created together")
    ctx.floor("C16.R4", "statistic look-ups keyed by offered actions", n, 2)


def r5_corral_brackets(ctx):
    ctx.rule("C16.R5", "Corral's root search walks consecutive pairs of a SORTED bracket list (an unsorted list brackets the wrong root and yields weights outside (0,1))")
    fn = ctx.fn("coba/learners/corral.py", "CorralLearner._log_barrier_omd")
    pairs = [x for x in ast.walk(fn) if isinstance(x, ast.For) and isinstance(x.iter, ast.Call) and call_name(x.iter) == "zip" and len(x.iter.args) == 2
             and isinstance(x.iter.args[0], ast.Subscript) and isinstance(x.iter.args[1], ast.Subscript) and unparse(x.iter.args[0].value) == unparse(x.iter.args[1].value)]
    ctx.floor("C16.R5", "pairwise bracket walks", len(pairs), 1)
    for lp in pairs:
        nm = unparse(lp.iter.args[0].value)
        f = enclosing_function(lp)
        vals = assigned_value(f, nm) if f is not None else []
        ok = bool(vals) and all("sorted(" in unparse(v) for v in vals)
        ctx.ob("C16.R5", "coba/learners/corral.py", "CorralLearner._log_barrier_omd", lp, "the bracket list walked pairwise is sorted", ok, detail={"brackets": [unparse(v)[:120] for v in vals]})
        # f has a pole at every interior bracket end; the sign test therefore probes slightly inside the bracket.  A fixed absolute offset misses a
        # root that lies closer than the offset to a pole (f's slope grows with eta): every bracket is skipped and learn() raises
        probes = [c for c in ast.walk(lp) if isinstance(c, ast.Call) and len(c.args) == 1 and isinstance(c.args[0], ast.BinOp) and isinstance(c.args[0].right, ast.Constant)
                  and isinstance(c.args[0].right.value, float) and isinstance(c.args[0].left, ast.Name) and c.args[0].left.id in {t.id for t in ast.walk(lp.target) if isinstance(t, ast.Name)}]
        ctx.ob("C16.R5", "coba/learners/corral.py", "CorralLearner._log_barrier_omd", probes[0] if probes else lp,
               "the sign test inside a bracket does not rely on a fixed absolute offset from the poles (a root nearer than the offset to a pole would be missed and learn() would raise)",
               not probes, detail={"probes": [unparse(c) for c in probes]}, stmt="bracket probe offset")


def r9_smoothing_sums_to_one(ctx):
    """Corral mixes the updated weights with the uniform distribution: p_bar_i = E(p_i).  With sum(p) == 1 over M base learners the smoothed weights
    sum to E(1) - E(0) + M*E(0) when E is affine in p; that must be 1 identically in gamma and M (exact rational identity test)."""
    import copy
    from ..algebra import identically_zero
    REL = "coba/learners/corral.py"
    ctx.rule("C16.R9", "Corral's smoothed weights p_bar = E(p) still sum to one: E is affine in p and E(1) - E(0) + M*E(0) == 1 identically in gamma and M "
                       "(M = number of base learners; exact rational identity test), for every statement that fills self._p_bars")
    c = ctx.model.cls(REL, "CorralLearner")
    n = 0
    for name, fn in sorted(c.methods.items()):
        for st in [x for x in ast.walk(fn) if isinstance(x, ast.Assign) and any(is_self_attr(t, "_p_bars") for t in x.targets) and isinstance(x.value, ast.ListComp)]:
            comp = st.value
            if unparse(comp.generators[0].iter) not in ("self._ps", "ps") or not isinstance(comp.generators[0].target, ast.Name):
                continue
            n += 1
            P = comp.generators[0].target.id

            class T(ast.NodeTransformer):
                def visit_Attribute(self, node):
                    if is_self_attr(node):
                        return ast.copy_location(ast.Name(id="S_" + node.attr.strip("_"), ctx=ast.Load()), node)
                    return self.generic_visit(node)

                def visit_Call(self, node):
                    if call_name(node) == "len" and len(node.args) == 1 and unparse(node.args[0]) in ("self._base_lrns", "self._ps", "base_learners"):
                        return ast.copy_location(ast.Name(id="M", ctx=ast.Load()), node)
                    return self.generic_visit(node)
            E = T().visit(copy.deepcopy(comp.elt))
            ast.fix_missing_locations(E)
            one, zero, two = ast.Constant(1), ast.Constant(0), ast.Constant(2)
            # affine: E(2) - 2E(1) + E(0) == 0 ; sums to one: E(1) - E(0) + M*E(0) - 1 == 0
            def at(v):
                class Sub(ast.NodeTransformer):
                    def visit_Name(self, node):
                        return v if node.id == P else node
                return Sub().visit(copy.deepcopy(E))
            aff = ast.BinOp(ast.BinOp(at(two), ast.Sub(), ast.BinOp(ast.Constant(2), ast.Mult(), at(one))), ast.Add(), at(zero))
            tot = ast.BinOp(ast.BinOp(ast.BinOp(at(one), ast.Sub(), at(zero)), ast.Add(), ast.BinOp(ast.Name("M", ast.Load()), ast.Mult(), at(zero))), ast.Sub(), ast.Constant(1))
            za, zt = identically_zero(aff), identically_zero(tot)
            ctx.touch(REL, f"CorralLearner.{name}")
            ctx.ob("C16.R9", REL, f"CorralLearner.{name}", st, "the smoothed weights sum to one whenever the weights do", None if (za is None or zt is None) else (za and zt),
                   detail={"E(p)": unparse(comp.elt), "affine": za, "sums to one": zt}, stmt="p_bars sum to one")
    ctx.floor("C16.R9", "statements filling self._p_bars from self._ps", n, 1)
    # gamma itself is 1/T (a mixing weight in [0,1] for T >= 1)
    init = c.methods["__init__"]
    g = [x for x in walk_shallow(init) if isinstance(x, ast.Assign) and any(is_self_attr(t, "_gamma") for t in x.targets)]
    ctx.ob("C16.R9", REL, "CorralLearner.__init__", g[0] if g else init, "the mixing weight gamma is 1/T", len(g) == 1 and unparse(g[0].value) in ("1 / T", "1 / self._T"), stmt="gamma")


def r8_sampler(ctx):
    from . import c05
    ctx.rule("C16.R8", "the action a PMF learner plays is one its policy gives positive probability: CobaRandom.choice (behind choicew / PMFPredictor) returns the first "
                       "item whose cumulative weight strictly exceeds U*tot -- an item of weight 0 is never drawn, not even in the generator state U == 0")
    c05.weighted_choice(ctx, "C16.R8")
    # both samplers (index int(len*U) and the strict cumulative scan) rely on U < 1
    c05.uniform_source(ctx, "C16.R8")


def r6_type_dispatch(ctx):
    from . import typetable
    ctx.rule("C16.R6", "actions of any dense/sparse type are made hashable: make_hashable classifies through the Dense/Sparse ABCs (which cover lists, tuples, "
                       "every mapping, the lazy row views and the hashable wrappers), and the ABC registrations are in place")
    n = typetable.dispatch_uses_abcs(ctx, "C16.R6", "coba/learners/bandit.py", "make_hashable")
    ctx.floor("C16.R6", "dense/sparse type tests in make_hashable", n, 2)
    fn = ctx.fn("coba/learners/bandit.py", "make_hashable")
    table = {}
    for st in walk_shallow(fn):
        if isinstance(st, ast.If) and isinstance(st.test, ast.Call) and call_name(st.test) == "isinstance":
            rets = [r for b in st.body for r in walk_shallow(b) if isinstance(r, ast.Return)] + ([st.body[0]] if isinstance(st.body[0], ast.Return) else [])
            if rets and isinstance(rets[0].value, ast.Call):
                table[unparse(st.test.args[1])] = call_name(rets[0].value)
    ctx.ob("C16.R6", "coba/learners/bandit.py", "make_hashable", fn, "Dense -> HashableDense, Sparse -> HashableSparse", table == {"Dense": "HashableDense", "Sparse": "HashableSparse"},
           detail={"table": table}, stmt="make_hashable table")
    typetable.registrations(ctx, "C16.R6")


def r7_corral_poles(ctx):
    """The root search brackets the solution between consecutive poles of f(l) = sum 1/((1/p)+eta*(loss-l)).  The list of break points must be
    those poles: substituting each break-point expression for l makes the term's denominator vanish identically (exact rational identity test)."""
    from ..algebra import identically_zero
    REL, Q = "coba/learners/corral.py", "CorralLearner._log_barrier_omd"
    ctx.rule("C16.R7", "Corral: the break points of the root search are exactly the poles of f -- the break-point expression substituted for l zeroes the "
                       "denominator of f's term identically (exact identity test over the rationals); f, df and the break points zip (ps, etas, losses) alike")
    fn = ctx.fn(REL, Q)
    lams = {}
    for st in walk_shallow(fn):
        if isinstance(st, ast.Assign) and isinstance(st.value, ast.Lambda) and isinstance(st.targets[0], ast.Name):
            comps = [c for c in ast.walk(st.value.body) if isinstance(c, ast.ListComp)]
            if comps and isinstance(comps[0].elt, ast.BinOp) and isinstance(comps[0].elt.op, ast.Div):
                lams[st.targets[0].id] = (st.value, comps[0])
    ctx.floor("C16.R7", "lambda sums of quotients in _log_barrier_omd", len(lams), 2)
    # f is the one whose numerator is the constant 1
    fs = [(n_, l, c) for n_, (l, c) in lams.items() if isinstance(c.elt.left, ast.Constant) and c.elt.left.value == 1]
    ctx.floor("C16.R7", "f(l) = sum 1/denominator", len(fs), 1)
    fname, flam, fcomp = fs[0]
    L = flam.args.args[0].arg
    D = fcomp.elt.right
    breaks = [st for st in walk_shallow(fn) if isinstance(st, ast.Assign) and isinstance(st.value, ast.ListComp) and len(st.value.generators) == 1
              and unparse(st.value.generators[0].iter) == unparse(fcomp.generators[0].iter) and st.value is not fcomp
              and {x.id for x in ast.walk(st.value.elt) if isinstance(x, ast.Name)} <= {x.id for x in ast.walk(st.value.generators[0].target) if isinstance(x, ast.Name)}]
    ctx.floor("C16.R7", "break-point lists zipped like f", len(breaks), 1)
    for b in breaks:
        same_t = unparse(b.value.generators[0].target) == unparse(fcomp.generators[0].target)
        z = identically_zero(D, {L: b.value.elt}) if same_t else False
        ctx.ob("C16.R7", REL, Q, b, f"substituting the break point for `{L}` zeroes f's denominator `{unparse(D)}` identically", z,
               detail={"break point": unparse(b.value.elt), "same zip targets": same_t}, stmt="break points are the poles of f")
    # the new weights are f's terms evaluated at the root
    tg = {x.id for x in ast.walk(fcomp.generators[0].target) if isinstance(x, ast.Name)}
    rets = []
    for r in walk_shallow(fn):
        if isinstance(r, ast.Return) and r.value is not None and enclosing_function(r) is fn:
            vs = [r.value] if isinstance(r.value, ast.ListComp) else (assigned_value(fn, r.value.id) if isinstance(r.value, ast.Name) else [])
            rets += [(r, v) for v in vs if isinstance(v, ast.ListComp)]
    ctx.floor("C16.R7", "returned weight lists", len(rets), 1)
    for r, c in rets:
        extra = sorted({x.id for x in ast.walk(c.elt) if isinstance(x, ast.Name)} - tg)
        ok = None
        if len(extra) == 1 and unparse(c.generators[0]) == unparse(fcomp.generators[0]):
            diff = ast.BinOp(left=c.elt, op=ast.Sub(), right=fcomp.elt)
            ok = identically_zero(diff, {L: ast.Name(id=extra[0], ctx=ast.Load())})
        ctx.ob("C16.R7", REL, Q, r, "the returned weights are f's terms evaluated at the root found", ok, detail={"weights": unparse(c.elt), "f term": unparse(fcomp.elt)}, stmt="weights are f's terms")
    for n_, (l, c) in lams.items():
        if n_ == fname:
            continue
        den = c.elt.right
        base = den.left if isinstance(den, ast.BinOp) and isinstance(den.op, ast.Pow) else den
        ok = unparse(base) == unparse(D) and unparse(c.generators[0]) == unparse(fcomp.generators[0]) and l.args.args[0].arg == L
        ctx.ob("C16.R7", REL, Q, c, f"`{n_}` has the same denominator base and zip as f", ok, stmt=f"{n_} denominator")


def _reg_dict(tree):
    for st in tree.body:
        if isinstance(st, ast.Expr) and isinstance(st.value, ast.Call) and ast.unparse(st.value) == "Sparse.register(abc.Mapping)":
            st.value.args[0] = ast.Name("dict", ast.Load())
            return
    from ..mutate import TargetMissing
    raise TargetMissing("Sparse.register(abc.Mapping)")


def r11_greedy_set_nonempty(ctx, rule="C16.R11"):
    """the greedy set of a bandit learner is divided by: it is non-empty because the value it is selected by is the maximum OF THE OFFERED actions' values."""
    ctx.rule(rule, "the value that selects the greedy actions is the maximum over the values of the OFFERED actions (the list the selection ranges over), never over learner-wide state: "
                   "when the best action ever seen is not offered the selection would be empty and 1/len(selection) raises ZeroDivisionError")
    rel = "coba/learners/bandit.py"
    n = 0
    for c in ctx.model.classes:
        if c.rel != rel or "_pmf" not in c.methods:
            continue
        pmf = c.methods["_pmf"]
        for comp in [x for x in ast.walk(pmf) if isinstance(x, ast.ListComp)]:
            for t in [t for g in comp.generators for t in g.ifs if isinstance(t, ast.Compare) and len(t.ops) == 1 and isinstance(t.ops[0], ast.Eq)]:
                sides = [t.left, t.comparators[0]]
                mv = [x for x in sides if isinstance(x, ast.Name) and assigned_value(pmf, x.id)]
                other = [x for x in sides if x not in mv]
                if len(mv) != 1 or len(other) != 1:
                    continue
                # the list the selection ranges over: `values[i]` -> values ;  `v` from zip(actions, values) -> values
                V = None
                o = other[0]
                if isinstance(o, ast.Subscript) and isinstance(o.value, ast.Name):
                    V = o.value.id
                elif isinstance(o, ast.Name):
                    for g in comp.generators:
                        if isinstance(g.iter, ast.Call) and call_name(g.iter) == "zip" and isinstance(g.target, ast.Tuple):
                            for a_, t_ in zip(g.iter.args, g.target.elts):
                                if isinstance(t_, ast.Name) and t_.id == o.id and isinstance(a_, ast.Name):
                                    V = a_.id
                if V is None:
                    continue
                n += 1
                ctx.touch(rel, f"{c.name}._pmf")
                defs = assigned_value(pmf, mv[0].id)

                def over_V(e):
                    if isinstance(e, ast.IfExp):
                        return over_V(e.body) and over_V(e.orelse)
                    if isinstance(e, ast.Constant) and e.value is None:
                        return True
                    if isinstance(e, ast.Call) and call_name(e) == "max" and len(e.args) == 1:
                        a = e.args[0]
                        if isinstance(a, ast.Name):
                            return a.id == V
                        if isinstance(a, (ast.GeneratorExp, ast.ListComp)):
                            return unparse(a.generators[0].iter) == V and not any(is_self_attr(y) for y in ast.walk(a))
                    return False
                ok = bool(defs) and all(over_V(d) for d in defs)
                ctx.ob(rule, rel, f"{c.name}._pmf", comp, f"the selecting value `{mv[0].id}` is the maximum over `{V}`, the values of the offered actions", ok, detail={"definitions": [unparse(d)[:80] for d in defs]})
    ctx.floor(rule, "greedy selections in the bandit learners", n, 2)


class _Sign:
    """sign analysis (domain {>=0 or nan, >=1, unknown}) of arithmetic expressions inside one class: names are resolved through their single
    definition in the function, `self.m(...)` through the return expressions of m, count fields and trusted properties through tables that
    are themselves checked structurally."""

    def __init__(self, cls, counts, nonneg_props):
        self.cls = cls
        self.counts = counts          # self fields (or subscripts of them) known to be >= 1 where read
        self.props = nonneg_props     # attribute names known to be >= 0 (or nan)
        self.why = []

    def _defs(self, fn, name):
        return assigned_value(fn, name)

    def ge1(self, e, fn, depth=0):
        if depth > 6:
            return False
        if isinstance(e, ast.Constant) and isinstance(e.value, (int, float)) and not isinstance(e.value, bool):
            return e.value >= 1
        if is_self_attr(e) and e.attr in self.counts:
            return True
        if isinstance(e, ast.Subscript) and is_self_attr(e.value) and e.value.attr in self.counts:
            return True
        if isinstance(e, ast.Name):
            ds = self._defs(fn, e.id)
            return bool(ds) and all(self.ge1(d, fn, depth + 1) for d in ds)
        if isinstance(e, ast.Call) and call_name(e) == "len":
            return False
        if isinstance(e, ast.BinOp) and isinstance(e.op, (ast.Add, ast.Mult)):
            return (self.ge1(e.left, fn, depth + 1) and (self.ge1(e.right, fn, depth + 1) or (isinstance(e.op, ast.Add) and self.nonneg(e.right, fn, depth + 1)))) or \
                   (isinstance(e.op, ast.Add) and self.nonneg(e.left, fn, depth + 1) and self.ge1(e.right, fn, depth + 1))
        return False

    def _callee(self, e, fn):
        """math function name behind a call: math.sqrt / sqrt / local alias `ln = math.log`"""
        f = e.func
        if isinstance(f, ast.Attribute) and isinstance(f.value, ast.Name) and f.value.id == "math":
            return f.attr
        if isinstance(f, ast.Name):
            ds = self._defs(fn, f.id)
            if len(ds) == 1 and isinstance(ds[0], ast.Attribute) and isinstance(ds[0].value, ast.Name) and ds[0].value.id == "math":
                return ds[0].attr
            if f.id in ("sqrt", "log", "exp", "min", "max", "abs", "len", "sum", "int", "float"):
                return f.id
        return None

    def nonneg(self, e, fn, depth=0):
        if depth > 8:
            return False
        if isinstance(e, ast.Constant) and isinstance(e.value, (int, float)):
            return e.value >= 0
        if self.ge1(e, fn, depth + 1):
            return True
        if isinstance(e, ast.Name):
            ds = self._defs(fn, e.id)
            return bool(ds) and all(self.nonneg(d, fn, depth + 1) for d in ds)
        if isinstance(e, ast.Attribute) and not is_self_attr(e) and e.attr in self.props:
            return True
        if isinstance(e, ast.BinOp):
            if isinstance(e.op, (ast.Add, ast.Mult, ast.Div)):
                return self.nonneg(e.left, fn, depth + 1) and self.nonneg(e.right, fn, depth + 1)
            if isinstance(e.op, ast.Pow) and isinstance(e.right, ast.Constant) and isinstance(e.right.value, int) and e.right.value % 2 == 0:
                return True
            return False
        if isinstance(e, ast.Call):
            nm = self._callee(e, fn)
            if nm in ("sqrt", "exp", "abs", "len"):
                return True
            if nm == "log":
                return len(e.args) == 1 and self.ge1(e.args[0], fn, depth + 1)
            if nm == "min":
                return bool(e.args) and all(self.nonneg(a, fn, depth + 1) for a in e.args)
            if nm == "max":
                return any(self.nonneg(a, fn, depth + 1) for a in e.args)
            if isinstance(e.func, ast.Attribute) and is_self_attr(e.func) and e.func.attr in self.cls.methods:
                m = self.cls.methods[e.func.attr]
                rets = [r for r in walk_shallow(m) if isinstance(r, ast.Return) and r.value is not None]
                return bool(rets) and all(self.nonneg(r.value, m, depth + 1) for r in rets)
        return False


def r10_math_domains(ctx):
    ctx.rule("C16.R10", "learning never leaves a learner unable to predict: sign analysis of every math.sqrt / math.log argument on the predict/score path of the "
                        "bandit learners -- sqrt arguments are sums/products/quotients of non-negative terms, log arguments are counts >= 1; the count fields "
                        "are only set to 1 / incremented, and the variance property used is Welford's (a sum of products delta*delta2 >= 0, or nan before two updates)")
    REL = "coba/learners/bandit.py"
    c = ctx.model.cls(REL, "BanditUCBLearner")
    # count fields: every store outside __init__ is `= 1` or `+= 1`
    counts = set()
    for field in ("_t", "_s"):
        sts = []
        for name, m in c.methods.items():
            for st in ast.walk(m):
                tg = st.targets if isinstance(st, ast.Assign) else [st.target] if isinstance(st, (ast.AugAssign, ast.AnnAssign)) else []
                for t in tg:
                    base = t.value if isinstance(t, ast.Subscript) else t
                    if is_self_attr(base, field):
                        sts.append((name, st))
        ok = bool(sts)
        for name, st in sts:
            if name == "__init__":
                continue
            v = unparse(st.value) if st.value is not None else ""
            good = (isinstance(st, ast.Assign) and v == "1") or (isinstance(st, ast.AugAssign) and isinstance(st.op, ast.Add) and v == "1")
            ok = ok and good
        ctx.ob("C16.R10", REL, "BanditUCBLearner.learn", sts[-1][1] if sts else c.node, f"self.{field} is a count: set to 1 or incremented by 1 only", ok, stmt=f"count field {field}")
        if ok:
            counts.add(field)
    # self._t is incremented before the first arm statistics exist (so t >= 1 wherever an observed arm is scored)
    learn = c.methods["learn"]
    inc = [st for st in learn.body if isinstance(st, ast.AugAssign) and is_self_attr(st.target, "_t")]
    first_arm = [st for st in ast.walk(learn) if isinstance(st, ast.Assign) and any(isinstance(t, ast.Subscript) and is_self_attr(t.value, "_m") for t in st.targets)]
    ctx.ob("C16.R10", REL, "BanditUCBLearner.learn", inc[0] if inc else learn, "the round counter is incremented unconditionally before any arm statistic is stored",
           bool(inc) and bool(first_arm) and all(inc[0].lineno < a.lineno for a in first_arm), stmt="t incremented first")
    # Welford variance is non-negative (or nan)
    ST = "coba/statistics.py"
    ov = ctx.model.cls(ST, "OnlineVariance")
    upd = ov.methods["update"]
    # roles: the locals written back to self._count / self._mean / self._M2
    role = {}
    for st in walk_shallow(upd):
        if isinstance(st, ast.Assign) and isinstance(st.targets[0], ast.Tuple) and isinstance(st.value, ast.Tuple) and len(st.targets[0].elts) == len(st.value.elts):
            for t_, v_ in zip(st.targets[0].elts, st.value.elts):
                if is_self_attr(t_) and isinstance(v_, ast.Name):
                    role[t_.attr] = v_.id
        elif isinstance(st, ast.Assign) and is_self_attr(st.targets[0]) and isinstance(st.value, ast.Name):
            role[st.targets[0].attr] = st.value.id
    M2, MEAN, COUNT = role.get("_M2", "M2"), role.get("_mean", "mean"), role.get("_count", "count")
    m2 = [st for st in walk_shallow(upd) if isinstance(st, ast.AugAssign) and isinstance(st.target, ast.Name) and st.target.id == M2]
    okw = len(m2) == 1 and isinstance(m2[0].op, ast.Add) and isinstance(m2[0].value, ast.BinOp) and isinstance(m2[0].value.op, ast.Mult)
    if okw:
        a, b = m2[0].value.left, m2[0].value.right
        da = assigned_value(upd, a.id) if isinstance(a, ast.Name) else []
        db = assigned_value(upd, b.id) if isinstance(b, ast.Name) else []
        okw = len(da) == 1 and len(db) == 1 and {unparse(da[0]), unparse(db[0])} == {f"value - {MEAN}"} and a.id != b.id
    var_st = [st for st in ast.walk(upd) if isinstance(st, ast.Assign) and any(is_self_attr(t, "_variance") for t in st.targets)]
    okv = len(var_st) == 1 and unparse(var_st[0].value) == f"{M2} / ({COUNT} - 1)" and any(unparse(t) in (f"{COUNT} > 1", f"1 < {COUNT}") and pol for t, pol in guards_of(var_st[0], upd))
    ctx.ob("C16.R10", ST, "OnlineVariance.update", m2[0] if m2 else upd, "M2 only grows by (value - old mean)*(value - new mean) >= 0 and the variance is M2/(count-1) for count > 1", okw and okv,
           stmt="welford", detail={"M2": okw, "variance": okv})
    vs = [st for name, m in c.methods.items() for st in ast.walk(m) if isinstance(st, ast.Assign) and any(isinstance(t, ast.Subscript) and is_self_attr(t.value, "_v") for t in st.targets)]
    okt = bool(vs) and all(isinstance(st.value, ast.Call) and call_name(st.value) == "OnlineVariance" for st in vs)
    props = {"variance"} if (okw and okv and okt) else set()
    S = _Sign(c, counts, props)
    n = 0
    for name, m in sorted(c.methods.items()):
        for call in [x for x in walk_shallow(m) if isinstance(x, ast.Call)]:
            nm = S._callee(call, m)
            if nm == "sqrt" and call.args:
                n += 1
                ctx.ob("C16.R10", REL, f"BanditUCBLearner.{name}", call, "the sqrt argument is non-negative (or nan) for every history", S.nonneg(call.args[0], m))
            elif nm == "log" and call.args:
                n += 1
                ctx.ob("C16.R10", REL, f"BanditUCBLearner.{name}", call, "the log argument is a count >= 1", S.ge1(call.args[0], m))
    ctx.floor("C16.R10", "sqrt/log calls in BanditUCBLearner", n, 4)


CONTROLS = [
    ("the protected action copy is keyed only when it was made", "coba/safety.py", M.delete_stmt("SafeLearner.predict", M.text_has("self._prev_actions =")), "C16.R13"),
    ("Corral sums the base weights in a dict keyed by action", "coba/learners/corral.py", M.replace_stmt("CorralLearner._pmf", M.text_has("pmf ="),
        "weight = {}\nfor p_b, b_a in zip(self._p_bars, base_actions): weight[b_a] = weight.get(b_a, 0) + p_b\npmf = [weight.get(a, 0) for a in actions]"), "C16.R12"),
    ("epsilon learner keys its statistics by the raw action", "coba/learners/bandit.py", M.delete_stmt("BanditEpsilonLearner.learn", M.text_has("action = make_hashable(action)")), "C16.R12"),
    ("epsilon-greedy maximises over every action ever seen", "coba/learners/bandit.py", M.replace_expr("BanditEpsilonLearner._pmf", "None if set(values) == {None} else max((v for v in values if v is not None))", "max(self._Q.values())"), "C16.R11"),
    ("ucb variance as mean of squares minus squared mean", "coba/learners/bandit.py", M.replace_expr("BanditUCBLearner._Var_R_UCB", "self._v[action].variance", "self._v[action].variance - self._m[action] ** 2"), "C16.R10"),
    ("uniform draws reach 1.0", "coba/random.py", M.replace_expr("CobaRandom._next_uniform", "s / m", "s / m_1"), "C16.R8"),
    ("uniform mass added per learner without dividing by M", "coba/learners/corral.py", M.replace_expr("CorralLearner.learn", "(1 - self._gamma) * p + self._gamma * 1 / len(self._base_lrns)", "(1 - self._gamma) * p + self._gamma"), "C16.R9"),
    ("sampler bisects to the left", "coba/random.py", M.replace_expr("CobaRandom.choice", "next(compress(seq, map(partial(lt, next(self._randu) * tot), accumulate(weights))))",
                                                                    "seq[bisect_left(list(accumulate(weights)), next(self._randu) * tot)]"), "C16.R8"),
    ("make_hashable tests builtin types", "coba/learners/bandit.py", M.chain(M.replace_expr("make_hashable", "isinstance(item, Dense)", "isinstance(item, (list, tuple))"),
                                                                            M.replace_expr("make_hashable", "isinstance(item, Sparse)", "isinstance(item, dict)")), "C16.R6"),
    ("Sparse registers dict only", "coba/primitives.py", lambda tree: _reg_dict(tree), "C16.R6"),
    ("corral break point sign slip", "coba/learners/corral.py", M.replace_expr("CorralLearner._log_barrier_omd", "(-1 / p - eta * loss) / -eta", "loss - 1 / (p * eta)"), "C16.R7"),
    ("ucb count instead of membership", "coba/learners/bandit.py", M.replace_stmt("BanditUCBLearner._pmf", M.text_has("if never_observed_actions"),
        "if len(self._m) < len(actions):\n    max_actions = never_observed_actions\nelse:\n    values = [self._m[a] + self._Avg_R_UCB(a) for a in actions]\n    max_value = max(values)\n    max_actions = [a for a, v in zip(actions, values) if v == max_value]"), "C16.R4"),
    ("corral unsorted brackets", "coba/learners/corral.py", M.replace_expr("CorralLearner._log_barrier_omd",
        "list(sorted(filter(lambda z: min_loss <= z and z <= max_loss, set(denom_zeros + [min_loss, max_loss]))))",
        "list(filter(lambda z: min_loss <= z and z <= max_loss, set(denom_zeros + [min_loss, max_loss])))"), "C16.R5"),
    ("score through second predictor", "coba/learners/bandit.py", M.chain(
        M.insert_after("BanditUCBLearner.__init__", M.simple_has("self._pred = PMFPredictor"), "self._pred2 = PMFPredictor(self._pmf, seed)"),
        M.replace_expr("BanditUCBLearner.score", "self._pred.score(context, actions, action)", "self._pred2.score(context, actions, action)")), "C16.R1"),
    ("predictor from other pmf", "coba/learners/bandit.py", M.replace_expr("FixedLearner.__init__", "PMFPredictor(self._pmf, seed)", "PMFPredictor(lambda c, A: [1 / len(A)] * len(A), seed)"), "C16.R1"),
    ("score indexes by value", UTL, M.replace_expr("PMFPredictor.score", "actions.index(action)", "0"), "C16.R2"),
    ("misguided drops kwargs", "coba/learners/misguided.py", M.replace_expr("MisguidedLearner.learn",
        "self._learner.learn(context, action, self._shifter + self._scaler * reward, probability, **kwargs)",
        "self._learner.learn(context, action, self._shifter + self._scaler * reward, probability)"), "C16.R3"),
]
