"""C11 -- Scale / Impute (DESIGN.md 5/C11).

Decided: the fitting window and the applied stream are one iterator split once; only `context`
is written; type tests mean what they say; statistic lists are threaded through the fluent API;
the missing-value predicate is the same on the statistic side and the replacement side.
Not decided: the numeric value of any statistic.
"""
import ast

from ..model import walk_shallow, call_name, is_self_attr, dotted_name, parent, ancestors, enclosing_function
from ..util import canon
from ..util import (has_call, find_calls, assigned_value, const_str, unparse, kw, arg_or_kw, enclosing_stmt,
                    guards_of, call_tail, control_ancestors, name_bound, bound_names)
from .. import mutate as M
from . import c04

TECHNIQUE = 'static analysis: iterator provenance of the fitting window (chain(window, it)), keyword -> statistic table agreement, column-alignment rule, statelessness of shared filter objects, cardinality-domain evaluation of degenerate-size shortcuts'

EXPLANATION = ("Structural rules over Scale.filter, Impute.filter and the Environments shortcuts: window = "
               "list(islice(it, using)) and every later traversal is chain(window, it) over the same iterator; every store "
               "into an interaction uses the key 'context'; no isinstance() has a boolean expression as its type argument "
               "(package-wide); loop-carried names in fluent methods are threaded; Impute's statistic filter (is not None) is "
               "the negation of its replacement test (is None) in all container arms.")
EXPLANATION += " R8: Scale/Impute store nothing on the shared filter object; R9: iqr's constant shortcut only for n <= 1."
EXPLANATION += ' R6 also: NaN dropped before fitting, scale computed with the shift that reaches it (reaching definitions), no dunder arithmetic; R10: apply loops skip None / need a statistic in every arm.'

EF = "coba/environments/filters.py"
EC = "coba/environments/core.py"


def run(ctx):
    r1_window(ctx)
    r2_touched(ctx)
    r3_isinstance(ctx)
    r4_threading(ctx)
    r5_missing(ctx)
    r6_statistic_table(ctx)
    r7_alignment(ctx)
    r8_no_fitted_state(ctx)
    r9_degenerate_shortcuts(ctx)
    r10_apply_guards(ctx)
    write_through(ctx, "C11.R11")
    r14_interpolation(ctx)
    r12_first_row_missing(ctx)
    r13_container_capabilities(ctx)


def r1_window(ctx):
    ctx.rule("C11.R1", "the fitting window is list(islice(it, self._using)) and every later traversal of the data is "
                       "chain(window, it) with the same iterator (nothing dropped, duplicated or re-read)")
    for qual in ("Scale.filter", "Impute.filter"):
        fn = ctx.fn(EF, qual)
        wins = []
        for x in walk_shallow(fn):
            if isinstance(x, ast.Assign) and isinstance(x.targets[0], ast.Name) and isinstance(x.value, ast.Call) and call_name(x.value) == "list" \
                    and x.value.args and isinstance(x.value.args[0], ast.Call) and call_name(x.value.args[0]) == "islice":
                sl = x.value.args[0]
                if len(sl.args) == 2 and unparse(sl.args[1]) == "self._using" and isinstance(sl.args[0], ast.Name):
                    wins.append((x.targets[0].id, sl.args[0].id, x))
        ctx.floor("C11.R1", f"window split in {qual}", len(wins), 1)
        W, IT, wst = wins[0]
        itv = [v for v in assigned_value(fn, IT)]
        ok_it = bool(itv) and all(call_name(v) == "iter" and len(v.args) == 1 for v in itv if isinstance(v, ast.Call)) and all(isinstance(v, ast.Call) for v in itv)
        ctx.ob("C11.R1", EF, qual, wst, "the window is cut from an explicit iterator (so the remainder continues where the window ended)", ok_it,
               detail={"iterator": [unparse(v) for v in itv]})
        aliases = {IT}
        for x in walk_shallow(fn):
            if isinstance(x, ast.Assign) and isinstance(x.value, ast.Name) and x.value.id in aliases and isinstance(x.targets[0], ast.Name) and x.lineno > wst.lineno:
                aliases.add(x.targets[0].id)
        n = 0
        for x in walk_shallow(fn):
            if getattr(x, "lineno", 0) <= wst.lineno:
                continue
            exprs = []
            if isinstance(x, ast.For):
                exprs.append(x.iter)
            if isinstance(x, ast.YieldFrom):
                exprs.append(x.value)
            for e in exprs:
                names = {nn.id for nn in ast.walk(e) if isinstance(nn, ast.Name)}
                if not (names & (aliases | {W})):
                    continue
                if names & {W} and not (names & aliases) and isinstance(x, ast.For) and unparse(e) == W:
                    # iterating the window alone is how statistics are gathered -- allowed when nothing is yielded from it
                    ys = [y for y in walk_shallow(x) if isinstance(y, (ast.Yield, ast.YieldFrom))]
                    n += 1
                    ctx.ob("C11.R1", EF, qual, x, "a loop over the window alone only gathers statistics (yields nothing)", not ys)
                    continue
                n += 1
                ok = isinstance(e, ast.Call) and call_name(e) == "chain" and len(e.args) == 2 and unparse(e.args[0]) == W and unparse(e.args[1]) in aliases
                ctx.ob("C11.R1", EF, qual, e, "data is traversed as chain(window, rest of the same iterator)", ok, detail={"window": W, "iterator": sorted(aliases)})
        ctx.floor("C11.R1", f"traversals after the split in {qual}", n, 1)
        # the statistics are computed from the window
        stat_src = [x for x in walk_shallow(fn) if isinstance(x, ast.Assign) and x.lineno > wst.lineno and W in {nn.id for nn in ast.walk(x.value) if isinstance(nn, ast.Name)}]
        ctx.ob("C11.R1", EF, qual, stat_src[0] if stat_src else fn, "statistics are gathered from the window", bool(stat_src) or qual.startswith("Impute"), stmt="statistics source", trivial=True)


def r2_touched(ctx):
    ctx.rule("C11.R2", "every store into an interaction in Scale.filter / Impute.filter has the key 'context'")
    n = 0
    for qual in ("Scale.filter", "Impute.filter"):
        fn = ctx.fn(EF, qual)
        fr = c04.Fresh(fn, [a.arg for a in fn.args.args if a.arg != "self"])
        done = set()
        for node in fr.cfg.nodes:
            if node.kind != "stmt" or node.ast is None or node.id not in fr.IN or id(node.ast) in done:
                continue
            done.add(id(node.ast))
            st = fr.IN[node.id]
            for name, x, how, keys in c04.mutation_sites_of(node.ast):
                kl = st.get(name)
                if kl is None or kl[0] != "obj":
                    continue
                # is `name` an interaction (element of the stream)?  its binding came from the stream or a copy of it
                if how == "subscript-store" and keys and name in _interaction_names(fn):
                    n += 1
                    ok = const_str(keys[0]) == "context"
                    ctx.ob("C11.R2", EF, qual, x, "only the context of an interaction is written", ok, detail={"key": unparse(keys[0])})
    ctx.floor("C11.R2", "stores into interactions", n, 4)


def _interaction_names(fn):
    out = set()
    for x in walk_shallow(fn):
        if isinstance(x, ast.For) and isinstance(x.target, ast.Name):
            out.add(x.target.id)
        if isinstance(x, ast.Assign) and isinstance(x.targets[0], ast.Name) and isinstance(x.value, ast.Call) and call_tail(x.value) == "copy" \
                and isinstance(x.value.func, ast.Attribute) and isinstance(x.value.func.value, ast.Name) and x.value.func.value.id in out:
            out.add(x.targets[0].id)
    return out


def r3_isinstance(ctx):
    ctx.rule("C11.R3", "the type argument of isinstance() is never a boolean/comparison expression (it would silently evaluate to its first operand)")
    n = 0
    rels = sorted(ctx.model.modules) if ctx.thorough else [EF, EC, "coba/pipes/filters.py", "coba/pipes/rows.py"]
    for rel in rels:
        for (r, qual), fn in sorted(ctx.model.functions.items()):
            if r != rel:
                continue
            for c in walk_shallow(fn):
                if isinstance(c, ast.Call) and call_name(c) == "isinstance" and len(c.args) == 2 and enclosing_function(c) is fn:
                    n += 1
                    t = c.args[1]
                    bad = isinstance(t, (ast.BoolOp, ast.Compare)) or (isinstance(t, ast.Tuple) and any(isinstance(e, (ast.BoolOp, ast.Compare)) for e in t.elts))
                    ctx.ob("C11.R3", rel, qual, c, "isinstance type argument is a type or tuple of types", not bad, trivial=not bad)
    ctx.floor("C11.R3", "isinstance calls examined", n, 40)


def r4_threading(ctx):
    ctx.rule("C11.R4", "in the fluent Environments methods a name re-assigned inside a loop and used after it is read by the "
                       "expression that re-assigns it (otherwise only the last iteration has an effect)")
    cls = ctx.model.cls(EC, "Environments")
    n = 0
    for mname, fn in sorted(cls.methods.items()):
        for lp in walk_shallow(fn):
            if not isinstance(lp, ast.For):
                continue
            for x in walk_shallow(lp):
                if isinstance(x, ast.Assign) and len(x.targets) == 1 and isinstance(x.targets[0], ast.Name) and enclosing_function(x) is fn:
                    nm = x.targets[0].id
                    # used after the loop?
                    after = [y for y in walk_shallow(fn) if isinstance(y, ast.Name) and y.id == nm and isinstance(y.ctx, ast.Load) and y.lineno > lp.end_lineno]
                    if not after:
                        continue
                    if nm in {t.id for t in ast.walk(lp.target) if isinstance(t, ast.Name)}:
                        continue
                    # results of calling .filter(...) (a new Environments object) are the accumulators of interest
                    if not (isinstance(x.value, ast.Call) and call_tail(x.value) in ("filter", "append", "extend") or nm == "self"):
                        continue
                    n += 1
                    reads = nm in {y.id for y in ast.walk(x.value) if isinstance(y, ast.Name)}
                    ctx.ob("C11.R4", EC, f"Environments.{mname}", x, f"loop-carried `{nm}` is threaded through every iteration", reads)
    ctx.floor("C11.R4", "loop-carried accumulators in Environments", n, 2)


def _missing_helpers(ctx):
    """module-level predicates of filters.py that say 'missing' = None or NaN: one parameter p, one return `p is None or p != p`"""
    out = set()
    for st in ctx.model.modules[EF].tree.body:
        if isinstance(st, ast.FunctionDef) and len(st.args.args) == 1:
            P = st.args.args[0].arg
            rets = [r.value for r in walk_shallow(st) if isinstance(r, ast.Return) and r.value is not None]
            if len(rets) == 1 and isinstance(rets[0], ast.BoolOp) and isinstance(rets[0].op, ast.Or) and {canon(unparse(v)) for v in rets[0].values} == {canon(f"{P} is None"), canon(f"{P} != {P}")}:
                out.add(st.name)
    return out


def _miss_kind(test, helpers):
    """which notion of 'missing' a test uses: 'none' (`x is None`), the name of a None-or-NaN helper (`helper(x)`), or None"""
    if isinstance(test, ast.BoolOp) and isinstance(test.op, ast.And):
        test = test.values[0]
    if isinstance(test, ast.Compare) and len(test.ops) == 1 and isinstance(test.ops[0], ast.Is) and isinstance(test.comparators[0], ast.Constant) and test.comparators[0].value is None:
        return "none"
    if isinstance(test, ast.Call) and call_name(test) in helpers and len(test.args) == 1:
        return call_name(test)
    return None


def r5_missing(ctx):
    ctx.rule("C11.R5", "Impute: the statistic ignores exactly the values (`is not None`) that the apply loop replaces (`is None`), in "
                       "the dense, sparse and scalar arms")
    gi = ctx.fn(EF, "Impute._get_imputation")
    comps = [x for x in walk_shallow(gi) if isinstance(x, ast.ListComp)]
    helpers = _missing_helpers(ctx)
    kinds = set()
    ok = False
    if len(comps) == 1 and len(comps[0].generators[0].ifs) == 1:
        t_ = comps[0].generators[0].ifs[0]
        tv = unparse(comps[0].generators[0].target)
        if unparse(t_) == f"{tv} is not None":
            ok, _k = True, kinds.add("none")
        elif isinstance(t_, ast.UnaryOp) and isinstance(t_.op, ast.Not) and _miss_kind(t_.operand, helpers) and unparse(t_.operand.args[0]) == tv:
            ok, _k = True, kinds.add(_miss_kind(t_.operand, helpers))
    ctx.ob("C11.R5", EF, "Impute._get_imputation", comps[0] if comps else gi, "the statistic is computed over the values that are not missing (not None; not NaN where the None-or-NaN predicate is used)", ok)
    fn = ctx.fn(EF, "Impute.filter")
    loops = [x for x in walk_shallow(fn) if isinstance(x, ast.For) and isinstance(x.iter, ast.Call) and call_name(x.iter) == "chain"]
    ctx.floor("C11.R5", "apply loop in Impute.filter", len(loops), 1)
    lp = loops[0]
    IMPS = set(bound_names(fn, lambda v: has_call(v, "_get_imputation") or (isinstance(v, ast.Dict) and not v.keys)))
    arms = _chain(lp)
    ctx.floor("C11.R5", "container arms of the apply loop", len(arms), 3)
    for k, node in enumerate(arms):
        arm = ("dense", "sparse", "scalar")[k] if k < 3 else f"arm{k}"
        stores = [x for st in node.body for x in walk_shallow(st) if isinstance(x, ast.Assign) and isinstance(x.targets[0], ast.Subscript)
                  and ({n.id for n in ast.walk(x.value) if isinstance(n, ast.Name)} & IMPS)]
        okk = bool(stores)
        for s_ in stores:
            gs = [t for t, p in guards_of(s_, node) if p]
            ks = {_miss_kind(g, helpers) for g in gs} - {None}
            kinds |= ks
            okk = okk and bool(ks)
        ctx.ob("C11.R5", EF, "Impute.filter", node, f"{arm}: a value is replaced only when it is missing", okk, stmt=f"replace guard {arm}")
        flags = [x for st in node.body for x in walk_shallow(st) if isinstance(x, ast.Assign) and isinstance(x.targets[0], ast.Subscript) and unparse(x.value) == "1"]
        okf = True
        for f in flags:
            gs = [t for t, p in guards_of(f, node) if p]
            ks = {_miss_kind(g, helpers) for g in gs} - {None}
            kinds |= ks
            okf = okf and bool(ks)
        ctx.ob("C11.R5", EF, "Impute.filter", node, f"{arm}: the missingness indicator is raised only for replaced values", okf, stmt=f"indicator guard {arm}")
    # whether a feature gets an indicator column is decided with the same notion of missing: any(map(<helper>, col)) / any([c is None for c in col])
    for a_ in [c for c in ast.walk(fn) if isinstance(c, ast.Call) and call_name(c) == "any" and len(c.args) == 1]:
        x = a_.args[0]
        if isinstance(x, ast.Call) and call_name(x) == "map" and len(x.args) == 2 and isinstance(x.args[0], ast.Name):
            kinds.add(x.args[0].id if x.args[0].id in helpers else f"?{x.args[0].id}")
        elif isinstance(x, (ast.ListComp, ast.GeneratorExp)):
            kinds.add(_miss_kind(x.elt, helpers) or f"?{unparse(x.elt)}")
    ctx.ob("C11.R5", EF, "Impute.filter", fn, "one notion of 'missing' at every site of Impute: the statistic, the indicator decision, the replacement and the raised indicator all use the same test "
           "(a NaN skipped by one and kept by another poisons the statistic or is flagged without being replaced)", len(kinds) == 1, detail={"tests": sorted(map(str, kinds))}, stmt="one missing predicate")


def r6_statistic_table(ctx):
    ctx.rule("C11.R6", "keyword -> statistic table: each documented shift/scale/impute keyword selects the documented stdlib statistic of the window's values, "
                       "called with exactly that one argument")
    shift = ctx.fn(EF, "Scale._shift_value")
    want_shift = {"min": "-min(values)", "mean": "-fmean(values)", "median": "-median(values)"}
    got = {}
    for x in walk_shallow(shift):
        if isinstance(x, ast.If):
            rets = [unparse(r.value) for st in x.body for r in walk_shallow(st) if isinstance(r, ast.Return)]
            for c in ast.walk(x.test):
                if isinstance(c, ast.Compare) and isinstance(c.ops[0], ast.Eq) and const_str(c.comparators[0]) and rets:
                    got[const_str(c.comparators[0])] = rets[0]
    ok = all(got.get(k) == v for k, v in want_shift.items()) and got.get("med", "-median(values)") == "-median(values)"
    ctx.ob("C11.R6", EF, "Scale._shift_value", shift, "shift keywords map to -min / -fmean / -median of the values", ok, detail={"table": got}, stmt="shift table")
    sc = ctx.fn(EF, "Scale._scale_value")
    want_scale = {"minmax": "max(values) - min(values)", "std": "stdev(values)", "iqr": "iqr(values)", "maxabs": "max((abs(v + shift) for v in values))"}
    got = {}
    for x in walk_shallow(sc):
        if isinstance(x, ast.If) and isinstance(x.test, ast.Compare) and const_str(x.test.comparators[0]):
            # `E if len(values) > 1 else 0` (the domain guard of a partial statistic, judged by C11.R9) counts as E
            den = [unparse(a.value.body if isinstance(a.value, ast.IfExp) and unparse(a.value.orelse) == "0" and "len(values)" in unparse(a.value.test) else a.value)
                   for a in x.body if isinstance(a, ast.Assign) and "values" in unparse(a.value)]
            if den:
                got[const_str(x.test.comparators[0])] = den[0]
    from ..util import alpha
    got_n = {k: alpha(v) for k, v in got.items()}        # comprehension variables compared up to renaming
    want_n = {k: alpha(v) for k, v in want_scale.items()}
    if got_n.get("maxabs") in (alpha("max((abs(shift + v) for v in values))"), alpha("max(map(lambda v: abs(v + shift), values))")):
        got_n["maxabs"] = want_n["maxabs"]
    ctx.ob("C11.R6", EF, "Scale._scale_value", sc, "scale keywords map to max-min / stdev / iqr / max|x+shift| of the values (one argument each)", got_n == want_n, detail={"table": got}, stmt="scale table")
    # the shifted value is formed with the + operator: a bound dunder (shift.__add__) does not coerce, (0).__add__(1.5) is NotImplemented
    dunders = [x for x in ast.walk(sc) if isinstance(x, ast.Attribute) and x.attr in ("__add__", "__radd__", "__sub__", "__mul__", "__truediv__")]
    ctx.ob("C11.R6", EF, "Scale._scale_value", dunders[0] if dunders else sc, "arithmetic on the window's values uses operators, not bound dunder methods (no numeric coercion: int shift + float value fails)",
           not dunders, stmt="no dunder arithmetic")
    rets = [r.value for r in walk_shallow(sc) if isinstance(r, ast.Return)]
    okq = len(rets) == 1 and isinstance(rets[0], ast.IfExp) and isinstance(rets[0].orelse, ast.BinOp) and isinstance(rets[0].orelse.op, ast.Div) and \
        isinstance(rets[0].test, ast.Compare) and unparse(rets[0].test.left) == unparse(rets[0].orelse.right) and unparse(rets[0].body) == unparse(rets[0].orelse.left)
    ctx.ob("C11.R6", EF, "Scale._scale_value", sc, "the scale factor is numerator/denominator, 'constant column' guarded", okq, stmt="scale quotient")
    gi = ctx.fn(EF, "Impute._get_imputation")
    got = {}
    for x in walk_shallow(gi):
        if isinstance(x, ast.If) and isinstance(x.test, ast.Compare) and const_str(x.test.comparators[0]):
            rets = [unparse(r.value) for st in x.body for r in walk_shallow(st) if isinstance(r, ast.Return)]
            if rets:
                got[const_str(x.test.comparators[0])] = rets[0]
    want = {"mean": "sum(values) / len(values)", "median": "median(values)", "mode": "mode(values)"}
    ctx.ob("C11.R6", EF, "Impute._get_imputation", gi, "impute keywords map to mean / median / mode of the non-missing values", got == want, detail={"table": got}, stmt="impute table")
    gs = ctx.fn(EF, "Scale._get_shift_and_scale")
    SH = name_bound(gs, lambda v: unparse(v) == "self._shift_value(values)", "shift")
    SC = name_bound(gs, lambda v: unparse(v) == f"self._scale_value(values, {SH})", "scale")
    def conds(x):
        out = []
        for i in x.value.generators[0].ifs:
            out += [unparse(v) for v in (i.values if isinstance(i, ast.BoolOp) and isinstance(i.op, ast.And) else [i])]
        return sorted(out)
    flt = [x for x in walk_shallow(gs) if isinstance(x, ast.Assign) and unparse(x.targets[0]) == "values" and isinstance(x.value, ast.ListComp)]
    V_ = unparse(flt[0].value.generators[0].target) if flt else "v"
    ok = bool(assigned_value(gs, SH)) and bool(assigned_value(gs, SC)) and len(flt) == 1 and f"{V_} is not None" in conds(flt[0])
    # NaN is a missing value too: it is dropped before fitting (nan != nan), otherwise min/max/sorted-based statistics are poisoned or mis-ordered
    nan_ok = len(flt) == 1 and any(c in conds(flt[0]) for c in (f"{V_} == {V_}", f"not isnan({V_})", f"not math.isnan({V_})"))
    ctx.ob("C11.R6", EF, "Scale._get_shift_and_scale", flt[0] if flt else gs, "NaN is dropped together with None before the statistics are fitted", nan_ok,
           detail={"filter": conds(flt[0]) if flt else None}, stmt="fit ignores NaN")
    ctx.ob("C11.R6", EF, "Scale._get_shift_and_scale", gs, "shift and scale are computed from the same non-missing values, scale knowing the shift", ok, stmt="shift then scale")
    # every scale computation is handed the shift computed just before it from the same values (reaching definitions)
    from ..cfg import CFG
    from ..dataflow import reaching_defs
    g = CFG(gs)
    rd = reaching_defs(g, [a.arg for a in gs.args.args])
    k = 0
    for nd in g.nodes:
        if nd.kind != "stmt" or nd.ast is None or nd.id not in rd:
            continue
        for c in [c for c in walk_shallow(nd.ast) if isinstance(c, ast.Call) and unparse(c.func) == "self._scale_value" and len(c.args) == 2]:
            if nan_ok and any(pol and isinstance(t, ast.Call) and call_name(t) in ("isnan", "math.isnan") for t, pol in guards_of(nd.ast, gs)):
                continue  # the window is NaN-free (checked above), so a branch entered only when the shift statistic is NaN is dead code: nothing in it is an obligation
            k += 1
            if not isinstance(c.args[1], ast.Name):
                ctx.ob("C11.R6", EF, "Scale._get_shift_and_scale", c, "the scale is computed with the shift of the same values (the only definition of the shift reaching the call)", False,
                       detail={"shift argument": unparse(c.args[1])})
                continue
            V, S = unparse(c.args[0]), c.args[1].id
            defs = rd[nd.id].get(S, frozenset())
            vals = [g.nodes[d].ast for d in defs if isinstance(d, int) and d >= 0 and g.nodes[d].ast is not None]
            okc = len(vals) == 1 and isinstance(vals[0], ast.Assign) and unparse(vals[0].value) == f"self._shift_value({V})"
            ctx.ob("C11.R6", EF, "Scale._get_shift_and_scale", c, "the scale is computed with the shift of the same values (the only definition of the shift reaching the call)", okc,
                   detail={"values": V, "shift definitions reaching": [unparse(v)[:80] for v in vals]})
    ctx.floor("C11.R6", "scale computations in _get_shift_and_scale", k, 1)


def r8_no_fitted_state(ctx):
    ctx.rule("C11.R8", "Scale and Impute keep nothing fitted on the filter object (one instance is shared by all environments of Environments.scale/"
                       "impute): filter() and its helpers store to no self attribute, pure `+=` accumulators excepted; the statistics handed to the apply "
                       "loop are computed in the same call from the window")
    n = 0
    for cname in ("Scale", "Impute"):
        c = ctx.model.cls(EF, cname)
        for name, fn in sorted(c.methods.items()):
            if name in ("__init__", "params"):
                continue
            ctx.touch(EF, f"{cname}.{name}")
            n += 1
            from ..util import self_state_stores
            stores = self_state_stores(fn, c.methods.values())
            ctx.ob("C11.R8", EF, f"{cname}.{name}", fn, "the method stores nothing on the (shared) filter object", not stores, detail={"stores": stores}, stmt=f"{cname}.{name} stateless")
    ctx.floor("C11.R8", "Scale/Impute read-path methods", n, 5)


def r9_degenerate_shortcuts(ctx):
    """iqr() short-cuts tiny samples to 0.  The inter-quartile range is identically 0 only for n <= 1 values, so the shortcut may be taken for
    no larger n.  The guard is evaluated in the cardinality domain (values abstracted to n opaque elements)."""
    from ..cardinality import CardEval, Elems, Unmodelled
    ST = "coba/statistics.py"
    ctx.rule("C11.R9", "statistics.iqr: the constant-0 shortcut is taken for sample sizes n <= 1 only (guard evaluated for n = 0..8 in the cardinality domain); "
                       "the general path is p75 - p25 of the sorted values")
    fn = ctx.fn(ST, "iqr")
    P = fn.args.args[0].arg
    shortcuts = [x for x in fn.body if isinstance(x, ast.If) and len(x.body) == 1 and isinstance(x.body[0], ast.Return) and isinstance(x.body[0].value, ast.Constant)]
    for sc in shortcuts:
        taken, unm = [], None
        for n in range(0, 9):
            try:
                if CardEval({P: Elems(n)}).test(sc.test, {P: Elems(n)}):
                    taken.append(n)
            except Unmodelled as e:
                unm = str(e)
        ctx.ob("C11.R9", ST, "iqr", sc, "the constant shortcut is taken only for n <= 1 values", None if unm else all(n <= 1 for n in taken),
               detail={"taken_for_n": taken, "unmodelled": unm}, stmt="iqr shortcut")
    rets = [r for r in fn.body if isinstance(r, ast.Return)]
    ok = len(rets) == 1 and isinstance(rets[0].value, ast.BinOp) and isinstance(rets[0].value.op, ast.Sub)
    pc = [c for c in walk_shallow(fn) if isinstance(c, ast.Call) and call_name(c) == "percentile"]
    okp = len(pc) == 1 and len(pc[0].args) >= 2 and unparse(pc[0].args[1]) in ("[0.25, 0.75]", "(0.25, 0.75)")
    if ok and okp:
        tg = parent(pc[0]).targets[0] if isinstance(parent(pc[0]), ast.Assign) else None
        ok = isinstance(tg, ast.Tuple) and [unparse(e) for e in tg.elts] == [unparse(rets[0].value.right), unparse(rets[0].value.left)]
    ctx.ob("C11.R9", ST, "iqr", rets[0] if rets else fn, "iqr is percentile 0.75 minus percentile 0.25", bool(ok and okp), stmt="iqr general path")
    # statistics.stdev is a partial function (needs two values): its error is a ValueError, which Scale's fit reads as "leave the feature alone"
    sv = ctx.fn(EF, "Scale._scale_value")
    from ..util import all_guards
    n_sd = 0
    for c in [c for c in ast.walk(sv) if isinstance(c, ast.Call) and (call_name(c) or "").split(".")[-1] in ("stdev", "variance")]:
        n_sd += 1
        A = unparse(c.args[0]) if c.args else "?"
        ok_g = any(pol and canon(unparse(t)) in (canon(f"len({A}) > 1"), canon(f"len({A}) >= 2")) for t, pol in all_guards(c, sv))
        ctx.ob("C11.R9", EF, "Scale._scale_value", c, "the sample deviation is taken of two or more values only (a single fitted value counts as zero deviation: shifted, not scaled)", ok_g)
    ctx.floor("C11.R9", "sample deviation calls in Scale._scale_value", n_sd, 1)


def r10_apply_guards(ctx):
    ctx.rule("C11.R10", "dense, sparse and scalar contexts are treated alike when the statistics are applied: Scale re-scales a value only if it is not None in every arm; "
                        "Impute replaces a missing value only where it has a statistic for the feature (`k in imputations`) in the dense and in the sparse arm")
    sf = ctx.fn(EF, "Scale.filter")
    n = 0
    from ..util import all_guards
    for st in [x for x in ast.walk(sf) if isinstance(x, ast.Assign) and isinstance(x.value, ast.BinOp) and isinstance(x.value.op, ast.Mult) and "shift" in unparse(x.value) and "scale" in unparse(x.value)]:
        n += 1
        val = x_ = st.value.left.left if isinstance(st.value.left, ast.BinOp) else None
        subj = unparse(val) if val is not None else None
        ok = subj is not None and any(pol and unparse(t) == f"{subj} is not None" for t, pol in all_guards(st, sf))
        ctx.ob("C11.R10", EF, "Scale.filter", st, "the value is re-scaled only if it is not None", ok, detail={"value": subj})
    ctx.floor("C11.R10", "apply statements (x + shift) * scale in Scale.filter", n, 3)
    imf = ctx.fn(EF, "Impute.filter")
    m = 0
    # roles: the per-interaction context (bound to <interaction>['context']) and the statistics table (a dict filled from self._get_imputation)
    ctxs = {t.id for x in ast.walk(imf) if isinstance(x, ast.Assign) and isinstance(x.value, ast.Subscript) and const_str(x.value.slice) == "context" for t in x.targets if isinstance(t, ast.Name)}
    one = {t.id for x in ast.walk(imf) if isinstance(x, ast.Assign) and isinstance(x.value, ast.Call) and call_tail(x.value) == "_get_imputation" for t in x.targets if isinstance(t, ast.Name)}
    tabs = {x.targets[0].value.id for x in ast.walk(imf) if isinstance(x, ast.Assign) and isinstance(x.targets[0], ast.Subscript) and isinstance(x.targets[0].value, ast.Name)
            and isinstance(x.value, ast.Name) and x.value.id in one}
    for st in [x for x in ast.walk(imf) if isinstance(x, ast.Assign) and isinstance(x.value, ast.Subscript) and isinstance(x.value.value, ast.Name) and x.value.value.id in tabs
               and isinstance(x.targets[0], ast.Subscript) and isinstance(x.targets[0].value, ast.Name) and x.targets[0].value.id in ctxs]:
        m += 1
        k = unparse(st.value.slice)
        T_ = st.value.value.id
        ok = any(pol and unparse(t) == f"{k} in {T_}" for t, pol in all_guards(st, imf)) and any(pol and _miss_kind(t, _missing_helpers(ctx)) for t, pol in all_guards(st, imf))
        ctx.ob("C11.R10", EF, "Impute.filter", st, "a value is replaced only if it is missing and a statistic exists for its feature", ok, detail={"key": k})
    ctx.floor("C11.R10", "replacement statements in Impute.filter", m, 2)


def r7_alignment(ctx):
    ctx.rule("C11.R7", "statistics stay aligned with their columns: the columns handed to the statistic routine are selected by the same key list, in the same "
                       "order, that the results are zipped/compressed with")
    fn = ctx.fn(EF, "Impute.filter")
    from ..util import name_bound
    peek = [x for x in walk_shallow(fn) if isinstance(x, ast.Assign) and isinstance(x.targets[0], ast.Tuple) and has_call(x.value, "peek_first")]
    FIRST = unparse(peek[0].targets[0].elts[0]) if peek else "first"
    IMPC = bound_names(fn, lambda v: isinstance(v, ast.ListComp) and f"enumerate({FIRST}['context'])" in unparse(v))
    IMP = IMPC[0] if IMPC else "imputable_cols"
    UNI = None
    for x in walk_shallow(fn):
        if isinstance(x, ast.Assign) and isinstance(x.targets[0], ast.Name) and f"itemgetter(*{IMP})" in unparse(x.value):
            UNI = x.targets[0].id
    loops = [x for x in walk_shallow(fn) if isinstance(x, ast.For) and UNI is not None and UNI in {n.id for n in ast.walk(x.iter) if isinstance(n, ast.Name)} and has_call(x, "_get_imputation")
             and not (isinstance(x.iter, ast.Call) and call_tail(x.iter) == "items")]  # the sparse arm iterates its own key->values dict
    ctx.floor("C11.R7", "dense statistic loops in Impute.filter", len(loops), 1)
    for lp in loops:
        ok = unparse(lp.iter) == f"zip({IMP}, {UNI})" and isinstance(lp.target, ast.Tuple)
        ctx.ob("C11.R7", EF, "Impute.filter", lp, "dense imputation statistics are keyed by the real column index of the column they were computed from", ok,
               detail={"iterates": unparse(lp.iter), "columns_selected_by": f"itemgetter(*{IMP})"})
        if ok:
            key = unparse(lp.target.elts[0])
            st = [x for x in walk_shallow(lp) if isinstance(x, ast.Assign) and isinstance(x.targets[0], ast.Subscript) and unparse(x.targets[0].slice) == key]
            ctx.ob("C11.R7", EF, "Impute.filter", lp, "results are stored under that column index", bool(st), stmt="store by column index")
    sf = ctx.fn(EF, "Scale.filter")
    src = unparse(sf)
    PK = name_bound(sf, lambda v: isinstance(v, ast.Constant) and v.value is None, "potential_keys")
    SV = (bound_names(sf, lambda v: "map(self._get_shift_and_scale" in unparse(v)) or ["scaling_vals"])[0]
    SK = name_bound(sf, lambda v: isinstance(v, ast.Call) and call_name(v) == "compress" and unparse(v.args[0]) == PK, "scaling_keys")
    ok = f"{SK} = compress({PK}, {SV})" in src and f"{SV} = compress({SV}, {SV})" in src and src.index(f"{SK} = compress({PK}, {SV})") < src.index(f"{SV} = compress({SV}, {SV})")
    ctx.ob("C11.R7", EF, "Scale.filter", sf, "keys and (shift,scale) pairs are filtered by the same selector, keys first (before the selector is overwritten)", ok, stmt="compress keys and values alike")
    COLS = (bound_names(sf, lambda v: f"itemgetter(*{PK})" in unparse(v)) or ["cols"])[0]
    FC = name_bound(sf, lambda v: "map(itemgetter('context')" in unparse(v), "fitting_contexts")
    cols = [unparse(v) for v in assigned_value(sf, COLS)]
    okc = len(cols) == 4 and all(PK in c or FC in c for c in cols)
    ctx.ob("C11.R7", EF, "Scale.filter", sf, "every container arm builds its columns from the key list, in key order", okc, detail={"cols": cols}, stmt="columns by key list")
    pairs = [unparse(v) for v in walk_shallow(sf) if isinstance(v, ast.Call) and call_name(v) in ("zip", "dict") and SK in unparse(v) and SV in unparse(v)]
    ctx.ob("C11.R7", EF, "Scale.filter", sf, "keys are paired with their statistics position-wise", sorted(pairs)[:2] == sorted([f"dict(zip({SK}, {SV}))", f"zip({SK}, {SV})"])[:2] or
           {f"zip({SK}, {SV})"} <= set(pairs), detail={"pairs": pairs}, stmt="zip keys with statistics")


def _chain(lp):
    """the if/elif chain directly in the loop body"""
    out = []
    for s in lp.body:
        cur = s
        while isinstance(cur, ast.If):
            out.append(cur)
            cur = cur.orelse[0] if len(cur.orelse) == 1 else None
    return out


def r12_first_row_missing(ctx, rule="C11.R12"):
    """'missing values at any position including the first interaction': the first context may rule a feature out only by a non-numeric VALUE."""
    ctx.rule(rule, "feature selection from the first context: wherever Scale / Impute (mean, median) pick the features to treat by testing the first context's values with "
                   "isinstance(v, (int, float)), a missing value (None) is admitted as well -- a None there says nothing about the feature; the fitted values decide, "
                   "and Scale's fit answers 'do not scale' for a window that holds a non-numeric value")
    n = 0
    for qual in ("Scale.filter", "Impute.filter"):
        fn = ctx.fn(EF, qual)
        for comp in [x for x in ast.walk(fn) if isinstance(x, (ast.ListComp, ast.SetComp))]:
            for g in comp.generators:
                for t in g.ifs:
                    isi = [c for c in ast.walk(t) if isinstance(c, ast.Call) and call_name(c) == "isinstance" and len(c.args) == 2 and "int" in unparse(c.args[1]) and "float" in unparse(c.args[1])]
                    if not isi or "first" not in unparse(g.iter):
                        continue
                    V = unparse(isi[0].args[0])
                    n += 1
                    # the test as a boolean function of A = isinstance(v, (int, float)) and B = `v is None`, evaluated by substitution (any equivalent spelling is accepted):
                    # a test that selects numbers (P(A)=True) must select a missing value too, a test that selects what to leave alone must not
                    def truth(a_val, b_val, t=t, V=V):
                        class Sub(ast.NodeTransformer):
                            def visit_Call(self, node):
                                if call_name(node) == "isinstance" and unparse(node.args[0]) == V:
                                    return ast.Constant(value=a_val)
                                return self.generic_visit(node)

                            def visit_Compare(self, node):
                                if canon(unparse(node)) == canon(f"{V} is None"):
                                    return ast.Constant(value=b_val)
                                if canon(unparse(node)) == canon(f"{V} is not None"):
                                    return ast.Constant(value=not b_val)
                                return self.generic_visit(node)
                        e = Sub().visit(ast.parse(unparse(t), mode="eval").body)
                        if any(isinstance(y, (ast.Name, ast.Call, ast.Attribute)) for y in ast.walk(e)):
                            return None
                        return bool(eval(compile(ast.fix_missing_locations(ast.Expression(e)), "<truth>", "eval"), {"__builtins__": {}}))   # constant folding
                    num, mis = truth(True, False), truth(False, True)
                    ok = num is not None and mis is not None and num == mis
                    ctx.ob(rule, EF, qual, comp, "the numeric-feature test on the first context treats a missing value like a number (selected with them / not excluded)", ok,
                           detail={"test": unparse(t), "P(number)": num, "P(missing)": mis})
    ctx.floor(rule, "first-context type tests in Scale/Impute", n, 4)
    fit = ctx.fn(EF, "Scale._get_shift_and_scale")
    guards = [st for st in ast.walk(fit) if isinstance(st, ast.If) and any(isinstance(r, ast.Return) and isinstance(r.value, ast.Constant) and r.value.value is None for r in st.body)
              and "isinstance" in unparse(st.test) and "all(" in unparse(st.test)]
    ctx.ob(rule, EF, "Scale._get_shift_and_scale", guards[0] if guards else fit, "a fitting window holding a non-numeric value makes the fit answer None (feature left alone) before any statistic is taken",
           bool(guards), stmt="numeric window guard")


def r13_container_capabilities(ctx, rule="C11.R13"):
    """'behave identically for dense, sparse and scalar contexts': the context containers coba itself produces (list, tuple, dict, SparseDense, lazy rows)
    differ in what they support; an operation only some of them have is applied under a test of the very value it is applied to."""
    from ..util import all_guards
    ctx.rule(rule, "container capabilities: Mutable calls .copy() on a context only under an isinstance test of that same context (not of the first interaction's), and Impute "
                   "grows a dense context in place (`+=`) only after making sure it is a list (SparseDense has item assignment but cannot grow)")
    n = 0
    fn = ctx.fn(EF, "Mutable.filter")
    for c in [c for c in ast.walk(fn) if isinstance(c, ast.Call) and isinstance(c.func, ast.Attribute) and c.func.attr == "copy" and not c.args]:
        recv = c.func.value
        is_ctx = (isinstance(recv, ast.Subscript) and const_str(recv.slice) == "context") or (isinstance(recv, ast.Name) and any(
            isinstance(v, ast.Subscript) and const_str(v.slice) == "context" for v in assigned_value(fn, recv.id)))
        if not is_ctx:
            continue
        n += 1
        R = unparse(recv)
        ok = any(pol and any(isinstance(y, ast.Call) and call_name(y) == "isinstance" and y.args and unparse(y.args[0]) == R for y in ast.walk(t)) for t, pol in all_guards(c, fn))
        ctx.ob(rule, EF, "Mutable.filter", c, "the context is copied with .copy() only when THIS context is one of the containers that have it", ok)
    fn = ctx.fn(EF, "Impute.filter")
    for st in [x for x in ast.walk(fn) if isinstance(x, ast.AugAssign) and isinstance(x.op, ast.Add) and isinstance(x.target, ast.Name)]:
        X = st.target.id
        if not any(isinstance(v, ast.Subscript) and const_str(v.slice) == "context" for v in assigned_value(fn, X)):
            continue
        n += 1
        from ..model import parent
        body = None
        p_ = parent(st)
        for field in ("body", "orelse"):
            if st in (getattr(p_, field, None) or []):
                body = getattr(p_, field)
        before = body[:body.index(st)] if body else []
        norm = any(isinstance(b, ast.If) and canon(unparse(b.test)) == canon(f"not isinstance({X}, list)") and any(
            isinstance(a, ast.Assign) and any(isinstance(t, ast.Name) and t.id == X for t in a.targets) and unparse(a.value) == f"list({X})" for a in b.body) for b in before)
        guarded = any(pol and canon(unparse(t)) == canon(f"isinstance({X}, list)") for t, pol in all_guards(st, fn))
        ctx.ob(rule, EF, "Impute.filter", st, "the dense context is grown in place only once it is known to be a list", norm or guarded)
    ctx.floor(rule, "capability-dependent container operations in Mutable/Impute", n, 1)
    mutable_private_containers(ctx, rule)


def mutable_private_containers(ctx, rule):
    """Scale and Impute write into the contexts Mutable hands them: every context Mutable yields must be a container made in this read
    (the source's -- or a cache's -- own row must never be reached by those writes)."""
    from ..cfg import CFG, forward
    from ..util import node_ast_for_effects
    fn = ctx.fn(EF, "Mutable.filter")
    FRESH = ("list(", "dict(")
    m = 0
    for lp in [x for x in ast.walk(fn) if isinstance(x, ast.For)]:
        stores = [st for st in ast.walk(lp) if isinstance(st, ast.Assign) and any(isinstance(t, ast.Subscript) and const_str(t.slice) == "context" for t in st.targets)]
        if not stores:
            continue   # scalar contexts: nothing to copy
        NEW = unparse(stores[0].targets[0].value)
        g = CFG(fn, body=lp.body)

        def fresh_store(node):
            a = node_ast_for_effects(node)
            if not (isinstance(a, ast.Assign) and any(isinstance(t, ast.Subscript) and const_str(t.slice) == "context" and unparse(t.value) == NEW for t in a.targets)):
                return False
            v = a.value
            vals = [v.body, v.orelse] if isinstance(v, ast.IfExp) else [v]
            return all((isinstance(x, ast.Call) and isinstance(x.func, ast.Attribute) and x.func.attr == "copy" and not x.args and not (isinstance(x.func.value, ast.Name) and x.func.value.id == "copy"))
                       or (isinstance(x, ast.Call) and call_name(x) in ("list", "dict")) for x in vals)
        IN = forward(g, False, lambda node, st, label: st if label in ("exc", "abandon") else (True if fresh_store(node) else st), lambda a, b: a and b)
        for nd in g.nodes:
            a = node_ast_for_effects(nd)
            if a is None or nd.id not in IN:
                continue
            for y in [y for y in ast.walk(a) if isinstance(y, ast.Yield) and y.value is not None and unparse(y.value) == NEW]:
                m += 1
                ctx.ob(rule, EF, "Mutable.filter", y, "the yielded interaction's context was re-bound on every path to a container made here (`.copy()` of the container, list(...) or dict(...)) -- "
                       "not to the source's own object and not to a copy.copy() that shares the storage of a slotted row", bool(IN[nd.id]), stmt=f"yield {NEW}: private context")
    ctx.floor(rule, "yields of re-bound contexts in Mutable.filter", m, 3)


def r14_interpolation(ctx, rule="C11.R14"):
    """iqr / median of a window that holds infinities: the percentile interpolates between two neighbours; written as a + w*(b - a) two equal infinities give inf - inf = nan
    and the nan spreads to every value of the feature, written as (1-w)*a + w*b they give inf (scale 0)."""
    ctx.rule(rule, "statistics.percentile never subtracts two data values from each other: the interpolation between neighbours is the convex combination (1-w)*a + w*b")
    ST = "coba/statistics.py"
    fn = ctx.fn(ST, "percentile")
    P = fn.args.args[0].arg
    subs = [b for b in ast.walk(fn) if isinstance(b, ast.BinOp) and isinstance(b.op, ast.Sub)
            and all(isinstance(o, ast.Subscript) and isinstance(o.value, ast.Name) and o.value.id == P for o in (b.left, b.right))]
    interp = [b for b in ast.walk(fn) if isinstance(b, ast.BinOp) and isinstance(b.op, ast.Add) and all(isinstance(o, ast.BinOp) and isinstance(o.op, ast.Mult) for o in (b.left, b.right))
              and sum(1 for o in (b.left, b.right) for y in ast.walk(o) if isinstance(y, ast.Subscript) and isinstance(y.value, ast.Name) and y.value.id == P) == 2]
    ctx.ob(rule, ST, "percentile", (subs or interp or [fn])[0], "neighbouring values are combined as (1-w)*a + w*b, no difference of two data values is formed", not subs and bool(interp), detail={"differences": [unparse(b) for b in subs]})


def write_through(ctx, rule):
    """Mutable dense views over sparse storage (SparseDense: what Densify hands to Scale/Impute and to the learners' encoders):
    a write is stored for every value, and nothing the read methods derive from the storage survives a write."""
    from ..cfg import CFG, forward
    from ..util import node_ast_for_effects
    ctx.rule(rule, "write-through of mutable rows: on every non-raising path __setitem__ stores the given value under the (normalised) key for every value "
                   "(no value-dependent skip), the read methods store nothing on the row, or whatever they memoise is dropped on every path of __setitem__")
    RW = "coba/pipes/rows.py"
    n = 0
    for c in ctx.model.classes:
        if c.rel != RW or "__setitem__" not in c.methods:
            continue
        fn = c.methods["__setitem__"]
        ctx.touch(RW, f"{c.name}.__setitem__")
        params = [a.arg for a in fn.args.args]
        if len(params) < 3:
            continue
        KEY, VAL = params[1], params[2]
        g = CFG(fn)

        def stores_value(node):
            a = node_ast_for_effects(node)
            if not isinstance(a, ast.Assign):
                return False
            return isinstance(a.value, ast.Name) and a.value.id == VAL and any(
                isinstance(t, ast.Subscript) and is_self_attr(t.value) and isinstance(t.slice, ast.Name) and t.slice.id == KEY for t in a.targets)
        IN = forward(g, False, lambda node, st, label: None if label in ("exc", "abandon") and False else (True if stores_value(node) else st), lambda a, b: a and b)
        n += 1
        reach = g.exit_return in IN
        ctx.ob(rule, RW, f"{c.name}.__setitem__", fn, f"every normal return of {c.name}.__setitem__ has stored `{VAL}` under `{KEY}` (must-pass, whatever the value)",
               reach and bool(IN[g.exit_return]), stmt=f"{c.name}.__setitem__ stores on every path")
        # memoised derived state
        memo = {}
        for name, m in c.methods.items():
            if name in ("__init__", "__setitem__", "__setstate__", "__new__"):
                continue
            for st in ast.walk(m):
                tg = st.targets if isinstance(st, ast.Assign) else [st.target] if isinstance(st, (ast.AugAssign, ast.AnnAssign)) else []
                for t in tg:
                    for tt in (t.elts if isinstance(t, (ast.Tuple, ast.List)) else [t]):
                        if is_self_attr(tt):
                            memo.setdefault(tt.attr, (name, st))
        for attr, (name, st) in sorted(memo.items()):
            n += 1

            def resets(node, attr=attr):
                a = node_ast_for_effects(node)
                return isinstance(a, (ast.Assign, ast.Delete)) and any(is_self_attr(t, attr) for t in (a.targets if isinstance(a, (ast.Assign, ast.Delete)) else []))
            IN2 = forward(g, False, lambda node, st_, label, resets=resets: True if resets(node) else st_, lambda a, b: a and b)
            ok = g.exit_return in IN2 and bool(IN2[g.exit_return])
            ctx.ob(rule, RW, f"{c.name}.{name}", st, f"self.{attr} (memoised by {name}) is dropped on every path of __setitem__", ok)
    ctx.floor(rule, "mutable row classes examined", n, 1)
    # reads: an absent position reads as 0, a STORED value reads as itself -- the default comes from `.get(key, 0)` / a membership test, never from truthiness
    sd = ctx.model.cls(RW, "SparseDense")
    for name in ("__getitem__", "__iter__"):
        f_ = sd.methods[name]
        by_truth = [b for b in ast.walk(f_) if isinstance(b, ast.BoolOp) and isinstance(b.op, ast.Or) and any("self._values" in unparse(v) for v in b.values)]
        ctx.ob(rule, RW, f"SparseDense.{name}", (by_truth or [f_])[0], "a stored value (None, 0.0, '') is returned as stored: the default for absent positions is not chosen by truthiness (`x or 0`)", not by_truth,
               stmt=f"SparseDense.{name} default")
    # copies (Mutable copies every row before Scale / Impute write to it): a copy carries every stored entry -- a value-dependent filter drops stored None / 0 / '',
    # which then read back as the default 0 (a missing value becomes a number, an explicit 0 an absent position)
    for c in ctx.model.classes:
        if c.rel != RW or "copy" not in c.methods:
            continue
        f_ = c.methods["copy"]
        filt = [x for x in ast.walk(f_) if (isinstance(x, ast.comprehension) and x.ifs) or (isinstance(x, ast.Call) and call_name(x) in ("filter", "compress", "filterfalse"))]
        ctx.ob(rule, RW, f"{c.name}.copy", next((x for x in filt if hasattr(x, "lineno")), f_.body[-1]), "the copy of a row carries every stored entry (no value-dependent filter)", not filt, stmt=f"{c.name}.copy complete")


CONTROLS = [
    ("percentile interpolates with a difference of neighbours", "coba/statistics.py", M.replace_expr("percentile", "(1 - w) * values[I] + w * values[I + 1]", "values[I] + w * (values[I + 1] - values[I])"), "C11.R14"),
    ("SparseDense.copy drops falsy values", "coba/pipes/rows.py", M.replace_expr("SparseDense.copy", "self._values.copy()", "{k: v for k, v in self._values.items() if v}"), "C11.R11"),
    ("SparseDense reads a stored None as 0", "coba/pipes/rows.py", M.replace_expr("SparseDense.__getitem__", "self._values.get(key, 0)", "self._values.get(key) or 0"), "C11.R11"),
    ("Mutable shallow-copies slotted rows", EF, M.replace_expr("Mutable.filter", "context.copy()", "__import__('copy').copy(context)"), "C11.R13"),
    ("Mutable passes mutable containers through", EF, M.replace_stmt("Mutable.filter", M.text_has("new['context'] = list(new['context'])"), "if not isinstance(new['context'], list): new['context'] = list(new['context'])"), "C11.R13"),
    ("stdev of a single value", EF, M.replace_expr("Scale._scale_value", "stdev(values) if len(values) > 1 else 0", "stdev(values)"), "C11.R9"),
    ("Impute grows whatever dense container it is given", EF, M.delete_stmt("Impute.filter", M.text_has("if not isinstance(context, list)")), "C11.R13"),
    ("Scale takes a missing first value for a non-numeric feature", EF, M.replace_expr("Scale.filter", "isinstance(v, (int, float)) or v is None", "isinstance(v, (int, float))", nth=0), "C11.R12"),
    ("SparseDense keeps zeros implicit", "coba/pipes/rows.py", M.replace_stmt("SparseDense.__setitem__", M.text_has("self._values[key] = value"), "if value != 0: self._values[key] = value"), "C11.R11"),
    ("dense apply does not skip None", EF, M.replace_stmt("Scale.filter", M.text_has("if context[i] is not None: context[i] = (context[i] + shift) * scale"), "context[i] = (context[i] + shift) * scale"), "C11.R10"),
    ("sparse impute without statistic guard", EF, M.replace_expr("Impute.filter", "_is_missing(v) and k in imputations", "_is_missing(v)", nth=1), "C11.R10"),
    ("fit keeps NaN", EF, M.replace_expr("Scale._get_shift_and_scale", "[v for v in values if v is not None and v == v]", "[v for v in values if v is not None]"), "C11.R6"),
    ("maxabs adds the shift through int.__add__", EF, M.replace_expr("Scale._scale_value", "max((abs(v + shift) for v in values))", "max(map(abs, map(shift.__add__, values)))"), "C11.R6"),
    ("scale computed with the configured shift keyword instead of the fitted shift", EF, M.replace_expr("Scale._get_shift_and_scale", "self._scale_value(values, shift)", "self._scale_value(values, self._shift)"), "C11.R6"),
    ("Scale keeps the first fit", EF, M.replace_stmt("Scale.filter", M.simple_has("scaling_vals = list(map(self._get_shift_and_scale, cols))"),
                                                    "if getattr(self, '_fit', None) is None:\n    self._fit = list(map(self._get_shift_and_scale, cols))\nscaling_vals = self._fit"), "C11.R8"),
    ("iqr shortcut for two values", "coba/statistics.py", M.replace_expr("iqr", "len(values) <= 1", "len(values) <= 2"), "C11.R9"),
    ("std around the shift", EF, M.replace_expr("Scale._scale_value", "stdev(values)", "stdev(values, -shift)"), "C11.R6"),
    ("imputations keyed by position", EF, M.replace_expr("Impute.filter", "zip(imputable_cols, unimputed)", "enumerate(unimputed)"), "C11.R7"),
    ("apply to the remainder only", EF, M.replace_expr("Scale.filter", "chain(fitting_interactions, remaining_interactions)", "remaining_interactions", nth=2), "C11.R1"),
    ("scale the actions", EF, M.replace_stmt("Scale.filter", M.simple_has("new['context'] = (new['context'] + shift) * scale"), "new['actions'] = (new['context'] + shift) * scale"), "C11.R2"),
    ("scale result dropped", EC, M.replace_stmt("Environments.scale", M.text_has("for t in targets"), "for t in targets:\n    envs = self.filter(Scale(shift, scale, t, using))\nreturn envs"), "C11.R4"),
    ("impute overwrites present values", EF, M.replace_expr("Impute.filter", "_is_missing(v) and k in imputations", "k in imputations"), "C11.R5"),
    ("the statistic keeps NaN while the replacement treats it as missing", EF, M.replace_expr("Impute._get_imputation", "not _is_missing(v)", "v is not None"), "C11.R5"),
    ("missing means None only in the helper", EF, M.replace_expr("_is_missing", "value is None or value != value", "value is None"), "C11.R5"),
    ("isinstance with or", "coba/pipes/filters.py", M.replace_expr("Flatten.filter", "isinstance(first, Dense)", "isinstance(first, Dense or tuple)"), "C11.R3"),
]
